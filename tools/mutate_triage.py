#!/usr/bin/env python3
"""Triage table for the survivors of the mutation survey (tools/mutate.py): every survivor must fall in a class below.
Prints the class counts and any unclassified survivor (which is a blind spot to look at).

  tools/mutate_triage.py /tmp/mutate [/tmp/mutate2 ...]"""
import collections
import glob
import json
import os
import sys

# (file suffix, first line, last line, op substring or None) -> class
RULES = [
    # code that is not compiled for this target (cfg(windows) / non-unix fallbacks) - equivalent here
    ("supervisor/src/command/conversions.rs", 26, 42, None, "not-compiled"), ("supervisor/src/command/conversions.rs", 70, 74, None, "not-compiled"),
    ("lib/src/sources/signal.rs", 95, 117, None, "not-compiled"), ("supervisor/src/job/task.rs", 463, 470, None, "not-compiled"),
    ("cli/src/config.rs", 407, 412, None, "not-compiled"), ("cli/src/config.rs", 501, 515, None, "not-compiled"), ("events/src/process.rs", 70, 90, None, "not-compiled"),
    # text of log / panic messages, trace statements, statistics counters, terminal cosmetics
    ("supervisor/src/job/task.rs", 459, 459, None, "cosmetic"), ("supervisor/src/job/job.rs", 76, 87, "swap:>", "cosmetic"), ("lib/src/paths.rs", 94, 94, None, "cosmetic"),
    ("lib/src/sources/fs.rs", 163, 163, None, "cosmetic"), ("ignore-files/src/filter.rs", 154, 155, None, "cosmetic"), ("ignore-files/src/filter.rs", 184, 185, None, "cosmetic"),
    ("cli/src/config.rs", 334, 334, None, "cosmetic"), ("cli/src/config.rs", 348, 348, None, "cosmetic"), ("cli/src/config.rs", 374, 378, None, "cosmetic"),
    ("cli/src/config.rs", 411, 411, None, "cosmetic"), ("cli/src/config.rs", 425, 425, None, "cosmetic"), ("cli/src/config.rs", 449, 449, None, "cosmetic"), ("cli/src/config.rs", 468, 468, None, "cosmetic"),
    # equivalent by the code's own semantics (reason in DESIGN.md section 9.1)
    ("supervisor/src/job/task.rs", 111, 111, None, "equivalent"), ("supervisor/src/job/task.rs", 353, 353, None, "equivalent"), ("supervisor/src/job/state.rs", 97, 97, None, "equivalent"),
    ("lib/src/action/worker.rs", 99, 99, None, "equivalent"), ("lib/src/action/worker.rs", 102, 102, None, "equivalent"), ("lib/src/action/worker.rs", 136, 136, None, "equivalent"),
    ("lib/src/sources/fs.rs", 127, 127, None, "equivalent"), ("lib/src/late_join_set.rs", 88, 88, None, "equivalent"), ("lib/src/late_join_set.rs", 103, 103, None, "equivalent"),
    ("ignore-files/src/filter.rs", 137, 137, "&&", "equivalent"), ("ignore-files/src/filter.rs", 237, 237, "&&", "equivalent"), ("ignore-files/src/filter.rs", 326, 326, "&&", "equivalent"),
    ("ignore-files/src/filter.rs", 197, 197, None, "equivalent"), ("filterer/ignore/src/lib.rs", 43, 43, None, "equivalent"), ("filterer/globset/src/lib.rs", 103, 103, None, "equivalent"),
    ("ignore-files/src/discover.rs", 559, 559, None, "equivalent"), ("ignore-files/src/discover.rs", 577, 577, None, "equivalent"), ("ignore-files/src/discover.rs", 634, 635, None, "equivalent"),
    ("cli/src/config.rs", 492, 492, None, "equivalent"),
    # behaviour that no listed property speaks about
    ("lib/src/sources/fs.rs", 272, 272, None, "outside-properties"), ("lib/src/sources/fs.rs", 284, 294, None, "outside-properties"), ("lib/src/sources/signal.rs", 127, 127, None, "outside-properties"),
    ("cli/src/config.rs", 357, 364, None, "outside-properties"), ("cli/src/config.rs", 384, 384, None, "outside-properties"),
    ("ignore-files/src/discover.rs", 202, 202, None, "outside-properties"), ("ignore-files/src/discover.rs", 298, 301, None, "outside-properties"), ("ignore-files/src/discover.rs", 458, 458, None, "outside-properties"),
    ("ignore-files/src/discover.rs", 479, 479, None, "outside-properties"), ("ignore-files/src/discover.rs", 585, 594, None, "outside-properties"), ("ignore-files/src/discover.rs", 645, 645, None, "outside-properties"),
    # killed by the repository's own tests (outside the task's scope), kept for the record
    ("ignore-files/src/filter.rs", 103, 103, None, "test-killed"), ("filterer/globset/src/lib.rs", 191, 193, None, "test-killed"), ("filterer/globset/src/lib.rs", 215, 215, None, "test-killed"),
    # second region set: the command-line layer around the library. No listed property speaks about argument normalisation (deprecated flags,
    # --watch-file, making paths absolute, defaults), about what the CLI prints, its man page / completions / exit code, or --once / --only-emit-events
    ("cli/src/args.rs", 170, 182, None, "cosmetic"),
    ("cli/src/args/command.rs", 205, 307, None, "outside-properties"), ("cli/src/args/events.rs", 288, 346, None, "outside-properties"),
    ("cli/src/args/filtering.rs", 330, 496, None, "outside-properties"),
    ("cli/src/config.rs", 60, 76, None, "cosmetic"), ("cli/src/config.rs", 90, 130, None, "outside-properties"), ("cli/src/config.rs", 200, 230, None, "outside-properties"),
    ("cli/src/config.rs", 236, 278, None, "cosmetic"), ("cli/src/config.rs", 295, 312, None, "outside-properties"), ("cli/src/config.rs", 560, 660, None, "cosmetic"),
    ("cli/src/config.rs", 736, 745, None, "cosmetic"), ("cli/src/lib.rs", 50, 140, None, "outside-properties"),
    ("ignore-files/src/filter.rs", 455, 460, None, "equivalent"), ("supervisor/src/job/task.rs", 390, 400, None, "cosmetic"),
    # the list of candidate locations of global ignore files (from_environment) is, like the origins() marker list, a single-source table
    ("ignore-files/src/discover.rs", 330, 436, None, "undecided-single-source-table"),
    # undecided by design: markers that only origins() knows have no second source to cross-check (DESIGN 7.1)
    ("project-origins/src/lib.rs", 205, 256, "has_file->has_dir", "undecided-single-source-table"), ("project-origins/src/lib.rs", 205, 256, "has_dir->has_file", "undecided-single-source-table"),
]


def classify(r):
    for suf, lo, hi, op, cls in RULES:
        if r["file"].endswith(suf) and lo <= r["line"] <= hi and (op is None or op in r["op"]):
            return cls
    return None


def main():
    d = {}
    for out in sys.argv[1:]:
        for f in sorted(glob.glob(os.path.join(out, "results-*.jsonl"))):
            for l in open(f):
                r = json.loads(l)
                d[(r["file"], r["line"], r["op"])] = r
    st = collections.Counter(r["status"] for r in d.values())
    print("mutants: %d  no-compile: %d  detected: %d  survived: %d" % (len(d), st["no-compile"], st["detected"], st["SURVIVED"]))
    cl = collections.Counter()
    un = []
    for r in d.values():
        if r["status"] != "SURVIVED":
            continue
        c = classify(r)
        cl[c or "UNCLASSIFIED"] += 1
        if c is None:
            un.append(r)
    for k, v in sorted(cl.items()):
        print("  %-32s %d" % (k, v))
    for r in sorted(un, key=lambda r: (r["file"], r["line"])):
        print("UNCLASSIFIED", r["file"], r["line"], r["op"], "|", r["orig"][:90], "=>", r["new"][:50])
    return 1 if un else 0


if __name__ == "__main__":
    sys.exit(main())
