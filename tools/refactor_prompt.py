#!/usr/bin/env python3
"""Prints the prompt given to an independent sub-agent asked for behaviour-preserving refactorings of one area
(silence corpus, DESIGN.md section 4.6). The agent gets the area, the property texts that live there and its own scratch
worktree - nothing from /verif.   usage: refactor_prompt.py <area> <round>"""
import json
import sys

props = {json.loads(l)["id"]: json.loads(l) for l in open("/verif/properties.jsonl")}

AREAS = {
    "sup": ("the process supervisor: crates/supervisor/src (job/task.rs, job/job.rs, job/priority.rs, job/messages.rs, job/state.rs, flag.rs, command/*)",
            ["C04", "C06", "C07", "C09", "C10", "C18"]),
    "lib": ("the library core: crates/lib/src (action/worker.rs, action/handler.rs, action/quit.rs, sources/fs.rs, sources/signal.rs, sources/keyboard.rs, "
            "changeable.rs, config.rs, watchexec.rs, late_join_set.rs, paths.rs, filter.rs, error/*)", ["C01", "C02", "C08", "C13", "C15", "C17"]),
    "cli": ("the command-line program: crates/cli/src (lib.rs, config.rs, args.rs and args/*.rs, filterer.rs, filterer/*, dirs.rs, emits.rs, state.rs, socket*)",
            ["C05", "C08", "C12", "C14", "C17", "C18"]),
    "ign": ("the ignore machinery: crates/ignore-files/src (discover.rs, filter.rs, file.rs), crates/filterer/globset/src, crates/filterer/ignore/src",
            ["C03", "C11", "C12", "C14"]),
    "evs": ("events, signals and project origins: crates/events/src (event.rs, fs.rs, process.rs, serde_formats.rs, keyboard.rs), crates/signals/src, "
            "crates/project-origins/src, crates/bosion", ["C16", "C19", "C20"]),
}


def touched(area):
    import glob
    import re
    out = set()
    for f in sorted(glob.glob("/verif/equiv/r-%s-*.patch" % area) + glob.glob("/verif/equiv/r2-%s-*.patch" % area) + glob.glob("/verif/equiv/r3-%s-*.patch" % area)):
        cur = None
        for line in open(f, errors="replace"):
            if line.startswith("+++ b/"):
                cur = line[6:].strip()
            m = re.match(r"^@@ .* @@\s*(.*)$", line)
            if m and cur:
                fn = re.search(r"fn\s+(\w+)", m.group(1))
                out.add((cur, fn.group(1) if fn else (m.group(1)[:50] or "-")))
    return "\n".join("  - %s : %s" % x for x in sorted(out))


def prompt(area, rnd):
    desc, pids = AREAS[area]
    ptxt = "\n".join("  %s - %s: %s" % (p, props[p]["title"], props[p]["statement"]) for p in pids)
    n0 = {1: 1, 2: 9, 3: 17}[rnd]
    tag = {1: "r", 2: "r2", 3: "r3"}[rnd]
    extra = ""
    if rnd >= 2:
        extra = f"""
Other volunteers already delivered eight (or sixteen) refactorings of this area; they touched these places (file : function named in the hunk header):
{touched(area)}
Prefer OTHER functions of the area (anything the properties above depend on: helpers, constructors, conversions, trait impls, tables, the plumbing between
components), and prefer refactorings that change the SHAPE of the code more than a one-token edit: a `match` turned into an if-chain or a lookup through a
small private helper; a loop turned into an iterator chain (or back); a function split into two private functions, or two merged; a closure turned into a
named fn; a struct literal built through a constructor; an early return turned into a nested block; `?` turned into an explicit match; a boolean expression
restructured with De Morgan; a `while let` turned into `loop {{ match }}`; a value computed once and reused instead of twice; a temporary introduced or removed;
statements that do not depend on each other reordered; a `clone()` moved; `Option` combinators <-> `if let`. At most two of the eight may be single-expression edits."""
    return f"""You are helping test a static-analysis tool by producing realistic BEHAVIOUR-PRESERVING refactorings of the open-source Rust project watchexec (a CLI + library that watches filesystem paths and supervises/restarts commands).

You have your own scratch git worktree of the repository at /tmp/wt/{tag}-{area} (a detached checkout; work ONLY inside it; never touch /repo or /verif, and do not read anything under /verif). The sandbox is offline: use `cargo ... --offline` for everything. Use the worktree's own default target dir. Never use `git stash`. Never run two cargo commands at once.

AREA: {desc}

The tool checks these properties of that code (texts given so that you know which code matters - your refactorings should be IN the code these properties depend on):
{ptxt}

TASK: produce EIGHT independent refactorings (each a separate small patch against the worktree's HEAD) of the kind a maintainer really commits, each of which provably does NOT change behaviour: for every input, schedule and error path the program does exactly what it did before (same calls in the same order with the same arguments, same results, same side effects, same panics). Cosmetic differences in log/trace output are acceptable only if you add tracing; do not remove or change existing messages.{extra}
Rules: (a) `cargo check --workspace --offline` passes; (b) the existing tests of every crate you touched pass, unedited (e.g. `cargo test -p watchexec-supervisor --offline`, `cargo test -p watchexec --offline`, `cargo test -p watchexec-cli --offline --lib`, `cargo test -p ignore-files -p watchexec-filterer-ignore -p watchexec-filterer-globset --offline`, `cargo test -p watchexec-events --offline --features serde`, `cargo test -p project-origins -p ignore-files --offline`, `cargo test -p watchexec-signals --offline`); (c) be strict with yourself about equivalence: evaluation order of side effects, short-circuiting, what is held across an `.await`, which value is cloned when, integer overflow, iterator laziness. If you are not certain a rewrite is equivalent, drop it and pick another. Do not change public API signatures.

DELIVERABLES - create directory /tmp/refactors/ and in it one file per refactoring named {tag}-{area}-{n0}.patch ... {tag}-{area}-{n0 + 7}.patch: the `git diff` of ONLY that change against HEAD (apply-able with `git apply`/`patch -p1` at the repo root), preceded by a few comment lines (each starting with `# `) saying what was rewritten and why it is equivalent. After producing each patch, reset the worktree (`git -C /tmp/wt/{tag}-{area} checkout -- . && git -C /tmp/wt/{tag}-{area} clean -fd -e target`) so patches are independent. Leave the worktree clean at the end. Finish with a short plain-text list of what you delivered."""


if __name__ == "__main__":
    print(prompt(sys.argv[1], int(sys.argv[2]) if len(sys.argv) > 2 else 1))
