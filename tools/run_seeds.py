#!/usr/bin/env python3
"""Runs the registered checks against every seeded change under /verif/seeded (scratch copy of /repo, never /repo itself)
and writes /verif/seeded/RESULTS.json + RESULTS.md: which check catches which change."""
import json
import os
import subprocess
import sys

HERE = os.path.dirname(os.path.dirname(os.path.abspath(__file__)))
sys.path.insert(0, HERE)
from tools import mut  # noqa: E402

SEEDS = os.path.join(HERE, "seeded")
ALL = ["C%02d" % i for i in range(1, 21)]


def main():
    only = [a for a in sys.argv[1:] if not a.startswith("--")]
    claimed = [c["property_id"] for c in json.load(open(os.path.join(HERE, "MANIFEST.json")))["checks"]]
    results = {}
    rp = os.environ.get("WXV_RESULTS") or os.path.join(SEEDS, "RESULTS.json")
    if os.path.exists(rp):
        results = json.load(open(rp))
    ids = sorted(d for d in os.listdir(SEEDS) if os.path.isdir(os.path.join(SEEDS, d)))
    for sid in ids:
        if only and sid not in only:
            continue
        meta = json.load(open(os.path.join(SEEDS, sid, "meta.json")))
        prop = meta["property"]
        if meta.get("obsolete"):
            results[sid] = {"property": prop, "error": "obsolete: " + meta["obsolete"]}
            print(sid, "OBSOLETE")
            json.dump(results, open(rp, "w"), indent=1)
            continue
        dst = mut.prepare()
        r = subprocess.run(["patch", "-p1", "-d", dst, "-i", os.path.join(SEEDS, sid, "patch.diff")], stdout=subprocess.PIPE, stderr=subprocess.STDOUT, text=True)
        if r.returncode != 0:
            results[sid] = {"property": prop, "error": "patch does not apply to current /repo HEAD: " + r.stdout[-300:]}
            print(sid, "PATCH DOES NOT APPLY")
            continue
        props = [p for p in claimed]
        res = mut.run_checks(dst, props if "--all" in sys.argv else [p for p in props if p == prop] + [p for p in props if p != prop and "--all" in sys.argv], quiet=True)
        # always also try every other claimed check when the own one misses
        if res.get(prop) != "DETECTED":
            res.update(mut.run_checks(dst, [p for p in props if p != prop], quiet=True))
        keys = {}
        for p, v in res.items():
            if v == "DETECTED":
                ev = os.path.join(mut.SCRATCH, "evidence-%s.json" % p)
                try:
                    cov = json.load(open(ev))["coverage"]
                    keys[p] = [s["key"] for s in cov.get("samples", []) if s.get("status") != "ok"][:3]
                except Exception:
                    keys[p] = []
        results[sid] = {"property": prop, "own_check": res.get(prop, "not claimed"),
                        "detected_by": sorted(p for p, v in res.items() if v == "DETECTED"), "example_keys": keys,
                        "summary": (meta.get("summary") or "")[:300]}
        print(sid, results[sid]["own_check"], results[sid]["detected_by"])
        json.dump(results, open(rp, "w"), indent=1)
    lines = ["# Seeded changes vs checks", "",
             "Every change below was written by an independent sub-agent (given only the property text), compiles, passes the existing",
             "tests, and was confirmed by me with its demonstration (see each meta.json). `own check` = the check of the property the",
             "change was written against; `also` = other checks that fire.", "",
             "| seed | property | own check | also detected by | what it does |", "|---|---|---|---|---|"]
    for sid in sorted(results):
        r = results[sid]
        if "error" in r:
            lines.append("| %s | %s | n/a | | %s |" % (sid, r["property"], r["error"][:80]))
            continue
        also = [p for p in r["detected_by"] if p != r["property"]]
        lines.append("| %s | %s | %s | %s | %s |" % (sid, r["property"], r["own_check"], " ".join(also), r["summary"].replace("|", "/").replace("\n", " ")[:160]))
    open(os.path.join(SEEDS, "RESULTS.md"), "w").write("\n".join(lines) + "\n")
    return 0


if __name__ == "__main__":
    sys.exit(main())
