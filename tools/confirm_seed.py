#!/usr/bin/env python3
"""Independently confirm a seeded change: applies to a scratch worktree of /repo HEAD,
(1) cargo check --workspace, (2) existing tests of touched crates pass with the patch,
(3) demo fails with the patch, (4) demo passes without it.
usage: confirm_seed.py <seed dir> [--skip-existing]
Writes <seed dir>/confirm.json and prints a one-line verdict."""
import json
import os
import re
import subprocess
import sys
import time

WT = os.environ.get("WXV_CONFIRM_WT", "/tmp/wt/confirm")
CRATES = {"crates/supervisor": "watchexec-supervisor", "crates/lib": "watchexec", "crates/cli": "watchexec-cli",
          "crates/ignore-files": "ignore-files", "crates/events": "watchexec-events", "crates/signals": "watchexec-signals",
          "crates/filterer/globset": "watchexec-filterer-globset", "crates/filterer/ignore": "watchexec-filterer-ignore",
          "crates/project-origins": "project-origins"}


def sh(cmd, cwd=WT, timeout=3600):
    t0 = time.time()
    try:
        r = subprocess.run(cmd, shell=True, cwd=cwd, stdout=subprocess.PIPE, stderr=subprocess.STDOUT, text=True, timeout=timeout,
                           env=dict(os.environ, CARGO_NET_OFFLINE="true", CARGO_TERM_COLOR="never"))
        return r.returncode, r.stdout, time.time() - t0
    except subprocess.TimeoutExpired as e:
        return 124, (e.stdout or "") + "\nTIMEOUT", time.time() - t0


def reset():
    sh("git checkout -q -- . && git clean -qfd -e target")


def main():
    seed = os.path.abspath(sys.argv[1])
    skip_existing = "--skip-existing" in sys.argv
    if not os.path.isdir(WT):
        subprocess.check_call(["git", "-C", "/repo", "worktree", "add", "--detach", WT, "HEAD"], stdout=subprocess.DEVNULL)
    sh("git checkout -q --detach main")
    reset()
    res = {"seed": seed, "head": subprocess.check_output(["git", "-C", WT, "rev-parse", "--short", "HEAD"], text=True).strip()}
    patch = os.path.join(seed, "patch.diff")
    rc, out, _ = sh("git apply --check %s" % patch)
    if rc != 0:
        rc, out, _ = sh("git apply --3way --check %s" % patch)
        res["applies"] = False
        res["apply_error"] = out[-800:]
        json.dump(res, open(os.path.join(seed, "confirm.json"), "w"), indent=1)
        print("%s: PATCH DOES NOT APPLY to %s" % (os.path.basename(seed), res["head"]))
        return 1
    res["applies"] = True
    touched = subprocess.check_output("git apply --numstat %s | cut -f3" % patch, shell=True, cwd=WT, text=True).split()
    crates = sorted({c for t in touched for p, c in CRATES.items() if t.startswith(p + "/")})
    res["touched"] = touched
    res["crates"] = crates
    # demo placement + command from README
    demo = os.path.join(seed, "demo")
    readme = open(os.path.join(demo, "README.md")).read()
    files = [f for f in os.listdir(demo) if f.endswith(".rs")]
    placements = []
    for f in files:
        m = re.search(r"cat\s+(?:\S*/)?%s\s*>>\s*(crates/\S+\.rs)" % re.escape(f), readme)
        if m:
            placements.append((f, m.group(1), "append"))
            continue
        m = re.search(r"(crates/[\w/.-]*%s)" % re.escape(f), readme)
        if m:
            placements.append((f, m.group(1), "copy"))
            continue
        m = re.search(r"(crates/[\w/.-]+/(?:tests|examples|src/[\w/]+))/?\s", readme)
        if m:
            placements.append((f, m.group(1).rstrip("/") + "/" + f, "copy"))
    extra = re.findall(r"((?:echo|printf) [^`\n]*>>\s*crates/[\w/.-]+)", readme)
    cmds = re.findall(r"^\s*(?:[A-Z_]+=\S+\s+)*(cargo (?:test|run) [^\n`]*)$", readme, re.M)
    res["placements"] = placements
    res["demo_cmd"] = cmds[0] if cmds else None
    if not placements or not cmds:
        json.dump(res, open(os.path.join(seed, "confirm.json"), "w"), indent=1)
        print("%s: could not parse demo README (placements=%s cmds=%s)" % (os.path.basename(seed), placements, cmds[:1]))
        return 1
    cmd = cmds[0].strip()
    if "--offline" not in cmd:
        cmd = cmd.replace("cargo test", "cargo test --offline").replace("cargo run", "cargo run --offline")

    def place():
        for f, dst, mode in placements:
            d = os.path.join(WT, dst)
            os.makedirs(os.path.dirname(d), exist_ok=True)
            if mode == "append":
                open(d, "a").write("\n" + open(os.path.join(demo, f)).read())
            else:
                open(d, "w").write(open(os.path.join(demo, f)).read())
        for e in extra:
            sh(e)

    # (1)+(2) with patch, without demo
    sh("git apply %s" % patch)
    rc, out, dt = sh("cargo check --workspace --offline 2>&1 | tail -5")
    res["check_ok"] = ("error" not in out.lower()) and rc == 0
    if not skip_existing:
        ex = {}
        for c in crates:
            extra_p = {"watchexec-filterer-globset": " -p watchexec-filterer-ignore",
                       "ignore-files": " -p watchexec-filterer-ignore -p watchexec-filterer-globset",
                       "watchexec-filterer-ignore": " -p watchexec-filterer-globset",
                       "watchexec-events": " --features serde", "project-origins": " -p watchexec"}.get(c, "")
            rc, out, dt = sh(("cargo test -p %s" % c) + extra_p + " --offline 2>&1 | grep -E '^test result|FAILED|failed|panicked' | head -30", timeout=2400)
            fails = [l for l in out.splitlines() if "FAILED" in l or ("failed" in l and "0 failed" not in l)]
            ex[c] = {"ok": not fails, "summary": out[-1500:], "wall_s": round(dt)}
        res["existing_tests"] = ex
    # (3) demo with patch
    place()
    rc, out, dt = sh(cmd + " 2>&1 | tail -40", timeout=1800)
    res["with_patch"] = {"rc": rc, "failed": ("FAILED" in out or "panicked" in out or "error: test failed" in out or rc == 124), "tail": out[-2500:], "wall_s": round(dt)}
    # (4) demo without patch
    reset()
    place()
    rc, out, dt = sh(cmd + " 2>&1 | tail -40", timeout=1800)
    res["without_patch"] = {"rc": rc, "passed": ("test result: ok" in out and "FAILED" not in out), "tail": out[-2500:], "wall_s": round(dt)}
    reset()
    ok = res["check_ok"] and res["with_patch"]["failed"] and res["without_patch"]["passed"] and \
        all(v["ok"] for v in res.get("existing_tests", {}).values())
    res["confirmed"] = bool(ok)
    json.dump(res, open(os.path.join(seed, "confirm.json"), "w"), indent=1)
    print("%s: %s (check=%s existing=%s demo_with_patch_fails=%s demo_without_passes=%s)" % (
        os.path.basename(seed), "CONFIRMED" if ok else "NOT CONFIRMED", res["check_ok"],
        {k: v["ok"] for k, v in res.get("existing_tests", {}).items()}, res["with_patch"]["failed"], res["without_patch"]["passed"]))
    return 0 if ok else 1


if __name__ == "__main__":
    sys.exit(main())
