#!/usr/bin/env python3
"""Silence test: behaviour-preserving rewrites (equiv/*.patch - clippy suggestions, flipped ifs, swapped operands, extra
tracing, ...) are applied one at a time to a scratch copy of /repo; every check must stay silent on each of them.

  tools/equiv.py [patch-name ...]        prints per patch: SILENT | FALSE-ALARM <prop> <keys> | NO-COMPILE

Development aid (also summarised in DESIGN.md section 4.6); the scratch copy lives under $WXV_MUT_DIR/equiv."""
import importlib
import os
import subprocess
import sys

HERE = os.path.dirname(os.path.dirname(os.path.abspath(__file__)))
sys.path.insert(0, HERE)
from wxlint import extract, report  # noqa: E402
from wxlint.facts import Facts  # noqa: E402

SCRATCH = os.path.join(os.environ.get("WXV_MUT_DIR", "/tmp/wxmut"), "equiv")


def main():
    only = sys.argv[1:]
    props = ["C%02d" % i for i in range(1, 21)]
    mods = {p: importlib.import_module("wxlint.rules." + p.lower()) for p in props}
    d = os.environ.get("WXV_EQUIV_DIR") or os.path.join(HERE, "equiv")
    bad = 0
    for fn in sorted(os.listdir(d)):
        if not fn.endswith(".patch") or (only and not any(o in fn for o in only)):
            continue
        dst = os.path.join(SCRATCH, "repo")
        os.makedirs(dst, exist_ok=True)
        subprocess.check_call(["rsync", "-a", "--delete", "--exclude", "target", "--exclude", ".git", "/repo/", dst + "/"])
        r = subprocess.run(["patch", "-p1", "-s", "-i", os.path.join(d, fn)], cwd=dst, stdout=subprocess.PIPE, stderr=subprocess.STDOUT, text=True)
        if r.returncode != 0:
            print("%-44s DOES-NOT-APPLY %s" % (fn, r.stdout.strip()[:100]))
            bad += 1
            continue
        try:
            fdir = extract.extract(dst, "default", log=open(os.devnull, "w"))
        except extract.ExtractError as e:
            print("%-44s NO-COMPILE %s" % (fn, str(e)[-300:].replace("\n", " ")))
            bad += 1
            continue
        facts = Facts(fdir)
        alarms = []
        for pid in props:
            ctx = report.Ctx(pid, facts, repo=dst)
            try:
                mods[pid].run(ctx)
            except Exception as e:  # noqa
                alarms.append((pid, ["CRASH " + repr(e)[:150]]))
                continue
            keys = sorted({o.full_key() for o in ctx.obs if o.status != "ok"})
            if keys:
                alarms.append((pid, keys[:4]))
        if alarms:
            bad += 1
            print("%-44s FALSE-ALARM %s" % (fn, "; ".join("%s %s" % (p, k) for p, k in alarms)))
        else:
            print("%-44s SILENT" % fn)
        sys.stdout.flush()
    return 1 if bad else 0


if __name__ == "__main__":
    sys.exit(main())
