"""Which properties are claimed, at what level, and why (single source for MANIFEST.json)."""

PENDING = "rules for this property are not implemented yet in this revision of /verif; listed here until they are, rather than claimed by a weaker proxy"


def register(claim, na):
    claim("C20", "proof", "THIR pattern-table theorem over the enumerated ProjectType enum + MIR def-use/dominance on origins()",
          "Exhaustive over the finite domain: every ProjectType variant is classified by exactly one of is_vcs/is_soft "
          "(compiler pattern semantics, no execution); every marker row of types() is cross-checked against origins() and the "
          "variant docs; provenance of every inserted path is the argument or a parent() of it, and the ancestor loop only "
          "ends on parent()==None. This is the whole finite-table content of the property; what the filesystem returns is not decided.",
          "trusts rustc's THIR/MIR, FileType::is_file/is_dir, Path::parent, HashMap/HashSet; directory listing behaviour is not modelled",
          "DESIGN.md section 5 C20")
    claim("C19", "proof", "cross-table agreement of THIR match tables (to_nix / from_nix / From<i32> / Display / Windows names) with nix's compiled discriminants; MIR def-use for the parsers",
          "Exhaustive over the finite tables: the seven first-class signals round-trip through to_nix/from_nix/From<i32> with the "
          "POSIX numbers read from nix's compiled enum, the unix Display string of each is the identifier of its nix variant, "
          "every name lookup is upper-cased, the Windows table shadows a unix name only for the documented STOP, and the "
          "ExitStatus -> ProcessEnd arms preserve success / code / signal. Decided by compiler pattern semantics; nothing is executed.",
          "trusts nix's FromStr/TryFrom<i32> name table, std ExitStatus accessors, rustc THIR/MIR; signal numbers outside the first-class set are delegated to nix",
          "DESIGN.md section 5 C19")
    claim("C16", "proof", "finite-structure round-trip theorem: compiler pattern semantics + constructor evaluation over the THIR of the Tag<->SerdeTag and Signal<->SerdeSignal conversions, all 41 file-event kinds enumerated from the compiled enums (both notify and sans_notify configurations in the thorough tier)",
          "Exhaustive over every Tag shape (each tag kind, each of the 41 file-event kinds via its derived-Debug rendering, each exit "
          "disposition with symbolic payloads, each first-class signal and Custom): decode(encode(t)) == t is established by evaluating "
          "only patterns and constructors of the two From impls; decoder arms are kind-consistent, the fall-through is Tag::Unknown, and "
          "every NonZero::new_unchecked is guarded. serde/serde_json themselves are trusted, so this is the conversion-layer theorem, not an "
          "observation of serialised bytes.",
          "trusts serde derive + serde_json for the Serde* mirror types, derived Debug output format, the NonZero invariant; payloads (paths, pids, metadata) are opaque values that the conversions only move",
          "DESIGN.md section 5 C16")
    claim("C17", "other", "THIR pattern tables over the enumerated FileEventKind domain vs the function's own doc table and the sibling FsEventKind table; MIR dominance for sort-before-join, skip edges and loop nesting",
          "Decides the structural part only: for all 41 file-event kinds the variable/label chosen is the documented one and agrees with the "
          "sibling JSON table; entries come from a HashSet and are sorted before the join on every path; path-less events reach the next "
          "iteration without touching an accumulator; kinds come only from FileEventKind tags; the line format nests events > paths > kinds. "
          "The path algebra (common prefix, strip/join round trip) is value-level and explicitly not claimed.",
          "trusts HashSet de-duplication, slice::sort ordering of OsString (byte order), Path::strip_prefix/common-prefix arithmetic (undecided remainder)",
          "DESIGN.md section 5 C17")
    for p in ["C01", "C02", "C03", "C04", "C05", "C06", "C07", "C08", "C09", "C10", "C11", "C12", "C13", "C14",
              "C15", "C18"]:
        na(p, PENDING)
