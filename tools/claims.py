"""Which properties are claimed, at what level, and why (single source for MANIFEST.json)."""

PENDING = "rules for this property are not implemented yet in this revision of /verif; listed here until they are, rather than claimed by a weaker proxy"


def register(claim, na):
    claim("C20", "proof", "THIR pattern-table theorem over the enumerated ProjectType enum + MIR def-use/dominance on origins()",
          "Exhaustive over the finite domain: every ProjectType variant is classified by exactly one of is_vcs/is_soft "
          "(compiler pattern semantics, no execution); every marker row of types() is cross-checked against origins() and the "
          "variant docs; provenance of every inserted path is the argument or a parent() of it, and the ancestor loop only "
          "ends on parent()==None and moves up on every round; check_list is `any marker present`; a listing is keyed by the entries' own names and read from "
          "exactly the given path, lookups use the marker as written with absent => false; the CLI asks for the types of the project origin. Every path through the CLI's vcs_types goes through types(origin) and the CLI's candidate origins are origins(path) or the working directory as given. This is the "
          "finite-table content of the property; what the filesystem returns is not decided, nor are the markers that only origins() lists (single-source table).",
          "trusts rustc's THIR/MIR, FileType::is_file/is_dir, Path::parent, HashMap/HashSet; directory listing behaviour is not modelled",
          "DESIGN.md section 5 C20")
    claim("C19", "proof", "cross-table agreement of THIR match tables (to_nix / from_nix / From<i32> / Display / Windows names) with nix's compiled discriminants; MIR def-use for the parsers",
          "Exhaustive over the finite tables: the seven first-class signals round-trip through to_nix/from_nix/From<i32> with the "
          "POSIX numbers read from nix's compiled enum, the unix Display string of each is the identifier of its nix variant, "
          "every name lookup is upper-cased, the Windows table shadows a unix name only for the documented STOP, and the "
          "ExitStatus -> ProcessEnd arms preserve success / code / signal. The unix signal source attaches the same-named variant to each OS listener, the JSON name of a signal is its display name, and into_exitstatus shifts the whole exit-code byte. Decided by compiler pattern semantics; nothing is executed.",
          "trusts nix's FromStr/TryFrom<i32> name table, std ExitStatus accessors, rustc THIR/MIR; signal numbers outside the first-class set are delegated to nix",
          "DESIGN.md section 5 C19")
    claim("C16", "proof", "finite-structure round-trip theorem: compiler pattern semantics + constructor evaluation over the THIR of the Tag<->SerdeTag and Signal<->SerdeSignal conversions, all 41 file-event kinds enumerated from the compiled enums (both notify and sans_notify configurations in the thorough tier)",
          "Exhaustive over every Tag shape (each tag kind, each of the 41 file-event kinds via its derived-Debug rendering, each exit "
          "disposition with symbolic payloads, each first-class signal and Custom): decode(encode(t)) == t is established by evaluating "
          "only patterns and constructors of the two From impls; decoder arms are kind-consistent, the fall-through is Tag::Unknown, and "
          "every NonZero::new_unchecked is guarded, and the derived readers of the mirror structs ignore unknown fields. The `simple` value of each of the 41 kinds is its outer kind (other for Any/Other) and the CLI's JSON events file is written one complete document per line. serde/serde_json themselves are trusted, so this is the conversion-layer theorem, not an "
          "observation of serialised bytes.",
          "trusts serde derive + serde_json for the Serde* mirror types, derived Debug output format, the NonZero invariant; payloads (paths, pids, metadata) are opaque values that the conversions only move",
          "DESIGN.md section 5 C16")
    claim("C17", "other", "THIR pattern tables over the enumerated FileEventKind domain vs the function's own doc table and the sibling FsEventKind table; MIR dominance for sort-before-join, skip edges and loop nesting",
          "Decides the structural part only: for all 41 file-event kinds the variable/label chosen is the documented one and agrees with the "
          "sibling JSON table; entries come from a HashSet and are sorted before the join on every path; path-less events reach the next "
          "iteration without touching an accumulator and no event ends the loop early; a pathed event feeds the common-prefix input and the bucket of each "
          "of its kinds; each entry is appended exactly once with the separator before every entry but the first; COMMON is set exactly when a common "
          "path exists; kinds come only from FileEventKind tags and paths only from Path tags; the line format nests events > paths > kinds. "
          "The path algebra (common prefix, strip/join round trip) is value-level and explicitly not claimed.",
          "trusts HashSet de-duplication, slice::sort ordering of OsString (byte order), Path::strip_prefix/common-prefix arithmetic (undecided remainder)",
          "DESIGN.md section 5 C17")
    JT = ("THIR path enumeration of the job task's handlers (every arm, every Ok/Err exit, awaits and loops collapsed) projected onto an "
          "effect alphabet, plus MIR dominance / must-pass / def-use rules on recv, Flag, Ticket, send_controls")
    claim("C04", "other", JT + "; typestate of CommandState along every handler path",
          "Decides necessary conditions on every path: processes are spawned only in CommandState::spawn, which refuses while Running; along all "
          "handler paths (from every state class) reset()/overwrites of the state happen only when no child is running or after kill+wait both "
          "succeeded with the collected status; previous_run never owns a child; KillOnDrop is applied on every path. Sequences of controls are "
          "covered compositionally (handler summaries over all entry states), not explored.",
          "trusts process-wrap/kernel semantics of kill()/wait(), rustc THIR/MIR; child behaviour and timing are not modelled",
          "DESIGN.md section 5 C04, Appendix A")
    claim("C06", "other", JT + "; coupling invariant (restart marker <=> restart timer) over handler paths x entry states; timer arithmetic summaries",
          "Decides: signal before arming, no kill in graceful arms, until = now + grace and is_past = until <= now, normal queue read only without a "
          "timer, forced control only after expiry and with the timer cleared, and the invariant that makes the replacement start exactly once. "
          "The signal delivered is the one requested (to_nix table), and the CLI's --stop-timeout (unit-less = seconds) and --stop-signal are what its "
          "graceful restart and quit pass on. Wall-clock behaviour (timer accuracy, signal delivery) is not decided.",
          "trusts tokio sleep_until/Instant, nix signal delivery; admissible entry states of handlers are justified by R06.3 + the API priority table",
          "DESIGN.md section 5 C06, Appendix A")
    claim("C07", "other", JT + "; flag-token discipline (raised or handed to a holder on every path), wake protocol of Flag, multi-waiter lint",
          "Decides on every path of every control arm and of the process-end handler that the completion flag is raised after the effects or handed "
          "to a holder exactly when completion is deferred; flags leaving holders are raised; the task's exits raise job-gone and the select! has an "
          "else branch; Flag::raise always reaches the wake-all step after storing; Flag::poll re-checks after registering; no single-slot waker is "
          "shared between clones. Scheduler latency ('promptly') is not decided.",
          "trusts tokio task scheduling, Mutex/Waker semantics; task abortion skips job-gone by design; user hooks get shared references only",
          "DESIGN.md section 5 C07, Appendix A")
    claim("C09", "other", JT + "; comparison of per-control effect rows with spec/control_semantics.json (transcribed from the API docs)",
          "For each of the 17 controls and each condition (running / not running, Ok / Err of each fallible step) the ordered effects on all paths "
          "equal the documented row, no undocumented path exists, the spawn hook runs exactly once before each spawn with the right context, and "
          "each public Job method enqueues the documented controls. Compositional (per-control summaries), not a sequence exploration.",
          "trusts the transcription of the docs into spec/control_semantics.json (reviewed row by row against job.rs/messages.rs docs)",
          "DESIGN.md section 5 C09")
    claim("C10", "other", "MIR dominance order in PriorityReceiver::recv, def-use pairing of channel ends, THIR tables for PrioritySender::send and the Job API, send_controls loop shape",
          "Decides: expired timer > urgent > high is checked in that order before any blocking wait, normal is waited on only without a timer, each "
          "priority maps to its own channel on both ends, multi-control operations are enqueued back to back at one priority and return the last "
          "ticket, single consumer, no re-queueing. A ticket resolves only through its two flags and Flag::poll answers Ready only after loading the flag as set. FIFO-ness of tokio mpsc is trusted.",
          "trusts tokio unbounded mpsc FIFO order and select! semantics", "DESIGN.md section 5 C10")
    TC = "THIR path enumeration of one throttle_collect iteration (52 syntactic / 24 feasible paths, predicate-consistency filter, let-substitution, boolean implication on branch conditions)"
    claim("C01", "other", TC + "; MIR who-may-call / def-use for the single reader, single handler call and the batch hand-over; THIR tables for source priorities",
          "Decides on every feasible path of the collect loop: an event is pushed exactly once iff it is urgent, empty or passed by the filter, never when "
          "rejected or errored (error reported once, loop continues); every returned batch is the accumulated set and non-empty; the queue has one reader "
          "and the handler one call site per batch with the collected batch as argument; sources use the documented priorities and report failed sends; the "
          "collector gives up only when the queue is closed; the main task is wired to the two ends of the queue and started by main(); fs events carry the "
          "notify kind and one normalised Path tag per path; `empty` means no tags. "
          "Channel semantics and real watcher behaviour are not decided.",
          "trusts async_priority_channel delivery semantics, notify back-ends, tokio timeout; the filter is an opaque verdict",
          "DESIGN.md section 5 C01")
    claim("C02", "other", TC + "; guard-structure rules on the release/hold decisions; derived-Ord table for Priority",
          "Decides the guard structure: the window start moves only when the set is empty and always when a possibly-first event is accepted; a batch is "
          "released only through the urgent edge, the false edge of last.elapsed() < throttle.get(), or the expired remaining window with a non-empty set; "
          "all comparisons read the throttle freshly; the recv timeout is the freshly computed remaining window; the CLI's --debounce (unit-less = "
          "milliseconds) reaches Config::throttle unchanged. Wall-clock accuracy is not decided.",
          "trusts tokio's timer and Instant; 'bounded delay' is structural (shrinking timeout), not measured", "DESIGN.md section 5 C02")
    claim("C13", "other", "protocol table for the change-signal pair (notifier/waiter primitives), MIR must-pass 'replace => reset' on the fs worker's shadow set, THIR iteration paths of the unwatch/watch loops, crate-wide lock-guard live-range scan, setter must-pass rules",
          "Decides necessary conditions for convergence: no change signal can be lost while a worker is busy (stateful watch receiver), the shadow set is "
          "cleared on every path after the watcher is taken or replaced, remove/insert happen exactly on the success edges and failures are reported "
          "without stopping the loop, no lock guard is live across an await or a user callback, every public setter signals the change, and - over all "
          "syntactic paths of one worker round - the round is the documented transfer function (await the subscription first; empty set => release; "
          "watcher created => kind recorded and shadow set cleared; watcher kept => evidence that it exists with the configured kind; diff = (C\\S, S\\C) "
          "with the watch-all shortcut only when S is empty); the subscription returns at once the first time. It does not explore change sequences "
          "and does not model notify's watchers.",
          "trusts tokio::sync::watch semantics (receiver remembers the last seen version), notify's watch()/unwatch(), HashSet",
          "DESIGN.md section 5 C13")
    claim("C08", "other", "ownership chain of job-task JoinHandles (MIR def-use / who-may-call), dominance of take-over before the quit decision, THIR path shapes of the abort/graceful arms and the main task, pattern-semantics table of process wrappers, CLI quit condition structure",
          "Decides necessary conditions: every job task's JoinHandle ends up owned by the worker before quit is examined (also for a job created in the "
          "quitting action), Abort breaks and dropping the task set aborts every task with KillOnDrop children, the graceful path stops+deletes every "
          "job and joins everything before leaving, the main task shuts the other workers down, quit()/quit_gracefully() record what was asked, the CLI "
          "quits on an unmapped interrupt/terminate, session/group wrappers follow the options, and LateJoinSet keeps what is inserted, spawns what it is "
          "given and join_all returns only when join_next() yields None. The time bound itself is not decided.",
          "trusts tokio JoinHandle::abort / JoinSet::shutdown, process-wrap's group and session semantics; termination of the graceful path rests on C06/C07",
          "DESIGN.md section 5 C08")
    claim("C15", "other", "THIR path enumeration of the filter-error paths, the fs apply loops, error_hook and the main task's result match; who-constructs rule for RuntimeError; lock-guard live ranges",
          "Decides on every path: one error-channel send per filter error / per failed path with the loop continuing, exactly one handler call and one "
          "critical-slot check per received error, Exit pseudo-errors close the queue while real critical errors end the main task, constructed "
          "RuntimeErrors are returned or sent, the watcher callback sends at most once, ErrorHook is consumed by elevation and critical()/elevate() store "
          "into the slot error_hook reads, a failed (un)watch always yields at least one error of the matching add/remove kind, handlers run without the lock. "
          "Channel delivery itself is trusted.",
          "trusts tokio mpsc (bounded, lossless for send().await), OnceLock; what user handlers do is opaque", "DESIGN.md section 5 C15")
    claim("C03", "other", "THIR path enumeration of IgnoreFilter::match_path's search loop with boolean implication on the containment test (taint-style: string-prefix lookup -> component check -> consult), deny-list of order-destroying combinators on the load chain, MIR def-use for per-directory scoping of add_line / trie keys",
          "Decides the scoping structure: a trie node found by string-prefix lookup is consulted only after a component-wise ancestor test, undecided "
          "nodes continue with the parent of their key, files are loaded in listed order, every pattern line is scoped to its file's directory and "
          "stored under that directory's key, every non-blank non-comment line reaches add_line and nothing ends a line loop early, an existing directory "
          "node is never replaced by an empty one, and the two consumers implement the full verdict table (None / Whitelist / Ignore in and out of "
          "scope) on the normalised path. What a glob matches (and agreement with git) is the "
          "`ignore` crate's business and is not decided.",
          "trusts the ignore crate's Gitignore matching, radix_trie::get_ancestor being a string-prefix lookup, Path::starts_with being component-wise",
          "DESIGN.md section 5 C03")
    claim("C18", "other", "THIR path enumeration of Command::to_spawnable (call order and argument provenance per Program arm), pattern-semantics table of wrappers, hook discipline on all spawn sites, THIR shape of the CLI's command interpretation",
          "Decides: exec = Command::new(prog).args(args) with the fields themselves; shell = shell, options, optional program option, command, extra "
          "args in that order on both paths; wrappers per SpawnOptions by pattern semantics; the builder passed to the hook is the one spawned at all "
          "spawn sites (never a rebuilt one) and an async hook is awaited to completion; the CLI splits/joins the words as documented without touching "
          "them, restores `@` on words after `--`, derives group/session from --wrap-process alone, and Shell::new takes the shell path as given. "
          "Byte-for-byte hand-over is tokio/OS behaviour and not decided.",
          "trusts tokio::process::Command::{new,arg,args}, process-wrap wrappers, std OsString handling", "DESIGN.md section 5 C18")
    claim("C11", "other", "THIR path enumeration of GlobsetFilterer::check_event and of its per-path closure (decision order and verdict per outcome), wiring rules on GlobsetFilterer::new, pattern-semantics table for the CLI's fs-event kinds",
          "Decides the decision structure: whitelist first (equality scan) => pass; ignore files => reject; no paths => pass; otherwise `any` over paths "
          "where ignore patterns are consulted first and reject, filter patterns precede extensions, directories are offered to filter patterns before "
          "the extension rule rejects them, and the verdict of every one of the 18 syntactic paths of the per-path decision equals the documented function "
          "of the evidence on that path (ignored, filter match, directory, extension match, nothing configured); arguments are wired to the same-named "
          "fields; CLI stage order and kind table. What a glob matches is not decided.",
          "trusts the ignore crate's Gitignore::matched; the monotonicity clause is decided structurally (ignore patterns can only yield false)",
          "DESIGN.md section 5 C11")
    claim("C05", "other", "THIR path enumeration of the CLI's busy-decision coroutine and of the queued-start task (mode -> effect table with argument provenance), structural rules on the run_async placement, the skip condition (boolean implication), the shorthands and the kick-off",
          "Decides the decision table on every path: what each --on-busy-update mode does when running and when idle, with the right signal / timeout "
          "arguments; that the decision reads the job's state inside the job task; the queue guard and ordering of the queued task; shorthands; kick-off; "
          "single job id; that only batches without a path and without the synthetic event are skipped; that the action worker forgets a job only when it "
          "is dead. Freshness and overlap under real timings are not decided.",
          "non-overlap is delegated to C04 + the single job id; the Job API table is shared with C09/C10", "DESIGN.md section 5 C05")
    claim("C12", "other", "THIR path enumeration of WatchexecFilterer::new and dirs::ignores over all branch values of the discovery flags (path-level, so all 64 combinations at once); ordering rule 'explicit entries appended after every flag-guarded filter'",
          "Decides on every path: the explicit options are consumed whatever the flags are, --ignore-file entries are loaded either through "
          "explicit_ignore_files() or at the end of dirs::ignores() after all flag-guarded filters, each flag guards exactly its source, --ignore-nothing "
          "sets all five flags and nothing else in normalise() writes one, each filter of dirs::ignores applies its own predicate exactly when its flag is "
          "given (all flag / state combinations enumerated), explicit lists keep their order, the from_origin / from_environment tags the flags act on are "
          "the documented ones, the filterer built from the arguments is the one installed, and the CLI filter cannot pass an event before the --fs-events "
          "stage. What patterns match is not decided.",
          "trusts clap's parsing of the options and the ignore/globset matchers", "DESIGN.md section 5 C12")
    claim("C14", "other", "THIR path enumeration of visit_path (gates for Find and an exact outcome table per directory entry), of from_origin's Find arm (found => filter updated before the next lookup), guard analysis of find_file, cross-crate marker-directory table, crate-wide lint against string-prefix tests on rendered paths",
          "Decides: files are recorded only for regular non-empty files; a directory is searched only past the skip list, check_dir and the two-way watch "
          "relation; directory entries are pruned/queued exactly in the five documented cases; each found file updates the walk's filter before the next "
          "lookup; the name/VCS tables; VCS metadata directories are skipped; no string-prefix path comparison; must_skip is `the path or an ancestor below "
          "the base is on the skip list`, next() visits every queued directory before Done, and check_dir follows the C03 verdict table. Exactness over all "
          "trees inherits the matcher.",
          "trusts tokio::fs read_dir/metadata and the C03 matcher", "DESIGN.md section 5 C14")
