#!/usr/bin/env python3
"""Second pass of the blind-spot finder: run the repository's own test suite on the mutants no check caught.
A survivor that the existing tests kill is outside the task's scope (changes must pass the existing tests) and is marked
`test-killed`; the rest (`SURVIVED-TESTS-TOO`) are the real blind spots to triage.

  tools/mutate_testkill.py --worker K --of N --out /tmp/mutate

Development aid only."""
import glob
import json
import os
import subprocess
import sys


def main():
    k = int(sys.argv[sys.argv.index("--worker") + 1])
    n = int(sys.argv[sys.argv.index("--of") + 1])
    outdir = sys.argv[sys.argv.index("--out") + 1]
    recs = []
    for f in sorted(glob.glob(os.path.join(outdir, "results-*.jsonl"))):
        recs += [json.loads(l) for l in open(f)]
    surv = sorted([r for r in recs if r["status"] == "SURVIVED"], key=lambda r: (r["file"], r["line"], r["op"]))
    mine = [r for j, r in enumerate(surv) if j % n == k]
    resf = os.path.join(outdir, "testkill-%d.jsonl" % k)
    done = set()
    if os.path.exists(resf):
        for l in open(resf):
            r = json.loads(l)
            done.add((r["file"], r["line"], r["op"]))
    scratch = os.path.join(outdir, "tk-repo-%d" % k)
    env = dict(os.environ, CARGO_NET_OFFLINE="true", CARGO_TARGET_DIR=os.path.join(outdir, "tk-target-%d" % k), CARGO_TERM_COLOR="never")
    for r in mine:
        key = (r["file"], r["line"], r["op"])
        if key in done:
            continue
        subprocess.check_call(["rsync", "-a", "--delete", "--exclude", "target", "--exclude", ".git", "/repo/", scratch + "/"])
        p = os.path.join(scratch, r["file"])
        lines = open(p).read().split("\n")
        i = r["line"] - 1
        # re-derive the mutated line exactly as mutate.py did
        sys.path.insert(0, os.path.dirname(os.path.abspath(__file__)))
        import mutate
        cand = [m for m in mutate.mutants() if m[0] == r["file"] and m[1] == i and m[2] == r["op"]]
        if not cand:
            continue
        lines[i] = cand[0][3]
        open(p, "w").write("\n".join(lines))
        try:
            t = subprocess.run(["cargo", "nextest", "run", "--workspace", "--no-fail-fast", "--test-threads", "6", "--offline"], cwd=scratch, env=env,
                               stdout=subprocess.PIPE, stderr=subprocess.STDOUT, text=True, timeout=1500)
            rc, out = t.returncode, t.stdout
        except subprocess.TimeoutExpired as e:
            rc, out = 124, (e.stdout or b"").decode() if isinstance(e.stdout, bytes) else (e.stdout or "")
        failed = [l.strip() for l in out.splitlines() if l.strip().startswith(("FAIL ", "TIMEOUT ", "SIGABRT", "SIGSEGV")) or " FAIL [" in l][:5]
        rec = dict(r)
        rec["tests"] = "test-killed" if rc != 0 else "SURVIVED-TESTS-TOO"
        rec["failed"] = failed
        open(resf, "a").write(json.dumps(rec) + "\n")
        print(rec["tests"], r["file"], r["line"], r["op"], failed[:2], flush=True)


if __name__ == "__main__":
    main()
