#!/usr/bin/env python3
"""Fills the generated regions of DESIGN.md: the seeded-changes table (from seeded/RESULTS.json) and the list of rules
as implemented (from the evidence files written by the checks)."""
import json
import os
import re

HERE = os.path.dirname(os.path.dirname(os.path.abspath(__file__)))


def region(s, name, body):
    a, b = "<!-- %s-BEGIN -->" % name, "<!-- %s-END -->" % name
    i, j = s.index(a) + len(a), s.index(b)
    return s[:i] + "\n" + body + "\n" + s[j:]


def main():
    p = os.path.join(HERE, "DESIGN.md")
    s = open(p).read()
    rp = os.path.join(HERE, "seeded", "RESULTS.json")
    lines = ["| seed | property | own check | other checks that fire | what the change does | what it needs to manifest |", "|---|---|---|---|---|---|"]
    if os.path.exists(rp):
        res = json.load(open(rp))
        n = d = 0
        for sid in sorted(res):
            r = res[sid]
            meta = json.load(open(os.path.join(HERE, "seeded", sid, "meta.json")))
            if "error" in r:
                lines.append("| %s | %s | n/a | | %s | |" % (sid, r["property"], r["error"].replace("|", "/")[:420]))
                continue
            n += 1
            also = [x for x in r["detected_by"] if x != r["property"]]
            caught = r["own_check"] == "DETECTED" or bool(also)
            d += 1 if caught else 0
            clean = lambda t: (t or "").replace("|", "/").replace("\n", " ")
            lines.append("| %s | %s | %s | %s | %s | %s |" % (sid, r["property"], r["own_check"].lower(), " ".join(also),
                                                            clean(meta.get("summary"))[:220], clean(meta.get("needs_to_manifest"))[:200]))
        lines.append("")
        lines.append("%d confirmed seeded changes, %d caught by at least one check." % (n, d))
    s = region(s, "SEEDS", "\n".join(lines))
    rules = []
    for i in range(1, 21):
        pid = "C%02d" % i
        ev = os.path.join(HERE, "evidence", pid + ".json")
        if not os.path.exists(ev):
            continue
        e = json.load(open(ev))
        txt = e["coverage"]["explanation"]
        rules.append("### %s (level `%s`)\n" % (pid, e["level"]))
        for m in re.finditer(r"\[(R\d+\.\d+)\] (.*?)(?= \[R\d+\.\d+\]| UNDECIDED|$)", txt, re.S):
            rules.append("* **%s** %s" % (m.group(1), m.group(2).strip()))
        u = txt.split("UNDECIDED (not claimed): ")
        if len(u) > 1:
            rules.append("* *not decided:* " + u[1].strip())
        rules.append("")
    s = region(s, "RULES", "\n".join(rules))
    open(p, "w").write(s)
    print("DESIGN.md tables regenerated")


if __name__ == "__main__":
    main()
