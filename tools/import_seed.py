#!/usr/bin/env python3
"""Copy independently produced + confirmed seeded changes from /tmp/seeded/<id>/ into /verif/seeded/<id>/.
Only seeds whose confirm.json says confirmed are imported (unless --force)."""
import json
import os
import shutil
import sys

SRC = "/tmp/seeded"
DST = "/verif/seeded"


def main():
    force = "--force" in sys.argv
    ids = [a for a in sys.argv[1:] if not a.startswith("--")]
    if not ids:
        ids = sorted(d for d in os.listdir(SRC) if os.path.isdir(os.path.join(SRC, d)) and os.path.exists(os.path.join(SRC, d, "patch.diff")))
    for sid in ids:
        s = os.path.join(SRC, sid)
        cj = os.path.join(s, "confirm.json")
        conf = json.load(open(cj)) if os.path.exists(cj) else {}
        if not conf.get("confirmed") and not force:
            print("%s: not confirmed, skipped" % sid)
            continue
        d = os.path.join(DST, sid)
        shutil.rmtree(d, ignore_errors=True)
        os.makedirs(os.path.join(d, "demo"))
        shutil.copy(os.path.join(s, "patch.diff"), os.path.join(d, "patch.diff"))
        for f in os.listdir(os.path.join(s, "demo")):
            shutil.copy(os.path.join(s, "demo", f), os.path.join(d, "demo", f))
        try:
            meta = json.load(open(os.path.join(s, "meta.json")))
        except Exception:
            meta = {}
        out = {
            "property": meta.get("property", sid.split("-")[0]),
            "summary": meta.get("summary"),
            "needs_to_manifest": meta.get("needs_to_manifest"),
            "files_touched": conf.get("touched") or meta.get("files_touched"),
            "author": "independent sub-agent given only the property text and a scratch worktree",
            "author_report": {k: meta.get(k) for k in ("commands_run", "result_with_patch", "result_without_patch", "existing_tests") if k in meta},
            "confirmed_by_me": {
                "base_commit": conf.get("head"),
                "what_i_ran": [
                    "git apply patch.diff in a scratch worktree of /repo (outside /repo and /verif)",
                    "cargo check --workspace --offline  -> %s" % ("ok" if conf.get("check_ok") else "FAILED"),
                ] + ["cargo test -p %s --offline (existing tests, unedited) -> %s" % (c, "pass" if v.get("ok") else "see note")
                     for c, v in (conf.get("existing_tests") or {}).items()] + [
                    "%s  with patch -> %s" % (conf.get("demo_cmd"), "FAILS" if (conf.get("with_patch") or {}).get("failed") else "passes"),
                    "%s  without patch -> %s" % (conf.get("demo_cmd"), "passes" if (conf.get("without_patch") or {}).get("passed") else "FAILS"),
                ],
                "confirmed": bool(conf.get("confirmed")),
                "note": conf.get("note"),
            },
        }
        json.dump(out, open(os.path.join(d, "meta.json"), "w"), indent=1)
        print("%s: imported" % sid)


if __name__ == "__main__":
    main()
