#!/usr/bin/env python3
"""Regenerates /verif/MANIFEST.json from the table below and validates it against the schema."""
import json
import os
import subprocess
import sys

HERE = os.path.dirname(os.path.dirname(os.path.abspath(__file__)))

# id -> (level category, technique, text, level_note, design_ref)
CLAIMS = {}
NOT_APPLICABLE = {}


# clauses added in later rounds (rules shared from another property, new structural clauses); appended to the claim text
ADDED = {
    "C01": " The source side is decided too: the fs worker's registration rules (configuration changes not lost, shadow set reset with the watcher, unwatch before watch, every configured path registered by the round's diff) are evaluated here (R01.10, owned by C13). No run-time duration is added to an Instant with the panicking operator anywhere in the library, so a throttle of Duration::MAX cannot bring the action worker down (R01.11).",
    "C02": " An urgent event is collected whatever the filter says about it, so that it can flush (R02.8, iteration classes owned by C01). The window arithmetic cannot panic (R02.9) and the unit-less product of --debounce saturates instead of wrapping (R02.7).",
    "C03": " Lines added after construction go into the builder stored in the directory's trie node and the matcher is recompiled from it (R03.7); the ignore file of a directory an ancestor ignores is never loaded (R03.10, pruning gates owned by C14).",
    "C05": " The process-group / session wrappers are applied as configured (R05.9) and an expired grace timer is cleared when it fires, so a restart goes on to its Start (R05.10).",
    "C06": " The whole-instance graceful quit stops every job through the same graceful stop with the given signal and grace, followed by a normal-priority delete (R06.10, owned by C08). The deadline is computed with checked_add and a far-future fallback, and no run-time duration is added to an Instant with the panicking operator in library, supervisor or CLI, so a grace period of Duration::MAX neither panics the job task nor kills the child through its dropped handle (R06.2, R06.11); the unit-less product of --stop-timeout saturates instead of wrapping to a short grace (R06.9).",
    "C07": " A to_wait() ticket is resolved at once or queued for a process end that will come (R07.8); a control taken from its queue is returned without a further suspension point, so it cannot be lost when the job task's select! drops recv (R07.9). The job task cannot be panicked by a duration (R07.10), which would skip the job-gone flag.",
    "C08": " No restart timer stays armed after its restart was carried out (R08.8) and Urgent is the greatest Priority, so the interrupt overtakes any backlog (R08.9). The handler's accessors signals() / paths() / completions() range over the whole batch, so an interrupt collected behind a pending event is seen (R08.10).",
    "C10": " recv is cancellation-safe (R10.7) and a handler raises the control's own flag, never the job-gone flag (R10.6).",
    "C11": " The whitelist passes an event as soon as any of its paths is explicitly watched (R11.1) and a whitelist match of a nearer ignore file ends the search (R11.5).",
    "C12": " Explicit patterns are consulted for every path (R12.8), explicit files load in listed order and a failure of dirs::ignores() is propagated (R12.9), and no filtering flag is declared to override another (R12.3).",
    "C14": " find_file follows symlinks (R14.1), the walker is created after every origin-level probe (R14.3), and the pruning verdict consults every ancestor (R14.6).",
    "C16": " An incomplete tag object decodes to Tag::Unknown or to a tag whose encoding keeps every present part; every field the writer may omit is optional for the reader; the events file starts empty for every batch.",
    "C20": " DirList::obtain keeps every entry of the directory (no take / skip on the stream).",
}


def claim(pid, cat, technique, text, note, ref):
    CLAIMS[pid] = (cat, technique, text + ADDED.get(pid, ""), note, ref)


def na(pid, reason):
    NOT_APPLICABLE[pid] = reason


sys.path.insert(0, HERE)
from tools.claims import register  # noqa: E402

register(claim, na)

props = [json.loads(l)["id"] for l in open(os.path.join(HERE, "properties.jsonl"))]
checks = []
for pid in props:
    if pid in CLAIMS:
        cat, technique, text, note, ref = CLAIMS[pid]
        checks.append({
            "property_id": pid,
            "quick_cmd": "./check %s" % pid,
            "thorough_cmd": "./check %s --thorough" % pid,
            "evidence_file": "/verif/evidence/%s.json" % pid,
            "replay_cmd_template": "./check %s --replay {path}" % pid,
            "engine": "wxlint",
            "level_claimed": {"category": cat, "text": text, "design_ref": ref},
            "level_note": note,
            "technique": technique,
        })
    elif pid not in NOT_APPLICABLE:
        raise SystemExit("property %s neither claimed nor not_applicable" % pid)

manifest = {
    "version": 1,
    "setup_cmd": "./setup",
    "hooks": {
        "guard": "--cfg watchexec_verif",
        "enable": "none needed: static analysis reads the type-checked program of the unmodified build; no hook commits exist",
        "baseline_off_cmd": "cd /repo && cargo nextest run --workspace --no-fail-fast --test-threads 8 --offline || cargo test --workspace --no-fail-fast --offline",
        "source_commits": [],
        "add_only": True,
    },
    "engines": [
        {"name": "wxfacts", "path": "driver/", "serves_properties": sorted(CLAIMS),
         "kind_free_text": "rustc_private driver (nightly) injected via RUSTC_WORKSPACE_WRAPPER; serialises THIR trees, pre-borrowck MIR CFGs and ADT/impl tables of every workspace crate"},
        {"name": "wxlint", "path": "wxlint/", "serves_properties": sorted(CLAIMS),
         "kind_free_text": "repository-specific static rules (Python): CFG dominance/must-pass, def-use origins, typestate/flag-token dataflow, THIR pattern-table theorems"},
    ],
    "checks": checks,
    "not_applicable": [{"property_id": p, "reason": r} for p, r in sorted(NOT_APPLICABLE.items())],
    "notes": "All checks are static: they read /repo's current working tree through the compiler (cargo +nightly check with a "
             "fact-extracting driver) and never run watchexec. Each check decides named structural clauses that are necessary "
             "conditions of its property on every CFG path / every value of a finite domain; the behavioural remainder that "
             "depends on run-time quantities is declared undecided in DESIGN.md section 7.1 and in each evidence file.",
}
out = os.path.join(HERE, "MANIFEST.json")
with open(out, "w") as f:
    json.dump(manifest, f, indent=1)
try:
    r = subprocess.run(["python3-vt", "-c", "import json,jsonschema,sys;jsonschema.validate(json.load(open(sys.argv[1])),json.load(open('/root/.vp/MANIFEST.schema.json')));print('MANIFEST valid')", out])
    sys.exit(r.returncode)
except FileNotFoundError:
    print("python3-vt not found; schema validation skipped")
