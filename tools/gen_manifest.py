#!/usr/bin/env python3
"""Regenerates /verif/MANIFEST.json from the table below and validates it against the schema."""
import json
import os
import subprocess
import sys

HERE = os.path.dirname(os.path.dirname(os.path.abspath(__file__)))

# id -> (level category, technique, text, level_note, design_ref)
CLAIMS = {}
NOT_APPLICABLE = {}


def claim(pid, cat, technique, text, note, ref):
    CLAIMS[pid] = (cat, technique, text, note, ref)


def na(pid, reason):
    NOT_APPLICABLE[pid] = reason


sys.path.insert(0, HERE)
from tools.claims import register  # noqa: E402

register(claim, na)

props = [json.loads(l)["id"] for l in open(os.path.join(HERE, "properties.jsonl"))]
checks = []
for pid in props:
    if pid in CLAIMS:
        cat, technique, text, note, ref = CLAIMS[pid]
        checks.append({
            "property_id": pid,
            "quick_cmd": "./check %s" % pid,
            "thorough_cmd": "./check %s --thorough" % pid,
            "evidence_file": "/verif/evidence/%s.json" % pid,
            "replay_cmd_template": "./check %s --replay {path}" % pid,
            "engine": "wxlint",
            "level_claimed": {"category": cat, "text": text, "design_ref": ref},
            "level_note": note,
            "technique": technique,
        })
    elif pid not in NOT_APPLICABLE:
        raise SystemExit("property %s neither claimed nor not_applicable" % pid)

manifest = {
    "version": 1,
    "setup_cmd": "./setup",
    "hooks": {
        "guard": "--cfg watchexec_verif",
        "enable": "none needed: static analysis reads the type-checked program of the unmodified build; no hook commits exist",
        "baseline_off_cmd": "cd /repo && cargo nextest run --workspace --no-fail-fast --test-threads 8 --offline || cargo test --workspace --no-fail-fast --offline",
        "source_commits": [],
        "add_only": True,
    },
    "engines": [
        {"name": "wxfacts", "path": "driver/", "serves_properties": sorted(CLAIMS),
         "kind_free_text": "rustc_private driver (nightly) injected via RUSTC_WORKSPACE_WRAPPER; serialises THIR trees, pre-borrowck MIR CFGs and ADT/impl tables of every workspace crate"},
        {"name": "wxlint", "path": "wxlint/", "serves_properties": sorted(CLAIMS),
         "kind_free_text": "repository-specific static rules (Python): CFG dominance/must-pass, def-use origins, typestate/flag-token dataflow, THIR pattern-table theorems"},
    ],
    "checks": checks,
    "not_applicable": [{"property_id": p, "reason": r} for p, r in sorted(NOT_APPLICABLE.items())],
    "notes": "All checks are static: they read /repo's current working tree through the compiler (cargo +nightly check with a "
             "fact-extracting driver) and never run watchexec. Each check decides named structural clauses that are necessary "
             "conditions of its property on every CFG path / every value of a finite domain; the behavioural remainder that "
             "depends on run-time quantities is declared undecided in DESIGN.md section 7.1 and in each evidence file.",
}
out = os.path.join(HERE, "MANIFEST.json")
with open(out, "w") as f:
    json.dump(manifest, f, indent=1)
try:
    r = subprocess.run(["python3-vt", "-c", "import json,jsonschema,sys;jsonschema.validate(json.load(open(sys.argv[1])),json.load(open('/root/.vp/MANIFEST.schema.json')));print('MANIFEST valid')", out])
    sys.exit(r.returncode)
except FileNotFoundError:
    print("python3-vt not found; schema validation skipped")
