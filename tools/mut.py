#!/usr/bin/env python3
"""Run checks against a mutated scratch copy of /repo (never /repo itself).

  tools/mut.py <patch.diff> <PROP> [<PROP> ...]     apply patch to a scratch copy, run ./check PROP --repo scratch
  tools/mut.py --sed 's/a/b/' <file> <PROP> ...       quick textual one-off mutant (development only)

Prints, per property, DETECTED (exit 1 + VIOLATION), MISSED (exit 0) or BROKEN (exit 2).
The scratch copy lives under $WXV_MUT_DIR (default /tmp/wxmut) and is removed afterwards unless --keep.
"""
import os
import shutil
import subprocess
import sys

HERE = os.path.dirname(os.path.dirname(os.path.abspath(__file__)))
SCRATCH = os.environ.get("WXV_MUT_DIR", "/tmp/wxmut")


def prepare():
    dst = os.path.join(SCRATCH, "repo")
    os.makedirs(dst, exist_ok=True)
    subprocess.check_call(["rsync", "-a", "--delete", "--exclude", "target", "--exclude", ".git",
                           "/repo/", dst + "/"])
    return dst


def run_checks(dst, props, quiet=False):
    res = {}
    for p in props:
        env = dict(os.environ)
        env["WXV_EVIDENCE"] = os.path.join(SCRATCH, "evidence-%s.json" % p)
        r = subprocess.run([os.path.join(HERE, "check"), p, "--repo", dst], env=env, stdout=subprocess.PIPE,
                           stderr=subprocess.STDOUT, text=True)
        viol = [l for l in r.stdout.splitlines() if l.startswith("VIOLATION")]
        if r.returncode == 1 and viol:
            res[p] = "DETECTED"
        elif r.returncode == 0:
            res[p] = "MISSED"
        else:
            res[p] = "BROKEN(exit %d)" % r.returncode
        if not quiet:
            print("---- %s: %s" % (p, res[p]))
            for l in r.stdout.splitlines():
                if l.startswith(("VIOLATION", "  rule", "  at", "  what", "KNOWN", "[wxverif] MACH", "Traceback", "  File", "[C")) or "Error" in l:
                    print("   " + l)
    return res


def main():
    args = sys.argv[1:]
    keep = "--keep" in args
    args = [a for a in args if a != "--keep"]
    dst = prepare()
    if args[0] == "--sed":
        expr, rel = args[1], args[2]
        props = args[3:]
        subprocess.check_call(["sed", "-i", "-E", expr, os.path.join(dst, rel)])
        d = subprocess.run(["diff", "-u", os.path.join("/repo", rel), os.path.join(dst, rel)], stdout=subprocess.PIPE, text=True).stdout
        if not d:
            print("sed changed nothing")
            return 2
        print(d)
    else:
        patch, props = args[0], args[1:]
        r = subprocess.run(["patch", "-p1", "-d", dst, "-i", os.path.abspath(patch)], stdout=subprocess.PIPE, stderr=subprocess.STDOUT, text=True)
        if r.returncode != 0:
            print("patch failed:\n" + r.stdout)
            return 2
    res = run_checks(dst, props)
    if not keep:
        shutil.rmtree(dst, ignore_errors=True)
    return 0 if all(v == "DETECTED" for v in res.values()) else 1


if __name__ == "__main__":
    sys.exit(main())
