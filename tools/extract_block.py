#!/usr/bin/env python3
"""Development aid: turn one `# ---- <marker>` + `try: ... except Skip: pass` block of a rule module's run() into a function
`name(ctx, rule)` so that another property's module can evaluate the same rule under its own rule id.
  tools/extract_block.py <module.py> <marker line prefix> <function name> <rule id in the block> <docstring>"""
import sys


def main():
    path, marker, fname, rule, doc = sys.argv[1:6]
    s = open(path).read()
    assert s.count(marker) == 1, s.count(marker)
    i = s.index(marker)
    t = s.index("    try:\n", i)
    assert "\n" not in s[i:t].strip("\n") or all(l.strip().startswith("#") or not l.strip() for l in s[i:t].split("\n")), s[i:t]
    e = s.index("    except Skip:\n        pass\n", t)
    body = s[t + len("    try:\n"):e]
    for l in body.split("\n"):
        assert l == "" or l.startswith("        "), repr(l)
    body = "\n".join(l[4:] if l else l for l in body.split("\n"))
    assert '"%s"' % rule in body
    body = body.replace('"%s"' % rule, "rule")
    fn = "def %s(ctx, rule):\n    \"\"\"%s\"\"\"\n    facts = ctx.facts\n%s\n\n\n" % (fname, doc, body.rstrip("\n"))
    s = s[:t] + "    try:\n        %s(ctx, \"%s\")\n" % (fname, rule) + s[e:]
    k = s.index("def run(ctx):")
    s = s[:k] + fn + s[k:]
    open(path, "w").write(s)


main()
