#!/usr/bin/env python3
"""Blind-spot finder: generic mutation operators over the anchored source regions; every mutant that still compiles is
run through all checks (in-process) and the survivors (no check fires) are listed for triage.

  tools/mutate.py --worker K --of N --out /tmp/mutate   (runs shard K of N)

Development aid only; not part of any registered check."""
import importlib
import json
import os
import re
import subprocess
import sys

HERE = os.path.dirname(os.path.dirname(os.path.abspath(__file__)))
sys.path.insert(0, HERE)
from wxlint import extract, report  # noqa: E402
from wxlint.facts import Facts  # noqa: E402

REGIONS = [
    ("crates/supervisor/src/job/task.rs", 44, 375), ("crates/supervisor/src/job/task.rs", 440, 470),
    ("crates/supervisor/src/job/priority.rs", 34, 146), ("crates/supervisor/src/job/state.rs", 55, 146),
    ("crates/supervisor/src/job/job.rs", 46, 210), ("crates/supervisor/src/flag.rs", 36, 90),
    ("crates/supervisor/src/job/messages.rs", 120, 148), ("crates/supervisor/src/command/conversions.rs", 9, 86),
    ("crates/lib/src/action/worker.rs", 29, 202), ("crates/lib/src/action/handler.rs", 20, 100),
    ("crates/lib/src/sources/fs.rs", 108, 304), ("crates/lib/src/sources/signal.rs", 40, 160), ("crates/lib/src/sources/keyboard.rs", 20, 113),
    ("crates/lib/src/config.rs", 175, 300), ("crates/lib/src/watchexec.rs", 150, 313), ("crates/lib/src/changeable.rs", 10, 100),
    ("crates/lib/src/late_join_set.rs", 60, 105), ("crates/lib/src/paths.rs", 74, 167),
    ("crates/ignore-files/src/filter.rs", 60, 440), ("crates/ignore-files/src/discover.rs", 156, 306), ("crates/ignore-files/src/discover.rs", 440, 666),
    ("crates/filterer/globset/src/lib.rs", 60, 232), ("crates/filterer/ignore/src/lib.rs", 25, 63),
    ("crates/cli/src/config.rs", 330, 480), ("crates/cli/src/config.rs", 489, 565), ("crates/cli/src/dirs.rs", 86, 240), ("crates/cli/src/filterer.rs", 30, 160),
    ("crates/cli/src/emits.rs", 9, 55), ("crates/cli/src/args/events.rs", 281, 292), ("crates/cli/src/args/events.rs", 346, 377), ("crates/cli/src/lib.rs", 30, 50),
    ("crates/events/src/serde_formats.rs", 86, 369), ("crates/events/src/process.rs", 51, 85), ("crates/signals/src/lib.rs", 124, 393),
    ("crates/project-origins/src/lib.rs", 150, 393),
]
REGIONS2 = [
    ("crates/supervisor/src/job/job.rs", 210, 356), ("crates/lib/src/action/handler.rs", 100, 162),
    ("crates/cli/src/config.rs", 60, 330), ("crates/cli/src/config.rs", 565, 745),
    ("crates/cli/src/args/command.rs", 205, 307), ("crates/cli/src/args/filtering.rs", 330, 496), ("crates/cli/src/args/events.rs", 292, 346),
    ("crates/events/src/event.rs", 165, 205), ("crates/lib/src/filter.rs", 1, 74), ("crates/lib/src/watched_path.rs", 1, 82),
    ("crates/cli/src/lib.rs", 50, 140), ("crates/cli/src/args.rs", 160, 185), ("crates/supervisor/src/job/task.rs", 375, 440),
    ("crates/supervisor/src/job/messages.rs", 1, 120), ("crates/events/src/process.rs", 1, 51), ("crates/ignore-files/src/filter.rs", 440, 520),
    ("crates/ignore-files/src/discover.rs", 306, 440), ("crates/filterer/globset/src/lib.rs", 232, 300),
]
if "--set2" in sys.argv:
    REGIONS = REGIONS2
SKIP_LINE = re.compile(r"^\s*(//|///|#\[|trace!|debug!|info!|warn!|error!|use |\}|\{|\)|\]|$)")
SWAPS = [(" == ", " != "), (" != ", " == "), (" < ", " >= "), (" <= ", " > "), (" > ", " <= "), (" >= ", " < "), (" && ", " || "), (" || ", " && "),
         ("true", "false"), ("false", "true"), ("continue;", "break;"), ("Loop::Skip", "Loop::Normally"), ("Loop::Normally", "Loop::Skip"),
         ("Priority::Urgent", "Priority::High"), ("Priority::High", "Priority::Normal"), ("Priority::Normal", "Priority::High"),
         (".is_some()", ".is_none()"), (".is_none()", ".is_some()"), (".is_ok()", ".is_err()"), (".is_empty()", ".is_empty() == false"),
         ("Match::Ignore", "Match::Whitelist"), ("Ok(true)", "Ok(false)"), ("Ok(false)", "Ok(true)"), ("Some(", "None::<()>.or(Some("),
         ("is_file", "is_dir"), ("is_dir", "is_file"), ("Signal::Terminate", "Signal::Interrupt"), ("Signal::Interrupt", "Signal::Terminate"),
         ("has_file", "has_dir"), (".unwatch(", ".watch_DISABLED(")]


def mutants():
    out = []
    for rel, lo, hi in REGIONS:
        path = os.path.join("/repo", rel)
        try:
            lines = open(path).read().split("\n")
        except FileNotFoundError:
            continue
        for i in range(lo - 1, min(hi, len(lines))):
            ln = lines[i]
            if SKIP_LINE.match(ln):
                continue
            st = ln.strip()
            # 1. delete simple statements
            if st.endswith(";") and not st.startswith(("let ", "return", "break", "continue")) and "=>" not in st and st.count("(") == st.count(")") and not st.endswith("?;"):
                out.append((rel, i, "delete", ""))
            # 2. negate if
            m = re.match(r"^(\s*)(\} else )?if (?!let )(.*) \{$", ln)
            if m:
                out.append((rel, i, "negate-if", "%s%sif !(%s) {" % (m.group(1), m.group(2) or "", m.group(3))))
            # 3. swaps (first occurrence each)
            for a, b in SWAPS:
                if a in ln and "trace!" not in ln and "debug!" not in ln:
                    if b.startswith("None::<()>") or "DISABLED" in b:
                        continue
                    out.append((rel, i, "swap:%s->%s" % (a.strip(), b.strip()), ln.replace(a, b, 1)))
    return out


def main():
    k = int(sys.argv[sys.argv.index("--worker") + 1])
    n = int(sys.argv[sys.argv.index("--of") + 1])
    outdir = sys.argv[sys.argv.index("--out") + 1]
    os.makedirs(outdir, exist_ok=True)
    props = ["C%02d" % i for i in range(1, 21)]
    mods = {p: importlib.import_module("wxlint.rules." + p.lower()) for p in props}
    allm = mutants()
    mine = [m for j, m in enumerate(allm) if j % n == k]
    scratch = os.path.join(outdir, "repo-%d" % k)
    done = set()
    resf = os.path.join(outdir, "results-%d.jsonl" % k)
    recheck = "--recheck" in sys.argv   # run again, with the current rules, the mutants that survived earlier
    if os.path.exists(resf):
        prev = [json.loads(l) for l in open(resf)]
        if recheck:
            keep = [r for r in prev if r["status"] != "SURVIVED"]
            open(resf, "w").write("".join(json.dumps(r) + "\n" for r in keep))
            prev = keep
        for r in prev:
            done.add((r["file"], r["line"], r["op"]))
    print("worker %d: %d of %d mutants" % (k, len(mine), len(allm)), flush=True)
    known = report.load_known()
    for rel, i, op, new in mine:
        if (rel, i + 1, op) in done:
            continue
        subprocess.check_call(["rsync", "-a", "--delete", "--exclude", "target", "--exclude", ".git", "/repo/", scratch + "/"])
        p = os.path.join(scratch, rel)
        lines = open(p).read().split("\n")
        orig = lines[i]
        lines[i] = new
        open(p, "w").write("\n".join(lines))
        rec = {"file": rel, "line": i + 1, "op": op, "orig": orig.strip()[:160], "new": new.strip()[:160]}
        try:
            fdir = extract.extract(scratch, "default", log=open(os.devnull, "w"))
        except extract.ExtractError:
            rec["status"] = "no-compile"
            open(resf, "a").write(json.dumps(rec) + "\n")
            continue
        facts = Facts(fdir)
        det = {}
        for pid in props:
            ctx = report.Ctx(pid, facts, repo=scratch)
            try:
                mods[pid].run(ctx)
            except Exception as e:
                det[pid] = ["CRASH " + repr(e)[:120]]
                continue
            keys = sorted({o.full_key() for o in ctx.obs if o.status != "ok"})
            if keys:
                det[pid] = keys[:3]
        rec["status"] = "detected" if det else "SURVIVED"
        rec["detected_by"] = det
        open(resf, "a").write(json.dumps(rec) + "\n")
        print(rec["status"], rel, i + 1, op, sorted(det), flush=True)


if __name__ == "__main__":
    main()
