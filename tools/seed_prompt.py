#!/usr/bin/env python3
"""Prints the prompt given to an independent sub-agent that is asked to break one property.
The agent gets only the property text and its own scratch worktree - nothing from /verif."""
import json
import sys

props = {json.loads(l)["id"]: json.loads(l) for l in open("/verif/properties.jsonl")}


def prompt(pid):
    p = props[pid]
    return f"""You are helping test a verification tool by producing realistic "seeded bugs" for the open-source Rust project watchexec (a CLI + library that watches filesystem paths and supervises/restarts commands).

You have your own scratch git worktree of the repository at /tmp/wt/{pid} (a detached checkout; work ONLY inside it; never touch /repo or /verif, and do not read anything under /verif). The sandbox is offline: use `cargo ... --offline` for everything (dependencies are already in the cargo cache). Use the worktree's own default target dir.

PROPERTY ({pid}) - "{p['title']}"
Statement: {p['statement']}
It must hold: {p['quantifier']['text']}

TASK: produce up to THREE independent, different source changes to watchexec (each a separate small patch against the worktree's HEAD) that each BREAK this property, while
  (a) the workspace still compiles (`cargo check --workspace --offline`), and
  (b) the existing test suite still passes, unedited. Run at least the tests of every crate you touched, e.g. `cargo test -p watchexec-supervisor --offline`, `cargo test -p watchexec --offline`, `cargo test -p watchexec-cli --offline --lib`, `cargo test -p ignore-files --offline`, `cargo test -p watchexec-events --offline`, `cargo test -p watchexec-filterer-globset --offline`, `cargo test -p watchexec-filterer-ignore --offline` as relevant; and
  (c) the breakage needs something SPECIFIC to manifest - a particular interleaving or timing, a crash/fault/error at a particular point, a multi-step sequence of operations, an unusual input, or two cooperating sites that each look fine alone. NOT something ordinary use would expose at once, and not a change that makes existing tests fail.
Aim for realistic mistakes a maintainer could make in a refactor or "optimisation" (dropping a step on one error path, reordering two operations, reusing stale state, off-by-one on a boundary, wrong variant in one arm of a table, missing cleanup on an early return, a condition inverted only for a rare case...). Make the three changes use different mechanisms / different functions where possible. Keep each patch small (a few lines).

For EACH change also write a DEMONSTRATION: a test or small program that FAILS (or hangs past a timeout you set, or prints a wrong result) with the change applied and PASSES on the unchanged worktree HEAD. A new `#[tokio::test]`/`#[test]` file under the crate's tests/ directory, or an example program, is fine. Actually run it both ways and record the outputs. If the property involves timing, use generous timeouts and explain them. (If the demonstration cannot pass on the unchanged HEAD because HEAD already has a related bug, pick a different change.)

DELIVERABLES - create directory /tmp/seeded/{pid}-1/ (and -2, -3) each containing:
  - patch.diff : `git diff` of ONLY the source change against HEAD (apply-able with `git apply` at the repo root; do not include the demonstration in it)
  - demo/ : the demonstration file(s) plus a README.md saying exactly where to put them and the exact command to run
  - meta.json : {{"property": "{pid}", "summary": "...what the change does...", "needs_to_manifest": "...the specific interleaving/fault/input/sequence...", "files_touched": [...], "commands_run": ["..."], "result_with_patch": "...", "result_without_patch": "...", "existing_tests": "which test commands you ran with the patch and that they passed"}}
After producing each patch, reset the worktree (`git -C /tmp/wt/{pid} checkout -- . && git -C /tmp/wt/{pid} clean -fd -e target`) before starting the next so patches are independent. Leave the worktree clean at the end (but keep target/ for now). If you cannot find three, deliver fewer good ones rather than weak ones. Finish with a short plain-text summary of what you delivered."""


ROUND2 = """

ADDITIONAL INSTRUCTIONS FOR THIS ROUND: other volunteers have already delivered three changes for this property (you cannot see them).
To diversify, (i) avoid the single most obvious function for this property when you can, (ii) prefer at least one change that spans two
functions or two crates that each look fine alone, (iii) prefer at least one change in a data table / constant / default value or in a helper
that several callers share, and (iv) prefer at least one change that only matters on an error or cancellation path. Number your deliverables
{pid}-4, {pid}-5, {pid}-6 (directories /tmp/seeded/{pid}-4 etc.) instead of -1..-3. Never use `git stash`. In each demo/README.md put the exact run
command on its own line starting with `cargo test` and the destination path of each demo file as a full `crates/...` path. Some test targets only
compile when several packages are selected together because of feature unification (e.g. `cargo test -p ignore-files -p watchexec-filterer-ignore
-p watchexec-filterer-globset --offline`, `cargo test -p watchexec-events --offline --features serde`); check what compiles on the unchanged HEAD first."""


ROUND3 = """

ADDITIONAL INSTRUCTIONS FOR THIS ROUND: other volunteers have already delivered SIX changes for this property (you cannot see them). They touched
these places (file, and the function named in the diff hunk header where there was one):
{touched}
Do NOT put a change in any of the functions listed above; look for the parts of the code that the property ALSO depends on but that are less obvious:
helpers and small accessor methods used by the main logic, trait impls, constructors and defaults, conversions, the command-line layer that feeds the
library (crates/cli), the glue that wires components together, cleanup / drop / shutdown code, and code reached only on error or cancellation. A change
in a different crate from the ones above is especially welcome when it genuinely breaks this property. Number your deliverables {pid}-7, {pid}-8, {pid}-9
(directories /tmp/seeded/{pid}-7 etc.). Never use `git stash`. Never run two cargo commands at once. In each demo/README.md put the exact run command on
its own line starting with `cargo test` and the destination path of each demo file as a full `crates/...` path. Some test targets only compile when
several packages are selected together because of feature unification (e.g. `cargo test -p ignore-files -p watchexec-filterer-ignore
-p watchexec-filterer-globset --offline`, `cargo test -p watchexec-events --offline --features serde`, `cargo test -p project-origins -p ignore-files --offline`);
check what compiles on the unchanged HEAD first. If you cannot find three good ones outside the listed functions, deliver fewer."""


ROUND5 = """

ADDITIONAL INSTRUCTIONS FOR THIS ROUND: other volunteers have already delivered a dozen changes for this property (you cannot see their patches).
One-line descriptions of what they did, so that you do NOT repeat them:
{done}
Find changes that are DIFFERENT from all of the above in mechanism - the same function is fine when the mistake is a different one, and so is code
nobody has touched yet. Directions that have been under-used so far: (i) two cooperating edits in different functions or crates that each look
harmless alone; (ii) concurrency details - what is held across an `.await`, lock scope, `select!` branch preconditions and cancellation safety,
channel capacity / try_send vs send, drop order, a spawned task that outlives its owner; (iii) state that is updated before vs after a fallible
step; (iv) boundary values (zero, empty, exactly-equal, first/last element, a second occurrence); (v) trait impls and derives the logic silently
relies on (PartialEq / Ord / Hash / Clone / Default / From / Display / serde attributes); (vi) stay in code that is actually compiled on Linux (this sandbox is Linux; cfg(windows) code cannot be built or demonstrated here). Number your deliverables {pid}-13, {pid}-14, {pid}-15 (directories /tmp/seeded/{pid}-13 etc.). Never use `git stash`. Never run two cargo
commands at once. In each demo/README.md put the exact run command on its own line starting with `cargo test` and the destination path of each
demo file as a full `crates/...` path. Some test targets only compile when several packages are selected together because of feature unification
(e.g. `cargo test -p ignore-files -p watchexec-filterer-ignore -p watchexec-filterer-globset --offline`, `cargo test -p watchexec-events --offline
--features serde`, `cargo test -p project-origins -p ignore-files --offline`); check what compiles on the unchanged HEAD first. If you cannot find
three good ones, deliver fewer."""


ROUND6 = """

ADDITIONAL INSTRUCTIONS FOR THIS ROUND: other volunteers have already delivered about fifteen changes for this property (you cannot see their patches).
One-line descriptions of what they did, so that you do NOT repeat them:
{done}
Find changes that are DIFFERENT from all of the above in mechanism. Directions that are still under-used: (i) a change in a crate or module none of the
descriptions above mentions, which this property nevertheless depends on (shared helper types, `Changeable*`, `Flag`/ticket plumbing, priority queues,
path normalisation helpers, the CLI layer that turns flags into library configuration, `Default` impls and constants); (ii) a value computed correctly but
then used at the wrong site (two variables of the same type swapped, a clone taken before a mutation, a shadowed binding); (iii) a condition that is right
for the common case and wrong only at a boundary (zero, empty, equal, root directory `/`, a path without parent, first/last element, duplicate entries,
non-UTF-8 or relative paths); (iv) an early `return` / `?` / `continue` / `break` added for a rare case that skips a later obligation (a flag raise, a cleanup,
a push, a send); (v) iterator adaptor swaps that differ only on unusual input (`any`/`all`, `find`/`rfind`, `take_while`/`filter`, `zip` truncation, `chain`
order, `min`/`max`, `first`/`last`, `extend` vs replace, `retain` polarity for a rare class); (vi) integer / duration arithmetic (saturating vs checked vs
wrapping, `as` casts, ms vs s units) that only matters for extreme inputs. Stay in code that is actually compiled on Linux. You have about 35 minutes of
wall-clock time in total: deliver TWO good changes (three if quick), fewer rather than weak ones, and stop. Your worktree already has a warm `target/`
directory, so builds are incremental. Number your deliverables {pid}-16, {pid}-17, {pid}-18 (directories /tmp/seeded/{pid}-16 etc.). Never use `git stash`.
Never run two cargo commands at once. In each demo/README.md put the exact run command on its own line starting with `cargo test` and the destination path of each
demo file as a full `crates/...` path. Some test targets only compile when several packages are selected together because of feature unification
(e.g. `cargo test -p ignore-files -p watchexec-filterer-ignore -p watchexec-filterer-globset --offline`, `cargo test -p watchexec-events --offline
--features serde`, `cargo test -p project-origins -p ignore-files --offline`); check what compiles on the unchanged HEAD first."""


def done(pid):
    import glob
    import os
    out = []
    for d in sorted(glob.glob("/verif/seeded/%s-*" % pid), key=lambda x: int(x.rsplit("-", 1)[1])):
        try:
            m = json.load(open(os.path.join(d, "meta.json")))
        except Exception:
            continue
        out.append("  - " + " ".join((m.get("summary") or "").split())[:260])
    return "\n".join(out)


def touched(pid):
    import glob
    import os
    import re
    out = set()
    for d in sorted(glob.glob("/verif/seeded/%s-*" % pid)):
        f = None
        for line in open(os.path.join(d, "patch.diff"), errors="replace"):
            if line.startswith("+++ b/"):
                f = line[6:].strip()
            m = re.match(r"^@@ .* @@\s*(.*)$", line)
            if m and f:
                fn = re.search(r"fn\s+(\w+)", m.group(1))
                out.add((f, fn.group(1) if fn else (m.group(1)[:50] or "-")))
    return "\n".join("  - %s : %s" % x for x in sorted(out))


if __name__ == "__main__":
    out = prompt(sys.argv[1])
    if len(sys.argv) > 2 and sys.argv[2] == "2":
        out += ROUND2.format(pid=sys.argv[1])
    if len(sys.argv) > 2 and sys.argv[2] in ("3", "4"):
        txt = ROUND3.format(pid=sys.argv[1], touched=touched(sys.argv[1]))
        if sys.argv[2] == "4":
            txt = txt.replace("SIX changes", "NINE changes").replace("-7,", "-10,").replace("-8,", "-11,").replace("-9\n", "-12\n").replace("-7 etc.", "-10 etc.")
        out += txt
    if len(sys.argv) > 2 and sys.argv[2] == "5":
        out += ROUND5.format(pid=sys.argv[1], done=done(sys.argv[1]))
    if len(sys.argv) > 2 and sys.argv[2] == "6":
        out += ROUND6.format(pid=sys.argv[1], done=done(sys.argv[1]))
    print(out)
