// F8 demonstration (C13): a config change signalled between two `ConfigWatched::next()` calls must not be lost.
// Append to crates/lib/src/config.rs and run:
//   cargo test -p watchexec --offline --lib f8_ -- --nocapture
#[cfg(test)]
mod f8_demo {
	use super::Config;
	use std::time::Duration;

	#[tokio::test]
	async fn f8_change_between_next_calls_is_not_lost() {
		let config = Config::default();
		let mut watch = config.watch();
		watch.next().await; // first run resolves immediately
		// the worker is now busy applying the configuration (it is not inside next()); meanwhile:
		config.signal_change();
		// when the worker comes back to wait for the next change, it must see that one
		tokio::time::timeout(Duration::from_secs(1), watch.next())
			.await
			.expect("a change signalled while the worker was busy was lost: next() waits forever");
	}

	#[tokio::test]
	async fn f8_change_during_wait_still_wakes() {
		let config = std::sync::Arc::new(Config::default());
		let mut watch = config.watch();
		watch.next().await;
		let c = config.clone();
		tokio::spawn(async move {
			tokio::time::sleep(Duration::from_millis(100)).await;
			c.signal_change();
		});
		tokio::time::timeout(Duration::from_secs(1), watch.next()).await.expect("not woken by a change during the wait");
		// and no spurious wake-up afterwards
		assert!(tokio::time::timeout(Duration::from_millis(300), watch.next()).await.is_err(), "spurious wake-up without a change");
	}
}
