//! F9 demonstration (C13): after the watcher kind is changed at run time, the configured paths must be
//! registered with the new watcher. Place in crates/lib/tests/ and run:
//!   cargo test -p watchexec --offline --test f9_watcher_kind_change -- --nocapture
use std::{
	sync::{
		atomic::{AtomicUsize, Ordering},
		Arc,
	},
	time::Duration,
};

use watchexec::{sources::fs::Watcher, Watchexec};
use watchexec_events::Tag;

#[tokio::test(flavor = "multi_thread", worker_threads = 2)]
async fn f9_paths_are_registered_with_the_new_watcher() {
	let dir = std::env::temp_dir().join(format!("wxv-f9-{}", std::process::id()));
	let _ = std::fs::remove_dir_all(&dir);
	std::fs::create_dir_all(&dir).unwrap();
	let seen = Arc::new(AtomicUsize::new(0));
	let seen2 = seen.clone();
	let wx = Watchexec::new(move |action| {
		if action.events.iter().any(|e| e.tags.iter().any(|t| matches!(t, Tag::Path { .. }))) {
			seen2.fetch_add(1, Ordering::SeqCst);
		}
		action
	})
	.unwrap();
	wx.config.throttle(Duration::from_millis(20));
	wx.config.pathset([dir.clone()]);
	let main = wx.main();
	tokio::time::sleep(Duration::from_millis(500)).await;

	// sanity: the native watcher sees a change
	std::fs::write(dir.join("a.txt"), "1").unwrap();
	tokio::time::sleep(Duration::from_millis(800)).await;
	assert!(seen.load(Ordering::SeqCst) > 0, "native watcher did not report the change (environment problem)");

	// switch the watcher kind at run time
	wx.config.file_watcher(Watcher::Poll(Duration::from_millis(100)));
	tokio::time::sleep(Duration::from_millis(800)).await;
	let before = seen.load(Ordering::SeqCst);
	std::fs::write(dir.join("b.txt"), "2").unwrap();
	let mut ok = false;
	for _ in 0..50 {
		tokio::time::sleep(Duration::from_millis(100)).await;
		if seen.load(Ordering::SeqCst) > before {
			ok = true;
			break;
		}
	}
	main.abort();
	let _ = std::fs::remove_dir_all(&dir);
	assert!(ok, "no filesystem event after switching the watcher kind: the paths were not registered with the new watcher");
}
