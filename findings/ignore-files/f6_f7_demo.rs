//! F6/F7 demonstrations (C03). Place in crates/ignore-files/tests/ and run:
//!   cargo test -p ignore-files --offline --test f6_f7_demo -- --nocapture
use std::path::{Path, PathBuf};

use ignore::Match;
use ignore_files::{IgnoreFile, IgnoreFilter};

fn mk(dir: &Path, rel: &str, content: &str) -> PathBuf {
	let p = dir.join(rel);
	std::fs::create_dir_all(p.parent().unwrap()).unwrap();
	std::fs::write(&p, content).unwrap();
	p
}

fn ignored(f: &IgnoreFilter, p: &Path, is_dir: bool) -> bool {
	matches!(f.match_path(p, is_dir), Match::Ignore(_))
}

/// F6: an ignore file in `test/` must not decide paths under the sibling `tests/`.
#[tokio::test]
async fn f6_sibling_directory_with_prefix_name() {
	let root = std::env::temp_dir().join(format!("wxv-f6-{}", std::process::id()));
	let _ = std::fs::remove_dir_all(&root);
	std::fs::create_dir_all(root.join("test")).unwrap();
	std::fs::create_dir_all(root.join("tests")).unwrap();
	let root = std::fs::canonicalize(&root).unwrap();
	let base = mk(&root, ".gitignore", "*.log\n");
	let inner = mk(&root, "test/.gitignore", "!keep.log\nsecret.txt\n");
	let files = vec![
		IgnoreFile { path: base, applies_in: Some(root.clone()), applies_to: None },
		IgnoreFile { path: inner, applies_in: Some(root.join("test")), applies_to: None },
	];
	let f = IgnoreFilter::new(&root, &files).await.unwrap();
	// sanity: inside test/ the nearer file wins
	assert!(!ignored(&f, &root.join("test/keep.log"), false), "test/keep.log is re-included by test/.gitignore");
	assert!(ignored(&f, &root.join("test/secret.txt"), false));
	// the sibling directory tests/ is governed by the root file only
	let r = std::panic::catch_unwind(std::panic::AssertUnwindSafe(|| {
		(
			ignored(&f, &root.join("tests/keep.log"), false),
			ignored(&f, &root.join("tests/secret.txt"), false),
		)
	}));
	let _ = std::fs::remove_dir_all(&root);
	let (keep, secret) = r.expect("match_path panicked for a path under tests/");
	assert!(keep, "tests/keep.log must be ignored by the root *.log (test/.gitignore's negation leaked into tests/)");
	assert!(!secret, "tests/secret.txt must not be ignored (test/.gitignore's pattern leaked into tests/)");
}

/// F7: two files applying in the same directory keep their listed order as precedence, on every construction.
#[tokio::test]
async fn f7_listed_order_is_precedence() {
	let root = std::env::temp_dir().join(format!("wxv-f7-{}", std::process::id()));
	let _ = std::fs::remove_dir_all(&root);
	std::fs::create_dir_all(&root).unwrap();
	let root = std::fs::canonicalize(&root).unwrap();
	// first file is large (slow to read), second is tiny: with unordered loading the tiny one is usually processed first
	let mut big = String::new();
	for i in 0..200_000 {
		big.push_str(&format!("# filler line {i}\n"));
	}
	big.push_str("*.tmp\n");
	let first = mk(&root, "first.ignore", &big);
	let second = mk(&root, "second.ignore", "!keep.tmp\n");
	let files = vec![
		IgnoreFile { path: first, applies_in: Some(root.clone()), applies_to: None },
		IgnoreFile { path: second, applies_in: Some(root.clone()), applies_to: None },
	];
	let mut wrong = 0;
	for _ in 0..20 {
		let f = IgnoreFilter::new(&root, &files).await.unwrap();
		// listed order: `*.tmp` then `!keep.tmp` => keep.tmp is re-included (the later pattern wins, as in one concatenated file)
		if ignored(&f, &root.join("keep.tmp"), false) {
			wrong += 1;
		}
	}
	let _ = std::fs::remove_dir_all(&root);
	assert_eq!(wrong, 0, "in {wrong}/20 constructions the second file was applied before the first");
}
