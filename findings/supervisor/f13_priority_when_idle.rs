//! F13 demonstration (C10): pending urgent controls run before pending normal ones also when the job task is idle
//! (parked inside recv()'s select!) at the moment both are sent.
//! Place in crates/supervisor/tests/ and run:
//!   cargo test -p watchexec-supervisor --offline --test f13_priority_when_idle -- --nocapture
#![cfg(unix)]
use std::sync::{
	atomic::{AtomicUsize, Ordering},
	Arc,
};
use std::time::Duration;

use watchexec_supervisor::{
	command::{Command, Program},
	job::start_job,
};

#[tokio::test]
async fn f13_urgent_overtakes_normal_sent_to_an_idle_job() {
	let mut normal_ran_first = 0;
	for _ in 0..60 {
		let (job, task) = start_job(Arc::new(Command {
			program: Program::Exec { prog: "/bin/true".into(), args: Vec::new() },
			options: Default::default(),
		}));
		// let the job task park itself waiting for controls
		job.run(|_| {}).await;
		tokio::time::sleep(Duration::from_millis(5)).await;
		let ran = Arc::new(AtomicUsize::new(0));
		let ran2 = ran.clone();
		// both are queued before the job task is polled again (no await in between)
		let normal = job.run(move |_| {
			ran2.fetch_add(1, Ordering::SeqCst);
		});
		let urgent = job.delete_now();
		urgent.await;
		normal.await; // resolves through job-gone if it never ran
		let _ = task.await;
		if ran.load(Ordering::SeqCst) > 0 {
			normal_ran_first += 1;
		}
	}
	assert_eq!(
		normal_ran_first, 0,
		"in {normal_ran_first}/60 trials a pending normal control ran before the pending urgent delete_now"
	);
}
