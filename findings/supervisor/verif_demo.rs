//! Demonstrations of the supervisor defects F1, F2, F3, F10, F11, F12 (see /verif/DESIGN.md section 6).
//! Place in crates/supervisor/tests/ and run `cargo test -p watchexec-supervisor --offline --test verif_demo`.
//! Each test fails (by timeout or wrong count) on the pre-fix tree and passes on the fixed tree.
#![cfg(unix)]
use std::{sync::Arc, time::Duration};

use tokio::time::{sleep, timeout};
use watchexec_signals::Signal;
use watchexec_supervisor::{
	command::{Command, Program, Shell},
	job::start_job,
};

fn sh(cmd: &str) -> Arc<Command> {
	Arc::new(Command {
		program: Program::Shell {
			shell: Shell::new("sh"),
			command: cmd.into(),
			args: Vec::new(),
		},
		options: Default::default(),
	})
}

/// F1: a graceful stop whose child exits inside the grace period must resolve its ticket.
#[tokio::test]
async fn f1_graceful_stop_ticket_resolves_when_child_exits_in_grace() {
	let (job, task) = start_job(sh("sleep 30"));
	job.start().await;
	sleep(Duration::from_millis(200)).await;
	let t0 = std::time::Instant::now();
	let ticket = job.stop_with_signal(Signal::Terminate, Duration::from_secs(20));
	let r = timeout(Duration::from_secs(5), ticket).await;
	assert!(r.is_ok(), "stop_with_signal ticket did not resolve although the child exited at once");
	assert!(t0.elapsed() < Duration::from_secs(4));
	job.delete_now().await;
	let _ = task.await;
}

/// F2: a graceful try-restart whose replacement fails to spawn must still resolve its ticket.
#[tokio::test]
async fn f2_graceful_restart_ticket_resolves_when_respawn_fails() {
	let dir = std::env::temp_dir().join(format!("wxv-f2-{}", std::process::id()));
	std::fs::create_dir_all(&dir).unwrap();
	let script = dir.join("run.sh");
	std::fs::write(&script, "#!/bin/sh\nsleep 30\n").unwrap();
	use std::os::unix::fs::PermissionsExt;
	std::fs::set_permissions(&script, std::fs::Permissions::from_mode(0o755)).unwrap();
	let cmd = Arc::new(Command {
		program: Program::Exec { prog: script.clone(), args: Vec::new() },
		options: Default::default(),
	});
	let (job, task) = start_job(cmd);
	job.set_error_handler(|_| {}).await;
	job.start().await;
	sleep(Duration::from_millis(300)).await;
	std::fs::remove_file(&script).unwrap();
	let ticket = job.try_restart_with_signal(Signal::Terminate, Duration::from_secs(20));
	let r = timeout(Duration::from_secs(5), ticket).await;
	let _ = std::fs::remove_dir_all(&dir);
	assert!(r.is_ok(), "try_restart_with_signal ticket never resolved after the respawn failed");
	job.delete_now().await;
	let _ = task.await;
}

/// F3: a forced graceful try-restart must start the replacement exactly once.
#[tokio::test]
async fn f3_forced_graceful_restart_starts_replacement_once() {
	let log = std::env::temp_dir().join(format!("wxv-f3-{}.log", std::process::id()));
	let _ = std::fs::remove_file(&log);
	// ignores TERM, records each start, exits by itself after 1s
	let (job, task) = start_job(sh(&format!("trap '' TERM; echo run >> {}; sleep 1", log.display())));
	job.start().await;
	sleep(Duration::from_millis(300)).await;
	job.try_restart_with_signal(Signal::Terminate, Duration::from_millis(200)).await;
	// replacement (run 2) exits by itself after ~1s; nothing asked for a third run
	sleep(Duration::from_millis(2500)).await;
	let runs = std::fs::read_to_string(&log).unwrap().lines().count();
	let _ = std::fs::remove_file(&log);
	job.delete_now().await;
	let _ = task.await;
	assert_eq!(runs, 2, "replacement must start exactly once");
}

/// F10: dropping the last handle of an idle job ends the task gracefully and resolves pending tickets.
#[tokio::test]
async fn f10_last_handle_dropped_on_idle_job() {
	let (job, task) = start_job(sh("sleep 30"));
	job.start().await;
	let pending = job.to_wait(); // resolves when the command ends or the job is gone
	job.stop().await;
	let waiting = job.to_wait();
	drop(job);
	let r = timeout(Duration::from_secs(3), task).await;
	assert!(r.is_ok(), "job task did not end after the last handle was dropped");
	assert!(r.unwrap().is_ok(), "job task panicked instead of stopping gracefully");
	assert!(timeout(Duration::from_secs(1), pending).await.is_ok());
	assert!(timeout(Duration::from_secs(1), waiting).await.is_ok());
}

/// F11: to_wait() on a job whose command is not running resolves immediately (also before any start).
#[tokio::test]
async fn f11_to_wait_on_never_started_job() {
	let (job, task) = start_job(sh("sleep 30"));
	let r = timeout(Duration::from_secs(2), job.to_wait()).await;
	assert!(r.is_ok(), "to_wait() on a never-started job did not resolve");
	job.delete_now().await;
	let _ = task.await;
}

/// F12: every clone of a ticket resolves, for several concurrently waiting tasks.
#[tokio::test]
async fn f12_all_ticket_clones_resolve() {
	let (job, task) = start_job(sh("sleep 30"));
	job.start().await;
	let ticket = job.to_wait();
	let mut waiters = Vec::new();
	for _ in 0..4 {
		let t = ticket.clone();
		waiters.push(tokio::spawn(async move {
			let t0 = std::time::Instant::now();
			t.await;
			t0.elapsed()
		}));
	}
	sleep(Duration::from_millis(300)).await; // let every waiter register
	job.stop().await;
	for w in waiters {
		let r = timeout(Duration::from_secs(3), w).await;
		assert!(r.is_ok(), "a clone of the ticket was never woken");
	}
	job.delete_now().await;
	let _ = task.await;
}
