//! F14: a graceful stop with a grace period too large to be added to the current instant
//! (`Duration::MAX`, the natural spelling of "never force-kill") must not take the job task down.
//! On the pre-fix tree `Timer::stop` computes `Instant::now() + grace`, which panics inside the job
//! task after the signal has been delivered: the job-gone flag is never raised, the stop ticket and
//! every later ticket hang, and the child is killed by the drop of its handle (a kill before the
//! grace period elapsed).
//! Place in crates/supervisor/tests/ and run
//! `cargo test -p watchexec-supervisor --offline --test f14_grace_overflow`.
#![cfg(unix)]
use std::{sync::Arc, time::Duration};

use tokio::time::{sleep, timeout};
use watchexec_signals::Signal;
use watchexec_supervisor::{
	command::{Command, Program, Shell},
	job::start_job,
};

fn sh(cmd: &str) -> Arc<Command> {
	Arc::new(Command {
		program: Program::Shell {
			shell: Shell::new("sh"),
			command: cmd.into(),
			args: Vec::new(),
		},
		options: Default::default(),
	})
}

#[tokio::test]
async fn f14_huge_grace_does_not_panic_the_job_task() {
	// the child ignores SIGUSR1-less TERM? no: it exits on TERM after one second, inside the (endless) grace period
	let (job, task) = start_job(sh("trap 'sleep 1; exit 0' TERM; while true; do sleep 0.1; done"));
	job.start().await;
	sleep(Duration::from_millis(300)).await;
	let ticket = job.stop_with_signal(Signal::Terminate, Duration::MAX);
	let r = timeout(Duration::from_secs(6), ticket).await;
	assert!(r.is_ok(), "stop_with_signal(.., Duration::MAX) ticket did not resolve");
	assert!(!task.is_finished(), "the job task ended (panicked) on a huge grace period");
	// the job is still usable
	let r = timeout(Duration::from_secs(5), job.start()).await;
	assert!(r.is_ok(), "the job no longer executes controls");
	job.delete_now().await;
	let _ = task.await;
}

#[tokio::test]
async fn f14_huge_grace_try_restart() {
	let (job, task) = start_job(sh("trap 'exit 0' TERM; while true; do sleep 0.1; done"));
	job.start().await;
	sleep(Duration::from_millis(300)).await;
	let ticket = job.try_restart_with_signal(Signal::Terminate, Duration::MAX);
	let r = timeout(Duration::from_secs(6), ticket).await;
	assert!(r.is_ok(), "try_restart_with_signal(.., Duration::MAX) ticket did not resolve");
	assert!(!task.is_finished(), "the job task ended (panicked) on a huge grace period");
	job.delete_now().await;
	let _ = task.await;
}
