//! F5 demonstration (C12): `--ignore-file` must be honoured whichever ignore-discovery flags are given.
//! Place in crates/cli/tests/ and run:
//!   cargo test -p watchexec-cli --offline --test f5_explicit_ignore_file -- --nocapture
use std::{path::Path, process::Stdio, time::Duration};

use tokio::process::Command;

async fn runs_after(dir: &Path, flags: &[&str], touch: &str) -> usize {
	let bin = option_env!("CARGO_BIN_EXE_watchexec").expect("binary built by cargo");
	let log = dir.join("runs.log");
	let _ = std::fs::remove_file(&log);
	let mut cmd = Command::new(bin);
	cmd.current_dir(dir)
		.arg("--postpone")
		.arg("--ignore-file")
		.arg("custom.ignore")
		.arg("--ignore")
		.arg("runs.log")
		.args(flags)
		.arg("--")
		.arg("sh")
		.arg("-c")
		.arg("echo run >> runs.log")
		.stdin(Stdio::null())
		.stdout(Stdio::null())
		.stderr(Stdio::null())
		.kill_on_drop(true);
	let mut child = cmd.spawn().unwrap();
	tokio::time::sleep(Duration::from_millis(1500)).await;
	std::fs::write(dir.join(touch), format!("{:?}", std::time::Instant::now())).unwrap();
	tokio::time::sleep(Duration::from_millis(1500)).await;
	let _ = child.kill().await;
	std::fs::read_to_string(&log).map(|s| s.lines().count()).unwrap_or(0)
}

#[tokio::test]
async fn f5_ignore_file_is_honoured_under_every_discovery_flag() {
	let dir = std::env::temp_dir().join(format!("wxv-f5-{}", std::process::id()));
	let _ = std::fs::remove_dir_all(&dir);
	std::fs::create_dir_all(&dir).unwrap();
	std::fs::write(dir.join("custom.ignore"), "*.skip\n").unwrap();
	std::fs::write(dir.join("a.txt"), "0").unwrap();
	std::fs::write(dir.join("b.skip"), "0").unwrap();
	let mut failures = Vec::new();
	for flags in [
		&[][..],
		&["--no-vcs-ignore"][..],
		&["--no-project-ignore"][..],
		&["--no-global-ignore"][..],
		&["--no-discover-ignore"][..],
		&["--ignore-nothing"][..],
		&["--no-project-ignore", "--no-global-ignore"][..],
	] {
		// sanity: a non-ignored file triggers a run
		let sane = runs_after(&dir, flags, "a.txt").await;
		// the explicitly ignored file must not
		let ignored = runs_after(&dir, flags, "b.skip").await;
		eprintln!("{flags:?}: a.txt -> {sane} run(s), b.skip -> {ignored} run(s)");
		if sane == 0 {
			failures.push(format!("{flags:?}: watchexec did not react to a.txt (environment problem)"));
		}
		if ignored != 0 {
			failures.push(format!("{flags:?}: a change to b.skip started the command although --ignore-file lists *.skip"));
		}
	}
	let _ = std::fs::remove_dir_all(&dir);
	assert!(failures.is_empty(), "{}", failures.join("\n"));
}
