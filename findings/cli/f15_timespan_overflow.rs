//! F15: a unit-less time span (`--stop-timeout N` = N seconds, `--debounce N` = N milliseconds) is converted with
//! `unitless * MULTIPLIER` in u64 nanoseconds. For N large enough that overflows: a debug build panics while parsing
//! the command line, a release build wraps around, so `--stop-timeout 18446744074` (meant as "practically never
//! force-kill") becomes a grace period of about 0.29 s and the command is killed almost at once.
//! Place in crates/cli/tests/ and run `cargo test -p watchexec-cli --offline --test f15_timespan_overflow`
//! (add `--release` to see the wrapped value instead of the panic on the pre-fix tree).
use std::time::Duration;

use watchexec_cli::args::TimeSpan;

#[test]
fn f15_large_unitless_seconds_do_not_wrap() {
	// 18446744074 s * 1e9 ns/s = 2^64 + 290448384 ns
	let span: TimeSpan = "18446744074".parse().expect("parses");
	assert!(
		span.0 >= Duration::from_secs(18_000_000_000),
		"a huge unit-less span became {:?}",
		span.0
	);
}

#[test]
fn f15_large_unitless_millis_do_not_wrap() {
	let span: TimeSpan<1_000_000> = "18446744073710".parse().expect("parses");
	assert!(
		span.0 >= Duration::from_secs(18_000_000_000),
		"a huge unit-less span became {:?}",
		span.0
	);
}

#[test]
fn f15_ordinary_values_unchanged() {
	let s: TimeSpan = "10".parse().unwrap();
	assert_eq!(s.0, Duration::from_secs(10));
	let ms: TimeSpan<1_000_000> = "50".parse().unwrap();
	assert_eq!(ms.0, Duration::from_millis(50));
	let unit: TimeSpan = "1500ms".parse().unwrap();
	assert_eq!(unit.0, Duration::from_millis(1500));
}
