//! THIR serialisation: the typed expression tree with resolved callees and compiler pattern trees.
use std::cell::RefCell;
use std::collections::HashSet;

use crate::json::J;
use crate::mirx::{def_s, printing, span_line, ty_s};
use rustc_ast::LitKind;
use rustc_hir::def_id::{DefId, LocalDefId};
use rustc_middle::thir::{
    AdtExprBase, BlockId, ExprId, ExprKind, LogicalOp, Pat, PatKind, PatRangeBoundary, StmtKind, Thir,
};
use rustc_middle::ty::print::{with_no_trimmed_paths, with_no_visible_paths, with_resolve_crate_name};
use rustc_middle::ty::{self, Ty, TyCtxt};
use rustc_span::Span;

thread_local! {
    pub static REF_ADTS: RefCell<HashSet<DefId>> = RefCell::new(HashSet::new());
}

fn note_adt(did: DefId) {
    REF_ADTS.with(|r| {
        r.borrow_mut().insert(did);
    });
}

struct T<'a, 'tcx> {
    tcx: TyCtxt<'tcx>,
    thir: &'a Thir<'tcx>,
}

fn line(tcx: TyCtxt<'_>, sp: Span) -> J {
    J::Int(span_line(tcx, sp).1 as i128)
}

pub fn thir_body<'tcx>(tcx: TyCtxt<'tcx>, _def: LocalDefId, thir: &Thir<'tcx>, root: ExprId) -> J {
    let t = T { tcx, thir };
    let params: Vec<J> = thir
        .params
        .iter()
        .map(|p| {
            J::Obj(vec![
                ("ty", J::s(ty_s(p.ty))),
                ("pat", p.pat.as_ref().map(|p| t.pat(p)).unwrap_or(J::Null)),
            ])
        })
        .collect();
    J::Obj(vec![("params", J::Arr(params)), ("root", t.expr(root))])
}

impl<'a, 'tcx> T<'a, 'tcx> {
    fn field_name(&self, ty: Ty<'tcx>, variant: rustc_abi::VariantIdx, f: rustc_abi::FieldIdx) -> J {
        match ty.kind() {
            ty::Adt(adt, _) => adt
                .variants()
                .get(variant)
                .and_then(|v| v.fields.get(f))
                .map(|fd| J::s(fd.name.to_string()))
                .unwrap_or(J::Int(f.as_usize() as i128)),
            _ => J::Int(f.as_usize() as i128),
        }
    }

    fn opt(&self, e: Option<ExprId>) -> J {
        match e {
            Some(e) => self.expr(e),
            None => J::Null,
        }
    }

    fn block(&self, b: BlockId) -> J {
        let blk = &self.thir[b];
        let mut stmts: Vec<J> = Vec::new();
        for s in blk.stmts.iter() {
            match &self.thir[*s].kind {
                StmtKind::Expr { expr, .. } => stmts.push(self.expr(*expr)),
                StmtKind::Let { pattern, initializer, else_block, span, .. } => {
                    stmts.push(J::Obj(vec![
                        ("k", J::s("let")),
                        ("p", self.pat(pattern)),
                        ("i", self.opt(*initializer)),
                        ("else", else_block.map(|b| self.block(b)).unwrap_or(J::Null)),
                        ("l", line(self.tcx, *span)),
                    ]));
                }
            }
        }
        J::Obj(vec![("k", J::s("block")), ("s", J::Arr(stmts)), ("e", self.opt(blk.expr))])
    }

    fn fn_ref(&self, ty: Ty<'tcx>) -> Option<J> {
        if let ty::FnDef(did, args) = ty.kind() {
            let tcx = self.tcx;
            let mut v = vec![
                ("k", J::s("fn")),
                ("def", J::s(def_s(tcx, *did))),
                ("full", J::s(printing!(tcx.def_path_str_with_args(*did, args)))),
            ];
            if let Some(tr) = tcx.trait_of_assoc(*did) {
                v.push(("trait", J::s(def_s(tcx, tr))));
            }
            Some(J::Obj(v))
        } else {
            None
        }
    }

    fn expr(&self, id: ExprId) -> J {
        let tcx = self.tcx;
        let e = &self.thir[id];
        let l = line(tcx, e.span);
        let mac = crate::mirx::macro_chain(e.span);
        let mut o: Vec<(&'static str, J)> = Vec::new();
        macro_rules! k {
            ($name:expr) => {
                o.push(("k", J::s($name)))
            };
        }
        match &e.kind {
            ExprKind::Scope { value, .. } => return self.expr(*value),
            ExprKind::Use { source } | ExprKind::NeverToAny { source } => return self.expr(*source),
            ExprKind::PlaceTypeAscription { source, .. } | ExprKind::ValueTypeAscription { source, .. } => {
                return self.expr(*source)
            }
            ExprKind::PointerCoercion { source, cast, .. } => {
                k!("coerce");
                o.push(("how", J::s(format!("{:?}", cast))));
                o.push(("e", self.expr(*source)));
                o.push(("ty", J::s(ty_s(e.ty))));
            }
            ExprKind::If { cond, then, else_opt, .. } => {
                k!("if");
                o.push(("c", self.expr(*cond)));
                o.push(("t", self.expr(*then)));
                o.push(("e", self.opt(*else_opt)));
            }
            ExprKind::Call { fun, args, from_hir_call, .. } => {
                k!("call");
                o.push(("fn", self.expr(*fun)));
                o.push(("a", J::Arr(args.iter().map(|a| self.expr(*a)).collect())));
                if !*from_hir_call {
                    o.push(("overloaded", J::Bool(true)));
                }
                o.push(("ty", J::s(ty_s(e.ty))));
            }
            ExprKind::ByUse { expr, .. } => return self.expr(*expr),
            ExprKind::Deref { arg } => {
                k!("deref");
                o.push(("e", self.expr(*arg)));
            }
            ExprKind::Binary { op, lhs, rhs } => {
                k!("bin");
                o.push(("op", J::s(format!("{:?}", op))));
                o.push(("a", self.expr(*lhs)));
                o.push(("b", self.expr(*rhs)));
            }
            ExprKind::LogicalOp { op, lhs, rhs } => {
                k!("logic");
                o.push((
                    "op",
                    J::s(match op {
                        LogicalOp::And => "and",
                        LogicalOp::Or => "or",
                    }),
                ));
                o.push(("a", self.expr(*lhs)));
                o.push(("b", self.expr(*rhs)));
            }
            ExprKind::Unary { op, arg } => {
                k!("un");
                o.push(("op", J::s(format!("{:?}", op))));
                o.push(("e", self.expr(*arg)));
            }
            ExprKind::Cast { source } => {
                k!("cast");
                o.push(("e", self.expr(*source)));
                o.push(("ty", J::s(ty_s(e.ty))));
            }
            ExprKind::Loop { body } => {
                k!("loop");
                o.push(("e", self.expr(*body)));
            }
            ExprKind::Let { expr, pat } => {
                k!("letx");
                o.push(("p", self.pat(pat)));
                o.push(("e", self.expr(*expr)));
            }
            ExprKind::Match { scrutinee, arms, match_source } => {
                k!("match");
                let sty = self.thir[*scrutinee].ty;
                if let ty::Adt(a, _) = sty.peel_refs().kind() {
                    note_adt(a.did());
                }
                o.push(("src", J::s(format!("{:?}", match_source))));
                o.push(("sty", J::s(ty_s(sty))));
                o.push(("e", self.expr(*scrutinee)));
                let mut av: Vec<J> = Vec::new();
                for a in arms.iter() {
                    let arm = &self.thir[*a];
                    let (_, l0, _) = span_line(tcx, arm.span);
                    let hi = {
                        let sm = tcx.sess.source_map();
                        sm.lookup_char_pos(arm.span.source_callsite().hi()).line
                    };
                    av.push(J::Obj(vec![
                        ("p", self.pat(&arm.pattern)),
                        ("g", self.opt(arm.guard)),
                        ("b", self.expr(arm.body)),
                        ("l", J::Int(l0 as i128)),
                        ("le", J::Int(hi as i128)),
                    ]));
                }
                o.push(("arms", J::Arr(av)));
            }
            ExprKind::Block { block } => {
                let b = self.block(*block);
                return b;
            }
            ExprKind::Assign { lhs, rhs } => {
                k!("assign");
                o.push(("a", self.expr(*lhs)));
                o.push(("b", self.expr(*rhs)));
            }
            ExprKind::AssignOp { op, lhs, rhs } => {
                k!("assignop");
                o.push(("op", J::s(format!("{:?}", op))));
                o.push(("a", self.expr(*lhs)));
                o.push(("b", self.expr(*rhs)));
            }
            ExprKind::Field { lhs, variant_index, name } => {
                k!("field");
                let lty = self.thir[*lhs].ty;
                o.push(("n", self.field_name(lty, *variant_index, *name)));
                o.push(("e", self.expr(*lhs)));
            }
            ExprKind::Index { lhs, index } => {
                k!("index");
                o.push(("e", self.expr(*lhs)));
                o.push(("i", self.expr(*index)));
            }
            ExprKind::VarRef { id } => {
                k!("var");
                o.push(("n", J::s(tcx.hir_name(id.0).to_string())));
                o.push(("id", J::Int(id.0.local_id.as_u32() as i128)));
                o.push(("ty", J::s(ty_s(e.ty))));
            }
            ExprKind::UpvarRef { var_hir_id, .. } => {
                k!("upvar");
                o.push(("n", J::s(tcx.hir_name(var_hir_id.0).to_string())));
                o.push(("id", J::Int(var_hir_id.0.local_id.as_u32() as i128)));
                o.push(("ty", J::s(ty_s(e.ty))));
            }
            ExprKind::Borrow { borrow_kind, arg } => {
                k!("ref");
                o.push(("m", J::Bool(matches!(borrow_kind, rustc_middle::mir::BorrowKind::Mut { .. }))));
                o.push(("e", self.expr(*arg)));
            }
            ExprKind::RawBorrow { arg, .. } => {
                k!("rawref");
                o.push(("e", self.expr(*arg)));
            }
            ExprKind::Break { value, .. } => {
                k!("break");
                o.push(("e", self.opt(*value)));
            }
            ExprKind::Continue { .. } => {
                k!("continue");
            }
            ExprKind::Return { value } => {
                k!("return");
                o.push(("e", self.opt(*value)));
            }
            ExprKind::Become { value } => {
                k!("become");
                o.push(("e", self.expr(*value)));
            }
            ExprKind::Repeat { value, .. } => {
                k!("repeat");
                o.push(("e", self.expr(*value)));
            }
            ExprKind::Array { fields } => {
                k!("array");
                o.push(("f", J::Arr(fields.iter().map(|f| self.expr(*f)).collect())));
            }
            ExprKind::Tuple { fields } => {
                k!("tuple");
                o.push(("f", J::Arr(fields.iter().map(|f| self.expr(*f)).collect())));
            }
            ExprKind::Adt(adt) => {
                k!("adt");
                note_adt(adt.adt_def.did());
                o.push(("adt", J::s(def_s(tcx, adt.adt_def.did()))));
                let v = adt.adt_def.variant(adt.variant_index);
                o.push(("v", J::s(v.name.to_string())));
                let fs: Vec<J> = adt
                    .fields
                    .iter()
                    .map(|f| {
                        let n = v
                            .fields
                            .get(f.name)
                            .map(|fd| J::s(fd.name.to_string()))
                            .unwrap_or(J::Int(f.name.as_usize() as i128));
                        J::Arr(vec![n, self.expr(f.expr)])
                    })
                    .collect();
                o.push(("f", J::Arr(fs)));
                match &adt.base {
                    AdtExprBase::None => {}
                    AdtExprBase::Base(fru) => o.push(("base", self.expr(fru.base))),
                    AdtExprBase::DefaultFields(_) => o.push(("base", J::s("defaults"))),
                }
            }
            ExprKind::Closure(c) => {
                k!("closure");
                o.push(("def", J::s(def_s(tcx, c.closure_id.to_def_id()))));
                o.push(("upvars", J::Arr(c.upvars.iter().map(|u| self.expr(*u)).collect())));
            }
            ExprKind::Literal { lit, neg } => {
                k!("lit");
                match &lit.node {
                    LitKind::Str(s, _) => o.push(("s", J::s(s.to_string()))),
                    LitKind::ByteStr(b, _) | LitKind::CStr(b, _) => {
                        o.push(("bytes", J::s(String::from_utf8_lossy(b.as_byte_str()).to_string())));
                        o.push((
                            "hex",
                            J::s(b.as_byte_str().iter().map(|x| format!("{:02x}", x)).collect::<String>()),
                        ))
                    }
                    LitKind::Byte(b) => o.push(("i", J::Int(*b as i128))),
                    LitKind::Char(c) => o.push(("c", J::s(c.to_string()))),
                    LitKind::Int(n, _) => {
                        let v = n.get() as i128;
                        o.push(("i", J::Int(if *neg { -v } else { v })));
                    }
                    LitKind::Float(s, _) => o.push(("f", J::s(s.to_string()))),
                    LitKind::Bool(b) => o.push(("b", J::Bool(*b))),
                    LitKind::Err(_) => {}
                }
                o.push(("ty", J::s(ty_s(e.ty))));
            }
            ExprKind::NonHirLiteral { lit, .. } => {
                k!("lit");
                o.push(("i", J::Int(lit.to_bits_unchecked() as i128)));
                o.push(("ty", J::s(ty_s(e.ty))));
            }
            ExprKind::ZstLiteral { .. } => {
                if let Some(f) = self.fn_ref(e.ty) {
                    let mut f = f;
                    if let J::Obj(v) = &mut f {
                        v.push(("l", l));
                    }
                    return f;
                }
                k!("zst");
                o.push(("ty", J::s(ty_s(e.ty))));
            }
            ExprKind::NamedConst { def_id, .. } => {
                k!("const");
                o.push(("def", J::s(def_s(tcx, *def_id))));
                o.push(("ty", J::s(ty_s(e.ty))));
            }
            ExprKind::ConstParam { def_id, .. } => {
                k!("constparam");
                o.push(("def", J::s(def_s(tcx, *def_id))));
            }
            ExprKind::StaticRef { def_id, .. } => {
                k!("static");
                o.push(("def", J::s(def_s(tcx, *def_id))));
            }
            ExprKind::Yield { value } => {
                k!("yield");
                o.push(("e", self.expr(*value)));
            }
            ExprKind::ConstBlock { did, .. } => {
                k!("constblock");
                o.push(("def", J::s(def_s(tcx, *did))));
            }
            ExprKind::ThreadLocalRef(d) => {
                k!("tls");
                o.push(("def", J::s(def_s(tcx, *d))));
            }
            other => {
                k!("other");
                let d = format!("{:?}", other);
                let name: String = d.chars().take_while(|c| c.is_alphanumeric()).collect();
                o.push(("what", J::s(name)));
            }
        }
        o.push(("l", l));
        if let Some(m) = mac {
            o.push(("x", J::s(m)));
        }
        J::Obj(o)
    }

    fn pat(&self, p: &Pat<'tcx>) -> J {
        let tcx = self.tcx;
        let mut o: Vec<(&'static str, J)> = Vec::new();
        match &p.kind {
            PatKind::Missing => o.push(("k", J::s("missing"))),
            PatKind::Wild => o.push(("k", J::s("wild"))),
            PatKind::Binding { name, subpattern, mode, var, .. } => {
                o.push(("k", J::s("bind")));
                o.push(("n", J::s(name.to_string())));
                o.push(("id", J::Int(var.0.local_id.as_u32() as i128)));
                o.push(("mode", J::s(format!("{:?}", mode))));
                if let Some(sp) = subpattern {
                    o.push(("sub", self.pat(sp)));
                }
            }
            PatKind::Variant { adt_def, variant_index, subpatterns, .. } => {
                note_adt(adt_def.did());
                o.push(("k", J::s("variant")));
                o.push(("adt", J::s(def_s(tcx, adt_def.did()))));
                let v = adt_def.variant(*variant_index);
                o.push(("v", J::s(v.name.to_string())));
                let subs: Vec<J> = subpatterns
                    .iter()
                    .map(|fp| {
                        let n = v
                            .fields
                            .get(fp.field)
                            .map(|fd| J::s(fd.name.to_string()))
                            .unwrap_or(J::Int(fp.field.as_usize() as i128));
                        J::Arr(vec![n, self.pat(&fp.pattern)])
                    })
                    .collect();
                o.push(("sub", J::Arr(subs)));
            }
            PatKind::Leaf { subpatterns } => {
                o.push(("k", J::s("leaf")));
                o.push(("ty", J::s(ty_s(p.ty))));
                if let ty::Adt(a, _) = p.ty.kind() {
                    note_adt(a.did());
                }
                let subs: Vec<J> = subpatterns
                    .iter()
                    .map(|fp| {
                        let n = match p.ty.kind() {
                            ty::Adt(adt, _) if !adt.is_enum() => adt
                                .non_enum_variant()
                                .fields
                                .get(fp.field)
                                .map(|fd| J::s(fd.name.to_string()))
                                .unwrap_or(J::Int(fp.field.as_usize() as i128)),
                            _ => J::Int(fp.field.as_usize() as i128),
                        };
                        J::Arr(vec![n, self.pat(&fp.pattern)])
                    })
                    .collect();
                o.push(("sub", J::Arr(subs)));
            }
            PatKind::Deref { subpattern, .. } => {
                o.push(("k", J::s("deref")));
                o.push(("p", self.pat(subpattern)));
            }
            PatKind::DerefPattern { subpattern, .. } => {
                o.push(("k", J::s("derefpat")));
                o.push(("p", self.pat(subpattern)));
            }
            PatKind::Constant { value } => {
                o.push(("k", J::s("const")));
                o.push(("ty", J::s(ty_s(value.ty))));
                let vt = value.valtree;
                if value.ty.peel_refs().is_str() {
                    // `&str` constants and (behind a Deref pattern) bare `str` constants: a branch of u8 leaves
                    let bytes: Option<Vec<u8>> = value.try_to_branch().and_then(|br| {
                        br.iter()
                            .map(|ct| {
                                (*ct).try_to_value().and_then(|v| v.try_to_leaf().map(|leaf| leaf.to_u8()))
                            })
                            .collect::<Option<Vec<u8>>>()
                    });
                    if let Some(bytes) = bytes {
                        o.push(("s", J::s(String::from_utf8_lossy(&bytes).to_string())));
                    }
                } else if let Some(leaf) = vt.try_to_leaf() {
                    let bits = leaf.to_bits_unchecked();
                    if value.ty.is_bool() {
                        o.push(("b", J::Bool(bits != 0)));
                    } else if value.ty.is_signed() {
                        o.push(("i", J::Int(leaf.size().sign_extend(bits) as i128)));
                    } else {
                        o.push(("i", J::Int(bits as i128)));
                    }
                }
                o.push(("v", J::s(printing!(format!("{}", value)))));
            }
            PatKind::Range(r) => {
                o.push(("k", J::s("range")));
                let b = |b: &PatRangeBoundary<'tcx>| match b {
                    PatRangeBoundary::Finite(v) => match v.try_to_leaf() {
                        Some(leaf) => {
                            let bits = leaf.to_bits_unchecked();
                            if r.ty.is_signed() {
                                J::Int(leaf.size().sign_extend(bits) as i128)
                            } else {
                                J::Int(bits as i128)
                            }
                        }
                        None => J::Null,
                    },
                    PatRangeBoundary::NegInfinity => J::s("-inf"),
                    PatRangeBoundary::PosInfinity => J::s("+inf"),
                };
                o.push(("lo", b(&r.lo)));
                o.push(("hi", b(&r.hi)));
                o.push(("end", J::s(format!("{:?}", r.end))));
            }
            PatKind::Slice { prefix, slice, suffix } | PatKind::Array { prefix, slice, suffix } => {
                o.push(("k", J::s("slice")));
                o.push(("pre", J::Arr(prefix.iter().map(|p| self.pat(p)).collect())));
                o.push(("mid", slice.as_ref().map(|p| self.pat(p)).unwrap_or(J::Null)));
                o.push(("suf", J::Arr(suffix.iter().map(|p| self.pat(p)).collect())));
            }
            PatKind::Or { pats } => {
                o.push(("k", J::s("or")));
                o.push(("ps", J::Arr(pats.iter().map(|p| self.pat(p)).collect())));
            }
            PatKind::Guard { subpattern, condition } => {
                o.push(("k", J::s("guard")));
                o.push(("p", self.pat(subpattern)));
                o.push(("g", self.expr(*condition)));
            }
            PatKind::Never => o.push(("k", J::s("never"))),
            PatKind::Error(_) => o.push(("k", J::s("error"))),
        }
        J::Obj(o)
    }
}
