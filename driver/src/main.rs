//! wxfacts: a rustc_private driver that serialises, per compiled crate, the type-checked program
//! (THIR trees, pre-borrowck MIR CFGs, ADT/impl tables) to one JSON fact file.
//!
//! It judges nothing: all rules live in /verif/wxlint (Python). It is injected with
//! RUSTC_WORKSPACE_WRAPPER under `cargo +nightly check`, so it sees the real build's flags.
//!
//! MIR and THIR are captured inside overridden `mir_built` / `thir_body` providers, i.e. at the
//! moment they are first computed, so nothing can have stolen them yet.
#![feature(rustc_private)]
#![allow(clippy::all)]

extern crate rustc_abi;
extern crate rustc_ast;
extern crate rustc_data_structures;
extern crate rustc_driver;
extern crate rustc_hir;
extern crate rustc_interface;
extern crate rustc_middle;
extern crate rustc_session;
extern crate rustc_span;

mod json;
mod mirx;
mod thirx;
mod tables;

use std::cell::RefCell;
use std::sync::OnceLock;

use json::J;
use rustc_data_structures::steal::Steal;
use rustc_driver::Compilation;
use rustc_hir::def::DefKind;
use rustc_hir::def_id::{DefId, LocalDefId};
use rustc_interface::interface;
use rustc_middle::mir::Body;
use rustc_middle::thir::{ExprId, Thir};
use rustc_middle::ty::TyCtxt;
use rustc_middle::util::Providers;
use rustc_span::ErrorGuaranteed;

type MirBuiltFn = for<'tcx> fn(TyCtxt<'tcx>, LocalDefId) -> &'tcx Steal<Body<'tcx>>;
type ThirBodyFn = for<'tcx> fn(
    TyCtxt<'tcx>,
    LocalDefId,
) -> Result<(&'tcx Steal<Thir<'tcx>>, ExprId), ErrorGuaranteed>;

static ORIG_MIR_BUILT: OnceLock<MirBuiltFn> = OnceLock::new();
static ORIG_THIR_BODY: OnceLock<ThirBodyFn> = OnceLock::new();

thread_local! {
    // Bodies are arena-independent clones; the 'static is a lie that is safe because they are only
    // used inside `after_analysis`, while the TyCtxt that owns the interned data is alive.
    static MIRS: RefCell<Vec<(LocalDefId, Body<'static>)>> = RefCell::new(Vec::new());
    static THIRS: RefCell<Vec<(LocalDefId, J)>> = RefCell::new(Vec::new());
}

fn my_mir_built<'tcx>(tcx: TyCtxt<'tcx>, def: LocalDefId) -> &'tcx Steal<Body<'tcx>> {
    let r = (ORIG_MIR_BUILT.get().expect("orig mir_built"))(tcx, def);
    let body: Body<'tcx> = r.borrow().clone();
    let body: Body<'static> = unsafe { std::mem::transmute(body) };
    MIRS.with(|m| m.borrow_mut().push((def, body)));
    r
}

fn my_thir_body<'tcx>(
    tcx: TyCtxt<'tcx>,
    def: LocalDefId,
) -> Result<(&'tcx Steal<Thir<'tcx>>, ExprId), ErrorGuaranteed> {
    let r = (ORIG_THIR_BODY.get().expect("orig thir_body"))(tcx, def);
    if let Ok((steal, root)) = &r {
        let kind = tcx.def_kind(def);
        if matches!(kind, DefKind::Fn | DefKind::AssocFn | DefKind::Closure | DefKind::Const { .. } | DefKind::AssocConst { .. } | DefKind::Static { .. }) {
            let thir = steal.borrow();
            let j = std::panic::catch_unwind(std::panic::AssertUnwindSafe(|| {
                thirx::thir_body(tcx, def, &thir, *root)
            }))
            .unwrap_or_else(|_| J::Obj(vec![("error", J::s("panic while serialising THIR"))]));
            THIRS.with(|t| t.borrow_mut().push((def, j)));
        }
    }
    r
}

struct Cb;

impl rustc_driver::Callbacks for Cb {
    fn config(&mut self, config: &mut interface::Config) {
        config.override_queries = Some(|_sess, providers: &mut Providers| {
            let _ = ORIG_MIR_BUILT.set(providers.queries.mir_built);
            let _ = ORIG_THIR_BODY.set(providers.queries.thir_body);
            providers.queries.mir_built = my_mir_built;
            providers.queries.thir_body = my_thir_body;
        });
    }

    fn after_analysis<'tcx>(
        &mut self,
        _compiler: &interface::Compiler,
        tcx: TyCtxt<'tcx>,
    ) -> Compilation {
        let Ok(dir) = std::env::var("WXV_FACTS_DIR") else {
            return Compilation::Continue;
        };
        let crate_name = tcx.crate_name(rustc_hir::def_id::LOCAL_CRATE).to_string();
        if crate_name.starts_with("build_script") {
            return Compilation::Continue;
        }
        let crate_types: Vec<String> =
            tcx.crate_types().iter().map(|t| format!("{:?}", t).to_lowercase()).collect();
        let is_test = tcx.sess.is_test_crate();

        // make sure every body owner was built (cargo check does this through borrowck, but be
        // explicit so a future change of pipeline cannot silently drop bodies)
        for def in tcx.hir_body_owners() {
            let kind = tcx.def_kind(def);
            if matches!(kind, DefKind::Fn | DefKind::AssocFn | DefKind::Closure) {
                let _ = tcx.mir_built(def);
            } else if matches!(kind, DefKind::Const { .. } | DefKind::AssocConst { .. } | DefKind::Static { .. }) {
                let _ = tcx.thir_body(def);
            }
        }

        let mut cx = mirx::Cx::new(tcx);
        let mirs: Vec<(LocalDefId, Body<'static>)> = MIRS.with(|m| std::mem::take(&mut *m.borrow_mut()));
        let thirs: Vec<(LocalDefId, J)> = THIRS.with(|t| std::mem::take(&mut *t.borrow_mut()));

        let mut fns: Vec<J> = Vec::new();
        let mut n_bodies = 0usize;
        let mut n_blocks = 0usize;
        let mut thir_map: std::collections::HashMap<LocalDefId, J> = thirs.into_iter().collect();
        for (def, body) in mirs.iter() {
            let kind = tcx.def_kind(*def);
            if !matches!(kind, DefKind::Fn | DefKind::AssocFn | DefKind::Closure) {
                continue;
            }
            // shrink the fake 'static back to 'tcx
            let body: &Body<'tcx> = unsafe { std::mem::transmute::<&Body<'static>, &Body<'tcx>>(body) };
            n_bodies += 1;
            n_blocks += body.basic_blocks.len();
            let thir = thir_map.remove(def).unwrap_or(J::Null);
            let j = std::panic::catch_unwind(std::panic::AssertUnwindSafe(|| {
                mirx::fn_record(&mut cx, *def, body, thir)
            }))
            .unwrap_or_else(|_| {
                J::Obj(vec![
                    ("def", J::s(cx.def_s(def.to_def_id()))),
                    ("error", J::s("panic while serialising MIR")),
                ])
            });
            fns.push(j);
        }

        // initialisers of const / static items (tables that a loop may iterate over)
        let mut consts: Vec<J> = Vec::new();
        let mut rest: Vec<(LocalDefId, J)> = thir_map.into_iter().collect();
        rest.sort_by_key(|(d, _)| d.local_def_index.as_u32());
        for (def, j) in rest {
            if matches!(tcx.def_kind(def), DefKind::Const { .. } | DefKind::AssocConst { .. } | DefKind::Static { .. }) {
                consts.push(J::Obj(vec![("def", J::s(cx.def_s(def.to_def_id()))), ("thir", j)]));
            }
        }

        let (adts, impls) = tables::tables(&mut cx);

        let out = J::Obj(vec![
            ("crate", J::s(crate_name.clone())),
            ("crate_types", J::Arr(crate_types.iter().map(|s| J::s(s.clone())).collect())),
            ("is_test", J::Bool(is_test)),
            ("tree_hash", J::s(std::env::var("WXV_TREE_HASH").unwrap_or_default())),
            ("config", J::s(std::env::var("WXV_CONFIG").unwrap_or_else(|_| "default".into()))),
            ("n_bodies", J::Int(n_bodies as i128)),
            ("n_blocks", J::Int(n_blocks as i128)),
            ("macros", J::Arr(cx.macro_table())),
            ("files", J::Arr(cx.file_table())),
            ("adts", J::Arr(adts)),
            ("impls", J::Arr(impls)),
            ("fns", J::Arr(fns)),
            ("consts", J::Arr(consts)),
        ]);
        let mut s = String::with_capacity(1 << 24);
        out.write(&mut s);
        let kind = crate_types.first().cloned().unwrap_or_else(|| "x".into());
        let path = format!("{}/{}.{}{}.json", dir, crate_name, kind, if is_test { ".test" } else { "" });
        let tmp = format!("{}.tmp{}", path, std::process::id());
        std::fs::write(&tmp, s).expect("write facts");
        std::fs::rename(&tmp, &path).expect("rename facts");
        Compilation::Continue
    }
}

pub fn def_kind_fnlike(tcx: TyCtxt<'_>, did: DefId) -> bool {
    matches!(tcx.def_kind(did), DefKind::Fn | DefKind::AssocFn | DefKind::Closure | DefKind::Ctor(..))
}

fn main() {
    let mut args: Vec<String> = std::env::args().collect();
    // RUSTC_WORKSPACE_WRAPPER passes the real rustc path as argv[1]
    if args.len() > 1 && (args[1].ends_with("rustc") || args[1].contains("/rustc")) {
        args.remove(1);
    }
    rustc_driver::install_ice_hook("https://example.invalid/wxfacts", |_| ());
    rustc_driver::run_compiler(&args, &mut Cb);
}
