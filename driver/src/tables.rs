//! ADT and impl tables.
use std::collections::HashSet;

use crate::json::J;
use crate::mirx::{def_s, printing, ty_s, Cx};
use rustc_hir::def::DefKind;
use rustc_hir::def_id::DefId;
use rustc_middle::ty::print::{with_no_trimmed_paths, with_no_visible_paths, with_resolve_crate_name, PrintTraitRefExt};
use rustc_middle::ty::{self, TyCtxt};
use rustc_span::sym;

pub fn doc_of(tcx: TyCtxt<'_>, did: DefId) -> String {
    let mut out = String::new();
    for a in tcx.get_all_attrs(did) {
        if let Some(s) = a.doc_str() {
            if !out.is_empty() {
                out.push('\n');
            }
            out.push_str(s.as_str());
        }
    }
    out
}

fn trait_ids(tcx: TyCtxt<'_>) -> Vec<(&'static str, DefId)> {
    let mut v = Vec::new();
    let mut add = |n: &'static str, d: Option<DefId>| {
        if let Some(d) = d {
            v.push((n, d));
        }
    };
    add("Debug", tcx.get_diagnostic_item(sym::Debug));
    add("Display", tcx.get_diagnostic_item(sym::Display));
    add("Clone", tcx.lang_items().clone_trait());
    add("Copy", tcx.lang_items().copy_trait());
    add("PartialEq", tcx.get_diagnostic_item(sym::PartialEq));
    add("Eq", tcx.get_diagnostic_item(sym::Eq));
    add("PartialOrd", tcx.get_diagnostic_item(sym::PartialOrd));
    add("Ord", tcx.get_diagnostic_item(sym::Ord));
    add("Hash", tcx.get_diagnostic_item(sym::Hash));
    add("Default", tcx.get_diagnostic_item(sym::Default));
    add("Drop", tcx.lang_items().drop_trait());
    add("Future", tcx.lang_items().future_trait());
    v
}

fn adt_json<'tcx>(tcx: TyCtxt<'tcx>, did: DefId, traits: &[(&'static str, DefId)], more: &mut HashSet<DefId>) -> J {
    let adt = tcx.adt_def(did);
    let mut o: Vec<(&'static str, J)> = Vec::new();
    o.push(("path", J::s(def_s(tcx, did))));
    o.push(("krate", J::s(tcx.crate_name(did.krate).to_string())));
    o.push(("local", J::Bool(did.is_local())));
    o.push((
        "kind",
        J::s(if adt.is_enum() {
            "enum"
        } else if adt.is_union() {
            "union"
        } else {
            "struct"
        }),
    ));
    o.push(("vis", J::s(format!("{:?}", tcx.visibility(did)))));
    if did.is_local() {
        let d = doc_of(tcx, did);
        if !d.is_empty() {
            o.push(("doc", J::s(d)));
        }
    }
    let discrs: Vec<(rustc_abi::VariantIdx, i128)> = if adt.is_enum() {
        adt.discriminants(tcx)
            .map(|(vi, d)| {
                let signed = d.ty.is_signed();
                let val = if signed {
                    let size = rustc_abi::Size::from_bits(match d.ty.kind() {
                        ty::Int(ity) => ity.bit_width().unwrap_or(64),
                        _ => 64,
                    });
                    size.sign_extend(d.val) as i128
                } else {
                    d.val as i128
                };
                (vi, val)
            })
            .collect()
    } else {
        Vec::new()
    };
    let mut vs: Vec<J> = Vec::new();
    for (vi, v) in adt.variants().iter_enumerated() {
        let mut vo: Vec<(&'static str, J)> = Vec::new();
        vo.push(("name", J::s(v.name.to_string())));
        vo.push(("idx", J::Int(vi.as_usize() as i128)));
        if let Some((_, d)) = discrs.iter().find(|(i, _)| *i == vi) {
            vo.push(("discr", J::Int(*d)));
        }
        vo.push(("ctor", J::s(format!("{:?}", v.ctor_kind()))));
        let d = doc_of(tcx, v.def_id);
        if !d.is_empty() {
            vo.push(("doc", J::s(d)));
        }
        let fs: Vec<J> = v
            .fields
            .iter()
            .map(|f| {
                let fty = tcx.type_of(f.did).instantiate_identity().skip_norm_wip();
                if let ty::Adt(a, _) = fty.peel_refs().kind() {
                    more.insert(a.did());
                }
                J::Obj(vec![
                    ("name", J::s(f.name.to_string())),
                    ("ty", J::s(ty_s(fty))),
                    (
                        "adt",
                        match fty.kind() {
                            ty::Adt(a, _) => J::s(def_s(tcx, a.did())),
                            _ => J::Null,
                        },
                    ),
                    ("vis", J::s(format!("{:?}", f.vis))),
                ])
            })
            .collect();
        vo.push(("fields", J::Arr(fs)));
        vs.push(J::Obj(vo));
    }
    o.push(("variants", J::Arr(vs)));
    // trait impls of interest: derived or manual
    let self_ty = tcx.type_of(did).instantiate_identity().skip_norm_wip();
    let mut ti: Vec<J> = Vec::new();
    for (name, tr) in traits {
        let r = std::panic::catch_unwind(std::panic::AssertUnwindSafe(|| {
            let mut found: Vec<(DefId, bool)> = Vec::new();
            for imp in tcx.non_blanket_impls_for_ty(*tr, self_ty) {
                found.push((imp, tcx.is_automatically_derived(imp)));
            }
            found
        }));
        if let Ok(found) = r {
            for (imp, derived) in found {
                ti.push(J::Obj(vec![
                    ("trait", J::s(*name)),
                    ("derived", J::Bool(derived)),
                    ("impl", J::s(def_s(tcx, imp))),
                ]));
            }
        }
    }
    o.push(("traits", J::Arr(ti)));
    J::Obj(o)
}

pub fn tables<'tcx>(cx: &mut Cx<'tcx>) -> (Vec<J>, Vec<J>) {
    let tcx = cx.tcx;
    let traits = trait_ids(tcx);
    let mut todo: HashSet<DefId> = cx.ref_adts.clone();
    crate::thirx::REF_ADTS.with(|r| {
        for d in r.borrow().iter() {
            todo.insert(*d);
        }
    });
    let mut impls: Vec<J> = Vec::new();
    for ld in tcx.hir_crate_items(()).definitions() {
        match tcx.def_kind(ld) {
            DefKind::Struct | DefKind::Enum | DefKind::Union => {
                todo.insert(ld.to_def_id());
            }
            DefKind::Impl { of_trait } => {
                let did = ld.to_def_id();
                let self_ty = tcx.type_of(did).instantiate_identity().skip_norm_wip();
                let mut o: Vec<(&'static str, J)> = Vec::new();
                o.push(("impl", J::s(def_s(tcx, did))));
                o.push(("self_ty", J::s(ty_s(self_ty))));
                if of_trait {
                    let tr = tcx.impl_trait_ref(did).instantiate_identity().skip_norm_wip();
                    o.push(("trait", J::s(printing!(format!("{}", tr.print_only_trait_path())))));
                    o.push(("trait_def", J::s(def_s(tcx, tr.def_id))));
                }
                o.push(("derived", J::Bool(tcx.is_automatically_derived(did))));
                let items: Vec<J> = tcx
                    .associated_item_def_ids(did)
                    .iter()
                    .map(|i| J::s(def_s(tcx, *i)))
                    .collect();
                o.push(("items", J::Arr(items)));
                impls.push(J::Obj(o));
            }
            _ => {}
        }
    }
    let mut done: HashSet<DefId> = HashSet::new();
    let mut out: Vec<J> = Vec::new();
    let mut depth = 0;
    while !todo.is_empty() && depth < 4 {
        let mut more: HashSet<DefId> = HashSet::new();
        for d in todo.iter() {
            if done.contains(d) {
                continue;
            }
            done.insert(*d);
            if !matches!(tcx.def_kind(*d), DefKind::Struct | DefKind::Enum | DefKind::Union) {
                continue;
            }
            let j = std::panic::catch_unwind(std::panic::AssertUnwindSafe(|| adt_json(tcx, *d, &traits, &mut more)));
            if let Ok(j) = j {
                out.push(j);
            }
        }
        // only follow field ADTs of enums/structs that are local or already shallow
        todo = more.into_iter().filter(|d| !done.contains(d)).collect();
        depth += 1;
    }
    (out, impls)
}
