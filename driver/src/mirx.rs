//! MIR (mir_built stage) serialisation.
use std::collections::{HashMap, HashSet};

use crate::json::J;
use rustc_hir::def::DefKind;
use rustc_hir::def_id::{DefId, LocalDefId};
use rustc_middle::mir::{
    AggregateKind, BasicBlock, Body, BorrowKind, Const, Operand, Place, PlaceElem, PlaceRef,
    ProjectionElem, Rvalue, StatementKind, TerminatorKind, UnwindAction, VarDebugInfoContents,
};
use rustc_middle::ty::print::{with_no_trimmed_paths, with_no_visible_paths, with_resolve_crate_name, PrintTraitRefExt};
use rustc_middle::ty::{self, GenericArgsRef, Ty, TyCtxt};
use rustc_span::Span;

pub struct Cx<'tcx> {
    pub tcx: TyCtxt<'tcx>,
    macros: Vec<String>,
    macro_ix: HashMap<String, usize>,
    files: Vec<String>,
    file_ix: HashMap<String, usize>,
    pub ref_adts: HashSet<DefId>,
}

macro_rules! printing {
    ($e:expr) => {
        with_resolve_crate_name!(with_no_trimmed_paths!(with_no_visible_paths!($e)))
    };
}
pub(crate) use printing;

pub fn def_s(tcx: TyCtxt<'_>, did: DefId) -> String {
    printing!(tcx.def_path_str(did))
}
pub fn ty_s(ty: Ty<'_>) -> String {
    printing!(format!("{}", ty))
}

pub fn span_line(tcx: TyCtxt<'_>, span: Span) -> (String, usize, usize) {
    let sp = span.source_callsite();
    let sm = tcx.sess.source_map();
    let loc = sm.lookup_char_pos(sp.lo());
    let name = printing!(format!("{}", loc.file.name.prefer_local_unconditionally()));
    (name, loc.line, loc.col.0 + 1)
}

pub fn macro_chain(span: Span) -> Option<String> {
    if !span.from_expansion() {
        return None;
    }
    let mut names: Vec<String> = Vec::new();
    for e in span.macro_backtrace() {
        let n = match e.kind {
            rustc_span::ExpnKind::Macro(_, name) => name.to_string(),
            rustc_span::ExpnKind::Desugaring(d) => format!("desugar:{:?}", d),
            rustc_span::ExpnKind::AstPass(p) => format!("astpass:{:?}", p),
            rustc_span::ExpnKind::Root => "root".to_string(),
        };
        if names.last() != Some(&n) {
            names.push(n);
        }
    }
    Some(names.join("<"))
}

impl<'tcx> Cx<'tcx> {
    pub fn new(tcx: TyCtxt<'tcx>) -> Self {
        Cx {
            tcx,
            macros: vec![String::new()],
            macro_ix: HashMap::new(),
            files: Vec::new(),
            file_ix: HashMap::new(),
            ref_adts: HashSet::new(),
        }
    }
    pub fn def_s(&self, did: DefId) -> String {
        def_s(self.tcx, did)
    }
    pub fn macro_table(&self) -> Vec<J> {
        self.macros.iter().map(|s| J::s(s.clone())).collect()
    }
    pub fn file_table(&self) -> Vec<J> {
        self.files.iter().map(|s| J::s(s.clone())).collect()
    }
    fn macro_id(&mut self, span: Span) -> usize {
        match macro_chain(span) {
            None => 0,
            Some(s) => {
                if let Some(i) = self.macro_ix.get(&s) {
                    *i
                } else {
                    let i = self.macros.len();
                    self.macros.push(s.clone());
                    self.macro_ix.insert(s, i);
                    i
                }
            }
        }
    }
    fn file_id(&mut self, name: String) -> usize {
        if let Some(i) = self.file_ix.get(&name) {
            *i
        } else {
            let i = self.files.len();
            self.files.push(name.clone());
            self.file_ix.insert(name, i);
            i
        }
    }
    /// [line, macro_chain_id]
    fn sp(&mut self, span: Span) -> (J, J) {
        let (_, line, _) = span_line(self.tcx, span);
        let m = self.macro_id(span);
        (J::Int(line as i128), J::Int(m as i128))
    }
    pub fn note_ty(&mut self, ty: Ty<'tcx>) {
        if let ty::Adt(adt, _) = ty.peel_refs().kind() {
            self.ref_adts.insert(adt.did());
        }
    }
}

pub fn callee_json<'tcx>(
    cx: &mut Cx<'tcx>,
    owner: Option<LocalDefId>,
    did: DefId,
    args: GenericArgsRef<'tcx>,
) -> J {
    let tcx = cx.tcx;
    let mut v: Vec<(&'static str, J)> = Vec::new();
    v.push(("def", J::s(def_s(tcx, did))));
    v.push(("krate", J::s(tcx.crate_name(did.krate).to_string())));
    let full = printing!(tcx.def_path_str_with_args(did, args));
    v.push(("full", J::s(full)));
    if !args.is_empty() {
        v.push((
            "args",
            J::Arr(args.iter().map(|a| J::s(printing!(format!("{}", a)))).collect()),
        ));
    }
    // trait method?
    if let Some(tr) = tcx.trait_of_assoc(did) {
        v.push(("trait", J::s(def_s(tcx, tr))));
        if let Some(owner) = owner {
            let env = ty::TypingEnv::post_analysis(tcx, owner);
            let r = std::panic::catch_unwind(std::panic::AssertUnwindSafe(|| {
                ty::Instance::try_resolve(tcx, env, did, args)
            }));
            if let Ok(Ok(Some(inst))) = r {
                let rd = inst.def_id();
                if rd != did {
                    v.push(("res", J::s(def_s(tcx, rd))));
                    if let ty::InstanceKind::Virtual(..) = inst.def {
                        v.push(("dyn", J::Bool(true)));
                    }
                } else if let ty::InstanceKind::Virtual(..) = inst.def {
                    v.push(("dyn", J::Bool(true)));
                }
            }
        }
    } else if let Some(imp) = tcx.inherent_impl_of_assoc(did) {
        let self_ty = tcx.type_of(imp).instantiate_identity().skip_norm_wip();
        v.push(("self", J::s(ty_s(self_ty))));
    }
    J::Obj(v)
}

fn place_json<'tcx>(cx: &mut Cx<'tcx>, body: &Body<'tcx>, place: PlaceRef<'tcx>) -> J {
    let tcx = cx.tcx;
    let mut out: Vec<J> = vec![J::Int(place.local.as_usize() as i128)];
    let mut pty = rustc_middle::mir::PlaceTy::from_ty(body.local_decls[place.local].ty);
    for elem in place.projection.iter() {
        let j = match elem {
            ProjectionElem::Deref => J::s("*"),
            ProjectionElem::Field(f, _) => {
                let name: Option<String> = match pty.ty.kind() {
                    ty::Adt(adt, _) => {
                        let vi = pty.variant_index.unwrap_or(rustc_abi::FIRST_VARIANT);
                        if adt.is_enum() || adt.is_struct() || adt.is_union() {
                            adt.variants().get(vi).and_then(|v| v.fields.get(*f)).map(|fd| fd.name.to_string())
                        } else {
                            None
                        }
                    }
                    _ => None,
                };
                J::Arr(vec![J::s("f"), J::Int(f.as_usize() as i128), J::opt_s(name)])
            }
            ProjectionElem::Downcast(name, vi) => {
                let n = name.map(|s| s.to_string()).or_else(|| match pty.ty.kind() {
                    ty::Adt(adt, _) => adt.variants().get(*vi).map(|v| v.name.to_string()),
                    _ => None,
                });
                J::Arr(vec![J::s("d"), J::Int(vi.as_usize() as i128), J::opt_s(n)])
            }
            ProjectionElem::Index(l) => J::Arr(vec![J::s("i"), J::Int(l.as_usize() as i128)]),
            ProjectionElem::ConstantIndex { offset, from_end, .. } => {
                J::Arr(vec![J::s("ci"), J::Int(*offset as i128), J::Bool(*from_end)])
            }
            ProjectionElem::Subslice { from, to, from_end } => {
                J::Arr(vec![J::s("ss"), J::Int(*from as i128), J::Int(*to as i128), J::Bool(*from_end)])
            }
            ProjectionElem::OpaqueCast(_) => J::s("opaque"),
            ProjectionElem::UnwrapUnsafeBinder(_) => J::s("unbind"),
        };
        out.push(j);
        pty = pty.projection_ty(tcx, *elem);
    }
    J::Arr(out)
}

fn pj<'tcx>(cx: &mut Cx<'tcx>, body: &Body<'tcx>, p: &Place<'tcx>) -> J {
    place_json(cx, body, p.as_ref())
}

fn const_json<'tcx>(cx: &mut Cx<'tcx>, owner: LocalDefId, c: &Const<'tcx>) -> J {
    let tcx = cx.tcx;
    let ty = c.ty();
    let mut v: Vec<(&'static str, J)> = Vec::new();
    match ty.kind() {
        ty::FnDef(did, args) => {
            v.push(("fn", callee_json(cx, Some(owner), *did, args)));
            return J::Obj(v);
        }
        _ => {}
    }
    v.push(("ty", J::s(ty_s(ty))));
    let shown = printing!(format!("{}", c));
    v.push(("v", J::s(shown)));
    match c {
        Const::Val(rustc_middle::mir::ConstValue::Scalar(rustc_middle::mir::interpret::Scalar::Int(i)), _) => {
            if ty.is_bool() {
                v.push(("b", J::Bool(i.to_bits_unchecked() != 0)));
            } else if ty.is_integral() || ty.is_char() {
                let bits = i.to_bits_unchecked();
                if ty.is_signed() {
                    let size = i.size();
                    v.push(("i", J::Int(size.sign_extend(bits) as i128)));
                } else {
                    v.push(("i", J::Int(bits as i128)));
                }
            }
        }
        Const::Unevaluated(u, _) => {
            v.push(("unevaluated", J::s(def_s(tcx, u.def))));
        }
        _ => {}
    }
    J::Obj(v)
}

fn op_json<'tcx>(cx: &mut Cx<'tcx>, owner: LocalDefId, body: &Body<'tcx>, op: &Operand<'tcx>) -> J {
    match op {
        Operand::Copy(p) => J::Arr(vec![J::s("c"), pj(cx, body, p)]),
        Operand::Move(p) => J::Arr(vec![J::s("m"), pj(cx, body, p)]),
        Operand::Constant(c) => J::Arr(vec![J::s("k"), const_json(cx, owner, &c.const_)]),
        #[allow(unreachable_patterns)]
        _ => J::Arr(vec![J::s("rt")]),
    }
}

fn rvalue_json<'tcx>(cx: &mut Cx<'tcx>, owner: LocalDefId, body: &Body<'tcx>, rv: &Rvalue<'tcx>) -> J {
    let tcx = cx.tcx;
    match rv {
        Rvalue::Use(op, ..) => J::Arr(vec![J::s("use"), op_json(cx, owner, body, op)]),
        Rvalue::Ref(_, bk, p) => {
            let k = match bk {
                BorrowKind::Shared => "shared",
                BorrowKind::Fake(_) => "fake",
                BorrowKind::Mut { .. } => "mut",
            };
            J::Arr(vec![J::s("ref"), J::s(k), pj(cx, body, p)])
        }
        Rvalue::RawPtr(_, p) => J::Arr(vec![J::s("raw"), pj(cx, body, p)]),
        Rvalue::Cast(kind, op, ty) => J::Arr(vec![
            J::s("cast"),
            J::s(format!("{:?}", kind)),
            op_json(cx, owner, body, op),
            J::s(ty_s(*ty)),
        ]),
        Rvalue::BinaryOp(op, ab) => J::Arr(vec![
            J::s("bin"),
            J::s(format!("{:?}", op)),
            op_json(cx, owner, body, &ab.0),
            op_json(cx, owner, body, &ab.1),
        ]),
        Rvalue::UnaryOp(op, a) => {
            J::Arr(vec![J::s("un"), J::s(format!("{:?}", op)), op_json(cx, owner, body, a)])
        }
        Rvalue::Discriminant(p) => {
            let pty = p.ty(&body.local_decls, tcx).ty;
            cx.note_ty(pty);
            let adt = match pty.kind() {
                ty::Adt(a, _) => J::s(def_s(tcx, a.did())),
                _ => J::s(ty_s(pty)),
            };
            J::Arr(vec![J::s("discr"), pj(cx, body, p), adt])
        }
        Rvalue::Aggregate(kind, ops) => {
            let k = match &**kind {
                AggregateKind::Array(_) => J::Arr(vec![J::s("array")]),
                AggregateKind::Tuple => J::Arr(vec![J::s("tuple")]),
                AggregateKind::Adt(did, vi, _, _, _) => {
                    cx.ref_adts.insert(*did);
                    let adt = tcx.adt_def(*did);
                    let vname = adt.variants().get(*vi).map(|v| v.name.to_string());
                    let fields: Vec<J> = adt
                        .variants()
                        .get(*vi)
                        .map(|v| v.fields.iter().map(|f| J::s(f.name.to_string())).collect())
                        .unwrap_or_default();
                    J::Arr(vec![
                        J::s("adt"),
                        J::s(def_s(tcx, *did)),
                        J::opt_s(vname),
                        J::Int(vi.as_usize() as i128),
                        J::Arr(fields),
                    ])
                }
                AggregateKind::Closure(did, _) => J::Arr(vec![J::s("closure"), J::s(def_s(tcx, *did))]),
                AggregateKind::Coroutine(did, _) => J::Arr(vec![J::s("coroutine"), J::s(def_s(tcx, *did))]),
                AggregateKind::CoroutineClosure(did, _) => {
                    J::Arr(vec![J::s("coroutine_closure"), J::s(def_s(tcx, *did))])
                }
                AggregateKind::RawPtr(..) => J::Arr(vec![J::s("rawptr")]),
            };
            let os: Vec<J> = ops.iter().map(|o| op_json(cx, owner, body, o)).collect();
            J::Arr(vec![J::s("agg"), k, J::Arr(os)])
        }
        Rvalue::CopyForDeref(p) => J::Arr(vec![J::s("cfd"), pj(cx, body, p)]),
        Rvalue::Repeat(op, _) => J::Arr(vec![J::s("repeat"), op_json(cx, owner, body, op)]),
        Rvalue::ThreadLocalRef(d) => J::Arr(vec![J::s("tls"), J::s(def_s(tcx, *d))]),
        other => J::Arr(vec![J::s("other"), J::s(format!("{:?}", other))]),
    }
}

fn bb(b: BasicBlock) -> J {
    J::Int(b.as_usize() as i128)
}
fn unwind_j(u: &UnwindAction) -> J {
    match u {
        UnwindAction::Cleanup(b) => bb(*b),
        _ => J::Null,
    }
}

pub fn fn_record<'tcx>(cx: &mut Cx<'tcx>, def: LocalDefId, body: &Body<'tcx>, thir: J) -> J {
    let tcx = cx.tcx;
    let did = def.to_def_id();
    let kind = tcx.def_kind(def);
    let mut rec: Vec<(&'static str, J)> = Vec::new();
    rec.push(("def", J::s(def_s(tcx, did))));
    let k = match kind {
        DefKind::Fn => "fn",
        DefKind::AssocFn => "method",
        DefKind::Closure => {
            if tcx.coroutine_kind(did).is_some() {
                "coroutine"
            } else {
                "closure"
            }
        }
        _ => "other",
    };
    rec.push(("kind", J::s(k)));
    if let Some(ck) = tcx.coroutine_kind(did) {
        rec.push(("coroutine_kind", J::s(format!("{:?}", ck))));
    }
    let parent = tcx.parent(did);
    rec.push(("parent", J::s(def_s(tcx, parent))));
    if matches!(kind, DefKind::Fn | DefKind::AssocFn) {
        rec.push(("vis", J::s(format!("{:?}", tcx.visibility(did)))));
        rec.push(("asyncness", J::Bool(tcx.asyncness(did).is_async())));
        rec.push(("constness", J::Bool(tcx.is_const_fn(did))));
        let docs = crate::tables::doc_of(tcx, did);
        if !docs.is_empty() {
            rec.push(("doc", J::s(docs)));
        }
        if let Some(imp) = tcx.inherent_impl_of_assoc(did) {
            let self_ty = tcx.type_of(imp).instantiate_identity().skip_norm_wip();
            rec.push(("self_ty", J::s(ty_s(self_ty))));
            cx.note_ty(self_ty);
        } else if let Some(imp) = tcx.trait_impl_of_assoc(did) {
            let tr = tcx.impl_trait_ref(imp).instantiate_identity().skip_norm_wip();
            rec.push(("impl_trait", J::s(printing!(format!("{}", tr.print_only_trait_path())))));
            rec.push(("self_ty", J::s(ty_s(tr.self_ty()))));
        }
    }
    let (file, line, _) = span_line(tcx, body.span);
    let fid = cx.file_id(file);
    rec.push(("file", J::Int(fid as i128)));
    rec.push(("line", J::Int(line as i128)));
    let (_, end_line, _) = {
        let sm = tcx.sess.source_map();
        let loc = sm.lookup_char_pos(body.span.source_callsite().hi());
        (0, loc.line, 0)
    };
    rec.push(("end_line", J::Int(end_line as i128)));
    rec.push(("arg_count", J::Int(body.arg_count as i128)));

    // captures (closures / coroutines)
    if kind == DefKind::Closure {
        let caps: Vec<J> = tcx
            .closure_captures(def)
            .iter()
            .map(|c| {
                let name = c.to_string(tcx);
                let by = match c.info.capture_kind {
                    ty::UpvarCapture::ByValue => "value",
                    ty::UpvarCapture::ByUse => "use",
                    ty::UpvarCapture::ByRef(ty::BorrowKind::Immutable) => "ref",
                    ty::UpvarCapture::ByRef(ty::BorrowKind::UniqueImmutable) => "uniq",
                    ty::UpvarCapture::ByRef(ty::BorrowKind::Mutable) => "mut",
                };
                let t = c.place.ty();
                cx.note_ty(t);
                J::Arr(vec![J::s(name), J::s(by), J::s(ty_s(t))])
            })
            .collect();
        rec.push(("captures", J::Arr(caps)));
    }

    // locals
    let locals: Vec<J> = body
        .local_decls
        .iter()
        .map(|d| {
            cx.note_ty(d.ty);
            J::s(ty_s(d.ty))
        })
        .collect();
    rec.push(("locals", J::Arr(locals)));
    let user_vars: Vec<J> = body
        .local_decls
        .iter_enumerated()
        .filter(|(_, d)| d.is_user_variable())
        .map(|(l, _)| J::Int(l.as_usize() as i128))
        .collect();
    rec.push(("user_locals", J::Arr(user_vars)));

    // debug info
    let mut dbg: Vec<J> = Vec::new();
    for vdi in body.var_debug_info.iter() {
        let val = match &vdi.value {
            VarDebugInfoContents::Place(p) => pj(cx, body, p),
            VarDebugInfoContents::Const(_) => J::Null,
        };
        let (l, _) = cx.sp(vdi.source_info.span);
        dbg.push(J::Arr(vec![
            J::s(vdi.name.to_string()),
            val,
            match vdi.argument_index {
                Some(i) => J::Int(i as i128),
                None => J::Null,
            },
            l,
        ]));
    }
    rec.push(("debug", J::Arr(dbg)));

    // blocks
    let mut blocks: Vec<J> = Vec::new();
    for (_b, data) in body.basic_blocks.iter_enumerated() {
        let mut stmts: Vec<J> = Vec::new();
        for st in data.statements.iter() {
            let (l, m) = cx.sp(st.source_info.span);
            match &st.kind {
                StatementKind::Assign(b) => {
                    let (p, rv) = &**b;
                    let pl = pj(cx, body, p);
                    let r = rvalue_json(cx, def, body, rv);
                    stmts.push(J::Arr(vec![J::s("="), pl, r, l, m]));
                }
                StatementKind::SetDiscriminant { place, variant_index } => {
                    stmts.push(J::Arr(vec![
                        J::s("setdiscr"),
                        pj(cx, body, place),
                        J::Int(variant_index.as_usize() as i128),
                        l,
                        m,
                    ]));
                }
                StatementKind::StorageLive(lo) => {
                    stmts.push(J::Arr(vec![J::s("live"), J::Int(lo.as_usize() as i128)]))
                }
                StatementKind::StorageDead(lo) => {
                    stmts.push(J::Arr(vec![J::s("dead"), J::Int(lo.as_usize() as i128)]))
                }
                StatementKind::FakeRead(b) => {
                    stmts.push(J::Arr(vec![J::s("fake"), pj(cx, body, &b.1)]));
                }
                StatementKind::PlaceMention(p) => {
                    stmts.push(J::Arr(vec![J::s("mention"), pj(cx, body, p)]));
                }
                _ => {}
            }
        }
        let term = data.terminator();
        let (l, m) = cx.sp(term.source_info.span);
        let t = match &term.kind {
            TerminatorKind::Goto { target } => J::Arr(vec![J::s("goto"), bb(*target)]),
            TerminatorKind::SwitchInt { discr, targets } => {
                let cases: Vec<J> = targets
                    .iter()
                    .map(|(v, t)| J::Arr(vec![J::Int(v as i128), bb(t)]))
                    .collect();
                J::Arr(vec![
                    J::s("switch"),
                    op_json(cx, def, body, discr),
                    J::Arr(cases),
                    bb(targets.otherwise()),
                    l,
                    m,
                ])
            }
            TerminatorKind::UnwindResume => J::Arr(vec![J::s("resume")]),
            TerminatorKind::UnwindTerminate(_) => J::Arr(vec![J::s("abort")]),
            TerminatorKind::Return => J::Arr(vec![J::s("ret"), l, m]),
            TerminatorKind::Unreachable => J::Arr(vec![J::s("unreachable")]),
            TerminatorKind::Drop { place, target, unwind, .. } => {
                let pt = place.ty(&body.local_decls, tcx).ty;
                J::Arr(vec![J::s("drop"), pj(cx, body, place), bb(*target), unwind_j(unwind), l, m, J::s(ty_s(pt))])
            }
            TerminatorKind::Call { func, args, destination, target, unwind, fn_span, .. } => {
                let f = match func {
                    Operand::Constant(c) => match c.const_.ty().kind() {
                        ty::FnDef(did, ga) => callee_json(cx, Some(def), *did, ga),
                        _ => J::Obj(vec![("ptr", op_json(cx, def, body, func))]),
                    },
                    _ => J::Obj(vec![("ptr", op_json(cx, def, body, func))]),
                };
                let a: Vec<J> = args.iter().map(|a| op_json(cx, def, body, &a.node)).collect();
                let (fl, _) = cx.sp(*fn_span);
                J::Arr(vec![
                    J::s("call"),
                    f,
                    J::Arr(a),
                    pj(cx, body, destination),
                    match target {
                        Some(t) => bb(*t),
                        None => J::Null,
                    },
                    unwind_j(unwind),
                    l,
                    m,
                    fl,
                ])
            }
            TerminatorKind::TailCall { func, args, .. } => {
                let a: Vec<J> = args.iter().map(|a| op_json(cx, def, body, &a.node)).collect();
                J::Arr(vec![J::s("tailcall"), op_json(cx, def, body, func), J::Arr(a)])
            }
            TerminatorKind::Assert { cond, expected, target, unwind, .. } => J::Arr(vec![
                J::s("assert"),
                op_json(cx, def, body, cond),
                J::Bool(*expected),
                bb(*target),
                unwind_j(unwind),
            ]),
            TerminatorKind::Yield { value, resume, resume_arg, drop } => J::Arr(vec![
                J::s("yield"),
                op_json(cx, def, body, value),
                bb(*resume),
                pj(cx, body, resume_arg),
                match drop {
                    Some(d) => bb(*d),
                    None => J::Null,
                },
                l,
                m,
            ]),
            TerminatorKind::CoroutineDrop => J::Arr(vec![J::s("codrop")]),
            TerminatorKind::FalseEdge { real_target, imaginary_target } => {
                J::Arr(vec![J::s("fedge"), bb(*real_target), bb(*imaginary_target)])
            }
            TerminatorKind::FalseUnwind { real_target, unwind } => {
                J::Arr(vec![J::s("funwind"), bb(*real_target), unwind_j(unwind)])
            }
            TerminatorKind::InlineAsm { targets, .. } => {
                J::Arr(vec![J::s("asm"), J::Arr(targets.iter().map(|t| bb(*t)).collect())])
            }
        };
        blocks.push(J::Obj(vec![
            ("s", J::Arr(stmts)),
            ("t", t),
            ("c", J::Bool(data.is_cleanup)),
        ]));
    }
    rec.push(("blocks", J::Arr(blocks)));
    rec.push(("thir", thir));
    J::Obj(rec)
}
