"""Rules over the job task shared by C04, C06, C07, C09, C10."""
import json
import os
import re

from . import thir, pathx, jobtask
from .cfg import CFG, call_sites
from .facts import strip_generics
from .origin import origins, origin_calls, IDENTITY_CALLS, VALUE_CALLS
from .report import Skip, VERIF

SUP = "watchexec_supervisor"
CONTROL = SUP + "::job::messages::Control"
CSTATE = SUP + "::job::state::CommandState"

NORMAL_ONLY_DOC = ("controls that can only be enqueued at Normal priority (everything but Stop, Delete, NextEnding) are read only "
                   "while no timer is armed (R06.3), so they start with timer = none and, by I1, no restart marker")


def load_spec():
    with open(os.path.join(VERIF, "spec", "control_semantics.json")) as f:
        return json.load(f)


def _norm_out(o):
    return "continue" if o in ("Normally", "Skip") else o


def rows_of(paths):
    rows = []
    unm = []
    for p in paths:
        sy, u = jobtask.abstract(p)
        unm += u
        c, e = jobtask.effects(sy)
        rows.append((tuple(c), tuple(e), jobtask.loop_outcome(p), sy, p))
    return rows, unm


# ------------------------------------------------------------------------------------------------
# R09.1 effect table
def effect_table(ctx, B, rule="R09.1"):
    spec = load_spec()
    adt = ctx.facts.find_adt(CONTROL)
    variants = [v["name"] for v in adt["variants"]] if adt else []
    ctx.floor(rule, "Control variants", len(variants), 17)
    by = B.b2_paths(rule)
    ctx.floor(rule, "control arms", len([k for k in by if k]), 17)
    for v in variants:
        loc = B.b2.loc(B.b2.line)
        if v not in by:
            ctx.violation(rule, "arm-missing:" + v, "Control::%s has no dedicated arm in the control handler" % v, loc)
            continue
        if v not in spec["controls"]:
            ctx.violation(rule, "spec-missing:" + v, "Control::%s has no row in spec/control_semantics.json (new control: document it)" % v, loc)
            continue
        rows, unm = rows_of(by[v])
        for u in sorted(set(unm)):
            ctx.incomplete(rule, "%s:%s" % (v, u), "unmodelled operation on job state in arm %s: %s" % (v, u), loc)
        got = {(r[0], r[1], r[2]) for r in rows}
        want = {(tuple(r["when"]), tuple(r["effects"]), _norm_out(r["out"])) for r in spec["controls"][v]}
        for w in sorted(want):
            cond = ",".join(w[0]) or "always"
            if w in got:
                ctx.ok(rule, "%s[%s]" % (v, cond), "%s when %s: %s -> %s" % (v, cond, " ".join(w[1]) or "-", w[2]), loc)
            else:
                same = [g for g in got if g[0] == w[0]]
                if same:
                    g = same[0]
                    ctx.violation(rule, "%s[%s]" % (v, cond),
                                  "%s when %s does [%s] -> %s; documented semantics: [%s] -> %s"
                                  % (v, cond, " ".join(g[1]), g[2], " ".join(w[1]), w[2]), loc)
                else:
                    ctx.violation(rule, "%s[%s]" % (v, cond), "%s has no path for the documented case '%s' (%s -> %s)"
                                  % (v, cond, " ".join(w[1]), w[2]), loc)
        for g in sorted(got - want):
            if any(g[0] == w[0] for w in want):
                continue
            cond = ",".join(g[0]) or "always"
            ctx.violation(rule, "%s[%s]:undocumented" % (v, cond),
                          "%s has an undocumented case '%s': [%s] -> %s" % (v, cond, " ".join(g[1]), g[2]), loc)
    # process-end handler
    rows, unm = rows_of(B.b1_paths())
    loc = B.b1.loc(B.b1.line)
    for u in sorted(set(unm)):
        ctx.incomplete(rule, "process-end:%s" % u, "unmodelled operation on job state in the process-end handler: %s" % u, loc)
    got = {(r[0], r[1], r[2]) for r in rows}
    want = {(tuple(r["when"]), tuple(r["effects"]), _norm_out(r["out"])) for r in spec["process_end"]}
    for w in sorted(want):
        cond = ",".join(w[0]) or "always"
        if w in got:
            ctx.ok(rule, "process-end[%s]" % cond, "process end when %s: %s -> %s" % (cond, " ".join(w[1]) or "-", w[2]), loc)
        else:
            same = [g for g in got if g[0] == w[0]]
            if same:
                g = same[0]
                ctx.violation(rule, "process-end[%s]" % cond, "process end when %s does [%s] -> %s; expected [%s] -> %s"
                              % (cond, " ".join(g[1]), g[2], " ".join(w[1]), w[2]), loc)
            else:
                ctx.violation(rule, "process-end[%s]" % cond, "no path for the case '%s'" % cond, loc)
    for g in sorted(got - want):
        if any(g[0] == w[0] for w in want):
            continue
        cond = ",".join(g[0]) or "always"
        ctx.violation(rule, "process-end[%s]:undocumented" % cond, "undocumented case '%s': [%s] -> %s" % (cond, " ".join(g[1]), g[2]), loc)


# ------------------------------------------------------------------------------------------------
# R09.2 hook discipline
def hook_discipline(ctx, B, rule="R09.2"):
    sites = set()
    allp = []
    for name, ps in B.b2_paths(rule).items():
        allp += [(name, p) for p in ps]
    allp += [("process-end", p) for p in B.b1_paths()]
    for name, p in allp:
        sy, _ = jobtask.abstract(p)
        idx = {}
        for i, s in enumerate(sy):
            idx.setdefault(s[0], []).append(i)
        for si in idx.get("spawn", []):
            node = [e for e in p.ev if e[0] == "call" and strip_generics(e[1]).endswith("CommandState::spawn")]
            for e in node:
                sites.add((name, e[2].n.get("l")))
            before = sy[:si]
            names = [s[0] for s in before]
            # last occurrences before this spawn and after any previous spawn
            start = max([j for j in idx.get("spawn", []) if j < si] + [-1]) + 1
            seg = sy[start:si]
            segn = [s[0] for s in seg]
            ok = ("to-spawnable" in segn and "reset" in segn and "hook" in segn
                  and segn.index("to-spawnable") < segn.index("hook") and segn.index("reset") < segn.index("hook")
                  and segn.count("hook") == 1)
            hk = [s for s in seg if s[0] == "hook"]
            okctx = bool(hk) and hk[0][1] == "^spawn_hook" and hk[0][2] == "spawnable" and hk[0][3] == jobtask.CTX_DESC
            sp = sy[si]
            ctx.require(ok and okctx and sp[2] == "spawnable", rule, "%s:spawn@%s" % (name, ",".join(c for c in jobtask.effects(sy)[0])),
                        "spawn is preceded by to_spawnable, reset (previous run saved) and exactly one awaited spawn-hook call on the same spawnable",
                        B.b2.loc(B.b2.line),
                        fail="in %s a process is spawned without the spawn hook having run exactly once on that command (sequence: %s)"
                             % (name, " ".join(segn + ["spawn"])))
    ctx.floor(rule, "CommandState::spawn call sites in the job task", len({l for _, l in sites}), 4)


# ------------------------------------------------------------------------------------------------
# API table: Job method -> (controls, priority)
API_SPEC = {
    "control": (["<arg>"], "Normal"),
    "start": (["Start"], "Normal"),
    "stop": (["Stop"], "Normal"),
    "stop_with_signal": (["GracefulStop"], "Normal"),
    "restart": (["Stop", "Start"], "Normal"),
    "restart_with_signal": (["GracefulStop", "Start"], "Normal"),
    "try_restart": (["TryRestart"], "Normal"),
    "try_restart_with_signal": (["TryGracefulRestart"], "Normal"),
    "signal": (["Signal"], "Normal"),
    "delete": (["Stop", "Delete"], "Normal"),
    "delete_now": (["Stop", "Delete"], "Urgent"),
    "to_wait": (["NextEnding"], "High"),
    "run": (["SyncFunc"], "Normal"),
    "run_async": (["AsyncFunc"], "Normal"),
    "set_spawn_hook": (["SetSyncSpawnHook"], "Normal"),
    "set_spawn_async_hook": (["SetAsyncSpawnHook"], "Normal"),
    "unset_spawn_hook": (["UnsetSpawnHook"], "Normal"),
    "set_error_handler": (["SetSyncErrorHandler"], "Normal"),
    "set_async_error_handler": (["SetAsyncErrorHandler"], "Normal"),
    "unset_error_handler": (["UnsetErrorHandler"], "Normal"),
}


def _static_branch(e):
    """resolve `if cfg!(..)` (literal condition) to the taken branch; returns the list of leaf exprs"""
    e = thir.peel(e)
    if isinstance(e, dict) and e.get("k") == "block":
        # statements before the tail (other than tracing) are part of what the method does: an early `return`, another enqueueing call, ...
        # each counts as an alternative of its own so that the caller sees "more than one thing happens here"
        stmts = [x for x in e.get("s", []) if not (isinstance(x, dict) and (pathx.is_tracing(x) or (x.get("k") == "expr" and pathx.is_tracing(x.get("e")))))]
        if stmts:
            return stmts + _static_branch(e.get("e"))
        return _static_branch(e.get("e"))
    if isinstance(e, dict) and e.get("k") == "if":
        c = thir.peel(e["c"])
        if isinstance(c, dict) and c.get("k") == "lit" and "b" in c:
            return _static_branch(e["t"] if c["b"] else e.get("e"))
        return _static_branch(e["t"]) + _static_branch(e.get("e"))
    return [e]


def api_table(ctx, rule):
    """returns {method: (controls, priority)} resolved through self.control()/send_controls"""
    facts = ctx.facts
    res = {}
    job = SUP + "::job::job::Job"
    methods = [f for f in facts.fn_by_def.values() if f.self_ty == job and f.kind == "method" and not f.impl_trait]
    table = {}
    for f in methods:
        name = f.def_.split("::")[-1]
        ctx.saw_fn(f)
        leaves = _static_branch(thir.root(f))
        if len(leaves) != 1:
            if name in API_SPEC:
                ctx.violation(rule, "api-conditional:" + name,
                              "Job::%s chooses what to enqueue depending on a run-time condition (%d alternatives): the documented "
                              "operation is unconditional" % (name, len(leaves)), f.loc(f.line))
            continue
        v = thir.expr_value(leaves[0])
        if v[0] != "call":
            continue
        callee = v[1].split("::")[-1]
        if callee == "send_controls":
            arr, prio = v[2][1], v[2][2]
            ctrls = []
            if arr[0] == "arr":
                for x in arr[1]:
                    ctrls.append(x[2] if x[0] == "v" else ("<arg>" if x[0] == "var" else "?"))
            pr = prio[2] if prio[0] == "v" else "?"
            table[name] = ("direct", ctrls, pr)
        elif callee == "control":
            x = v[2][1]
            if x[0] == "v":
                table[name] = ("via-control", [x[2]], None)
            elif x[0] == "call" and x[1].startswith(CONTROL + "::"):
                table[name] = ("via-control", [x[1].split("::")[-1]], None)
            else:
                table[name] = ("via-control", ["?"], None)
        elif callee in API_SPEC and f.vis and "Public" in f.vis:
            table[name] = ("alias", callee, None)
    # resolve
    for name, t in table.items():
        if t[0] == "direct":
            res[name] = (t[1], t[2])
    for name, t in table.items():
        if t[0] == "via-control" and "control" in res:
            res[name] = (t[1], res["control"][1])
    return res, methods


def check_api_table(ctx, rule):
    res, methods = api_table(ctx, rule)
    job_fn = None
    for name, (ctrls, prio) in sorted(API_SPEC.items()):
        f = ctx.facts.find_fn(SUP + "::job::job::Job::" + name)
        loc = f.loc(f.line) if f else None
        got = res.get(name)
        if got is None:
            ctx.violation(rule, "api:" + name, "Job::%s no longer resolves to send_controls/control with literal controls" % name, loc)
            continue
        ctx.require(got[0] == ctrls and got[1] == prio, rule, "api:" + name,
                    "Job::%s sends %s at %s priority" % (name, ctrls, prio), loc,
                    fail="Job::%s sends %s at %s priority; documented: %s at %s" % (name, got[0], got[1], ctrls, prio))
    # any other public method that enqueues controls must be in the table
    for f in methods:
        name = f.def_.split("::")[-1]
        if f.vis and "Public" in f.vis and name in res and name not in API_SPEC:
            ctx.violation(rule, "api-undocumented:" + name, "public method Job::%s enqueues %s at %s but is not in the documented API table"
                          % (name, res[name][0], res[name][1]), f.loc(f.line))
    return res


# ------------------------------------------------------------------------------------------------
# C04
def single_creator(ctx, rule="R04.1"):
    facts = ctx.facts
    spawn_sites = []
    running_sites = []
    for f in facts.crate_fns(SUP):
        if f.error:
            continue
        for bi, t in f.calls():
            if t.callee.is_("process_wrap::tokio::core::TokioCommandWrap::spawn", "TokioCommandWrap::spawn") and "CommandState" not in t.callee.path:
                spawn_sites.append((f, t))
        for b in f.blocks:
            for s in b.stmts:
                if s.kind == "=" and s.rv.kind == "agg":
                    a = s.rv.agg_adt()
                    if a and a[0] == CSTATE and a[1] == "Running":
                        running_sites.append((f, s))
    ctx.floor(rule, "TokioCommandWrap::spawn call sites", len(spawn_sites), 1)
    for f, t in spawn_sites:
        ctx.require(f.def_ == CSTATE + "::spawn", rule, "process-spawn-in:" + f.def_,
                    "the only place a process is spawned is CommandState::spawn", f.loc(t.line),
                    fail="%s spawns a process outside CommandState::spawn: the single-process guard does not cover it" % f.def_)
    ctx.floor(rule, "CommandState::Running constructions", len(running_sites), 1)
    for f, s in running_sites:
        ctx.require(f.def_ == CSTATE + "::spawn", rule, "running-built-in:" + f.def_,
                    "CommandState::Running is only constructed in CommandState::spawn", f.loc(s.line),
                    fail="%s constructs CommandState::Running outside CommandState::spawn" % f.def_)


def spawn_guard(ctx, rule="R04.2"):
    f = ctx.anchor_fn(rule, CSTATE + "::spawn")
    en = pathx.Enum()
    ps = en.paths(thir.root(f))
    n_guard = 0
    for p in ps:
        running = [e for e in p.ev if e[0] == "iflet" and "Running" in e[2] and e[1] in ("self", "^self")]
        spawns = [e for e in p.ev if e[0] == "call" and strip_generics(e[1]).endswith("TokioCommandWrap::spawn")]
        assigns = [e for e in p.ev if e[0] == "assign" and e[1] in ("self", "^self")]
        if running and running[0][3]:
            n_guard += 1
            ctx.require(not spawns and not assigns and p.out == "ret" and p.val and p.val.startswith("Ok{0: False"), rule,
                        "running-refuses", "when already Running, spawn() returns Ok(false) without spawning or touching the state",
                        f.loc(f.line), detail=repr(p),
                        fail="CommandState::spawn spawns or overwrites the state although a process is already running")
        elif running:
            ctx.require(len(spawns) == 1 and (not assigns or p.ev.index(spawns[0]) < p.ev.index(assigns[0])), rule,
                        "spawn-then-running:%s" % p.out, "a process is spawned before the state becomes Running", f.loc(f.line))
        else:
            ctx.violation(rule, "unguarded-path", "a path through CommandState::spawn does not test for Running first", f.loc(f.line), detail=repr(p))
    ctx.floor(rule, "Running-guard paths in CommandState::spawn", n_guard, 1)


def typestate(ctx, B, rule="R04.3"):
    """abstract CommandState along every handler path; reset() and overwrites need a non-Running state"""
    n_reset = 0
    n_fin = 0
    allp = []
    for name, ps in B.b2_paths(rule).items():
        allp += [(name, p, {"Pending", "Running", "Finished"}) for p in ps]
    for p in B.b1_paths():
        allp.append(("process-end", p, {"Pending", "Running", "Finished"}))
    seen_keys = set()
    for name, p, cs in allp:
        cs = set(cs)
        sy, _ = jobtask.abstract(p)
        conds = ",".join(jobtask.effects(sy)[0])
        kill_ok = wait_ok = False
        for s in sy:
            k = s[0]
            if k == "running?":
                cs = {"Running"} if s[1] else cs - {"Running"}
            elif k == "wait-result":
                if s[1] == "Ok(true)":
                    cs = {"Finished"}   # summary of CommandState::wait, checked by wait_summary()
            elif k == "res" and s[1] == "kill":
                kill_ok = s[2] == "Ok"
            elif k == "res" and s[1] == "wait":
                wait_ok = s[2] == "Ok"
            elif k == "set-state":
                n_fin += 1
                key = "%s:overwrite[%s]" % (name, conds)
                if s[1] == "Finished":
                    good = ("Running" not in cs) or (kill_ok and wait_ok and "status: Into::into(status)" in s[2])
                    ctx.require(good, rule, key,
                                "command_state is overwritten with Finished only after kill() and wait() succeeded, with wait()'s status",
                                B.b2.loc(B.b2.line),
                                fail="in %s the running child handle is overwritten without a successful kill+wait (status collected): "
                                     "the process may still be alive when a new one is spawned" % name)
                    cs = {"Finished"}
                else:
                    ctx.require("Running" not in cs, rule, key, "state overwritten only when no process is running", B.b2.loc(B.b2.line),
                                fail="in %s command_state is overwritten with %s while a process may be running" % (name, s[1]))
                    cs = {s[1]}
            elif k == "reset":
                n_reset += 1
                key = "%s:reset[%s]" % (name, conds)
                ctx.require("Running" not in cs, rule, key,
                            "reset() is reached only in a non-Running state (%s)" % "/".join(sorted(cs)),
                            (B.b1 if name == "process-end" else B.b2).loc(B.b2.line),
                            fail="in %s command_state.reset() can run while the child is still Running: its handle is dropped unreaped and "
                                 "a second process is spawned" % name)
                cs = {"Pending"}
            elif k == "res" and s[1] == "spawn":
                if s[2] == "Ok":
                    cs = {"Running"}
    ctx.floor(rule, "reset() occurrences on handler paths", n_reset, 4)
    ctx.floor(rule, "Finished overwrites on handler paths", n_fin, 3)


def wait_summary(ctx, rule="R04.3"):
    """CommandState::wait returns Ok(true) only after awaiting child.wait() successfully and storing Finished{status}"""
    f = ctx.anchor_one(rule, "CommandState::wait coroutine",
                       [c for c in ctx.facts.children(ctx.anchor_fn(rule, CSTATE + "::wait")) if c.kind == "coroutine"])
    en = pathx.Enum()
    ps = en.paths(thir.root(f))
    n_true = 0
    for p in ps:
        val = p.val or ""
        is_true = ("Ok{0: True}" in val) if p.out == "ret" else None
        # tail value paths: the value is the block's tail expression; find via last events
        assigns = [e for e in p.ev if e[0] == "assign" and e[1].lstrip("^*") in ("self",)]
        waits = [e for e in p.ev if e[0] == "call" and strip_generics(e[1]).endswith("TokioChildWrapper::wait")]
        running = [e for e in p.ev if e[0] == "iflet" and "Running" in e[2]]
        if running and running[0][3] and p.out == "val":
            n_true += 1
            ok = bool(waits) and bool(assigns) and "Finished{" in assigns[0][2] and "status: Into::into(end)" in assigns[0][2] \
                and p.ev.index(waits[0]) < p.ev.index(assigns[0])
            ctx.require(ok, rule, "wait-summary:collects-status",
                        "CommandState::wait stores Finished{status} after awaiting the child's wait()", f.loc(f.line), detail=repr(p))
        elif running and not running[0][3]:
            ctx.require(not assigns and not waits, rule, "wait-summary:not-running", "when not running, wait() changes nothing", f.loc(f.line))
    ctx.floor(rule, "CommandState::wait Running path", n_true, 1)
    # no path may write the state unless the child's wait() succeeded on that path
    for p in ps:
        assigns = [(i, e) for i, e in enumerate(p.ev) if e[0] == "assign" and e[1].lstrip("^*") == "self"]
        for i, e in assigns:
            ok_wait = any(j < i and x[0] == "arm" and "TokioChildWrapper::wait(" in x[1] and (x[2][0].startswith("Continue") or x[2][0].startswith("Ok"))
                          for j, x in enumerate(p.ev))
            ctx.require(ok_wait and e[2].startswith("Finished{"), rule, "wait-summary:write-needs-reaped-child",
                        "CommandState::wait writes the state only after the child's wait() succeeded", f.loc(f.line), detail=repr(p),
                        fail="CommandState::wait overwrites the state (%s) on a path where the child was not successfully waited on: the "
                             "running child's handle is dropped unreaped and the next start spawns a second process" % e[2][:40])
    # Ok(true) / Ok(false) placement, path by path (`if let .. else`, `let .. else { return }` and `match` all give the same events):
    # Ok(true) exactly on the paths that stored Finished, Ok(false) exactly on the not-running paths, anything else is the propagated error
    wrong = []
    for p in ps:
        val = p.val or ""
        stored = any(e[0] == "assign" and e[1].lstrip("^*") == "self" for e in p.ev)
        running = [e for e in p.ev if e[0] in ("iflet", "arm") and "Running" in str(e[2])]
        is_running = None
        if running:
            is_running = bool(running[0][3]) if running[0][0] == "iflet" else True
        if "Ok{0: True}" in val:
            if not stored:
                wrong.append("Ok(true) without storing Finished")
        elif "Ok{0: False}" in val:
            if stored or is_running is not False:
                wrong.append("Ok(false) on a path that is not `not running`")
        elif "from_residual" not in val and not (val.startswith("Err{") and not stored):
            # `?` and an explicit `Err(err) => return Err(err)` are the same propagated error
            wrong.append("unmodelled result %s" % val[:40])
    ctx.require(not wrong and len(ps) >= 3, rule, "wait-summary:ok-true-iff-finished", "wait() yields Ok(true) exactly on the paths that stored Finished and Ok(false) exactly when not running",
                f.loc(f.line), detail=str(sorted(set(wrong))))


def previous_run_safe(ctx, B, rule="R04.4"):
    allp = []
    for name, ps in B.b2_paths(rule).items():
        allp += [(name, p) for p in ps]
    allp += [("process-end", p) for p in B.b1_paths()]
    n = 0
    bad = set()
    for name, p in allp:
        sy, _ = jobtask.abstract(p)
        for s in sy:
            if s[0] == "save-previous":
                n += 1
                if s[1] != "Some{0: CommandState::reset(^command_state)}":
                    bad.add((name, s[1]))
    ctx.floor(rule, "previous_run assignments on handler paths", n, 4)
    for name, rhs in sorted(bad):
        ctx.violation(rule, "previous-run:%s" % name, "previous_run is assigned %s, not the result of reset(): it could own a live child" % rhs,
                      B.b2.loc(B.b2.line))
    if not bad:
        ctx.ok(rule, "previous-run-from-reset", "every value stored in previous_run is reset()'s return value")
    f = ctx.anchor_fn(rule, CSTATE + "::reset")
    built = {n["v"] for n in thir.find(thir.root(f), "adt") if n["adt"] == CSTATE}
    ctx.require(built and built <= {"Pending", "Finished"}, rule, "reset-returns-no-child",
                "reset() only builds Pending/Finished values (never a state owning a child)", f.loc(f.line), detail=str(sorted(built)),
                fail="reset() can return a %s state" % sorted(built - {"Pending", "Finished"}))


def reset_summary(ctx, rule="R09.3"):
    """CommandState::reset leaves the state Pending and returns the old run (Finished keeps its fields; Running becomes Finished{Continued})"""
    f = ctx.anchor_fn(rule, CSTATE + "::reset")
    ms = [m for m in thir.find(thir.root(f), "match") if m["src"] == "Normal" and m["sty"].endswith("CommandState")]
    if len(ms) != 1:
        ctx.violation(rule, "floor:reset-match", "CommandState::reset is no longer one match over self", f.loc(f.line))
        return
    m = ms[0]
    seen = set()
    root = thir.root(f)
    lets = [(st["p"].get("n"), thir.peel(st["i"])) for st in thir.walk(root) if isinstance(st, dict) and st.get("k") == "let" and st["p"].get("k") == "bind" and isinstance(st.get("i"), dict)]
    paths = pathx.Enum().paths(root)
    for q in paths:
        arms = [e for e in q.ev if e[0] == "arm" and e[1].lstrip("^*") == "self"]
        if len(arms) != 1:
            ctx.incomplete(rule, "reset-path", "a path through reset() does not go through exactly one arm of the match over self", f.loc(f.line))
            continue
        arm = m["arms"][arms[0][3]]
        vs = thir.pattern_variants(arm["p"])
        if len(vs) != 1:
            ctx.incomplete(rule, "reset-arm:" + "|".join(vs), "arm covers several states", f.loc(arm["l"]))
            continue
        v = vs[0]
        seen.add(v)
        assigns = [(e[1].lstrip("^*"), e[2]) for e in q.ev if e[0] == "assign"]
        built = [n for n in thir.find(arm["b"], "adt") if n["adt"] == CSTATE]
        if v == "Pending":
            val = thir.expr_value(arm["b"])
            ok = not assigns and ((val[0] == "v" and val[2] == "Pending") or (q.val or "") == "Pending")
            ctx.require(ok, rule, "reset:Pending", "reset() of Pending returns Pending and changes nothing", f.loc(arm["l"]))
        else:
            to_pending = assigns == [("self", "Pending")]
            copy = [b for b in built if b["v"] == "Finished"]
            okcopy = False
            returns_copy = False
            if len(copy) == 1:
                fs = thir.expr_value(copy[0])[3]
                if v == "Finished":
                    okcopy = all(fs.get(k) == ("var", k) for k in ("status", "started", "finished"))
                else:
                    okcopy = fs.get("status", ("",))[0] == "v" and fs["status"][2] == "Continued" and fs.get("started") == ("var", "started")
                # what is returned is that value: bound to a local inside the arm, or the arm's value bound outside the match (`let copy = match self {..}`)
                name = (q.val or "")
                inits = [i_ for n_, i_ in lets if n_ == name]
                returns_copy = any(i_ is copy[0] or (i_ is m and thir.peel(arm["b"]) is copy[0]) for i_ in inits)
            ctx.require(to_pending and okcopy and returns_copy, rule, "reset:" + v,
                        "reset() of %s stores Pending and returns the finished run" % v, f.loc(arm["l"]), detail=str(assigns),
                        fail="CommandState::reset on a %s state %s: the job keeps reporting a stale state (and previous_run is wrong) after a failed spawn"
                             % (v, "does not set the state back to Pending" if not to_pending else "does not return the old run's data"))
    ctx.require(seen == {"Pending", "Running", "Finished"}, rule, "reset:all-states", "reset() handles all three states separately", f.loc(f.line), detail=str(sorted(seen)))


def kill_on_drop(ctx, rule="R04.5"):
    f = ctx.anchor_fn(rule, SUP + "::command::conversions::<impl " + SUP + "::command::Command>::to_spawnable") \
        if ctx.facts.find_fn(SUP + "::command::conversions::<impl " + SUP + "::command::Command>::to_spawnable") \
        else ctx.anchor_one(rule, "Command::to_spawnable", ctx.facts.fns_matching(r"command::.*to_spawnable$", crate=SUP))
    cfg = CFG(f)
    wraps = [(bi, t) for bi, t in f.calls() if t.callee.is_("TokioCommandWrap::wrap") and "KillOnDrop" in (t.callee.full or "")]
    ctx.floor(rule, "wrap(KillOnDrop) in to_spawnable", len(wraps), 1)
    if wraps:
        rets = cfg.exits()
        ok = all(cfg.must_pass(0, [r], [bi for bi, _ in wraps]) for r in rets)
        ctx.require(ok, rule, "kill-on-drop-must-pass", "every path of to_spawnable applies the KillOnDrop wrapper", f.loc(wraps[0][1].line),
                    fail="some path builds a spawnable command without KillOnDrop: a dropped child handle would leave the process running")
    d = ctx.facts.derived(CSTATE, "Clone")
    ctx.require(d is None, rule, "commandstate-not-clone", "CommandState is not Clone in the production configuration",
                fail="CommandState implements Clone: a second handle to the running child could exist")
    return f


# ------------------------------------------------------------------------------------------------
# C06
def _deadline_value(ctx, f, node, grace):
    """how a Timer constructor computes `until` (helpers spliced, lets read through):
       'plain'   Instant::now() + grace                                   (panics when the sum is not representable)
       'checked' Instant::now().checked_add(grace) with a fallback of now + a constant of at least a year
       None      anything else"""
    import re
    vals = set()
    with pathx.reading_through(node):
        for p_ in pathx.Enum().paths(node):
            vals.add(pathx.desc_on(p_, pathx.value_of(node)).replace("^", ""))
    if vals == {"Add::add(Instant::now(), %s)" % grace}:
        return "plain", vals
    m = None
    if len(vals) == 1:
        m = re.match(r"^Option::unwrap_or(_else)?\(Instant::checked_add\(Instant::now\(\), %s\), (.*)\)$" % re.escape(grace), next(iter(vals)))
    if not m:
        return None, vals
    fb = m.group(2)
    if m.group(1):
        cl = [x for x in thir.walk(node) if isinstance(x, dict) and x.get("k") == "closure"]
        cf = ctx.facts.find_fn(cl[0]["def"]) if len(cl) == 1 else None
        if cf is None:
            return None, vals
        crt = thir.root(cf)
        with pathx.reading_through(crt):
            fbs = {pathx.desc_on(p_, pathx.value_of(crt)).replace("^", "") for p_ in pathx.Enum().paths(crt)}
        if len(fbs) != 1:
            return None, vals | fbs
        fb = next(iter(fbs))
    m2 = re.match(r"^Add::add\((?:now|Instant::now\(\)), Duration::from_secs\(([0-9_ Mul]+)\)\)$", fb)
    if not m2:
        return None, vals | {fb}
    secs = 1
    for part in m2.group(1).split("Mul"):
        secs *= int(part.strip().replace("_", ""))
    if secs < 365 * 86400 or secs > 2 ** 40:
        # too near: the forced stop would fire although the requested grace has not elapsed; too far: the fallback itself overflows
        return None, vals | {fb}
    return "checked", vals | {fb}


def timer_summaries(ctx, rule="R06.2"):
    T = SUP + "::job::priority::Timer"
    for name, is_restart in (("stop", False), ("restart", True)):
        f = ctx.anchor_fn(rule, T + "::" + name)
        rt = thir.peel(thir.root(f))
        v = thir.expr_value(rt)
        ok = v[0] == "v" and v[2] == "Timer"
        det = ""
        how = None
        if ok:
            fs = v[3]
            grace = f.thir["params"][0]["pat"]["n"]
            adt = next((x for x in thir.walk(rt) if isinstance(x, dict) and x.get("k") == "adt"), None)
            un = next((x for n_, x in (adt["f"] if adt else []) if n_ == "until"), None)
            how, vals = _deadline_value(ctx, f, un, grace) if un is not None else (None, set())
            ok = how is not None and fs.get("done") == ("var", f.thir["params"][1]["pat"]["n"]) and fs.get("is_restart") == ("b", is_restart)
            det = "until: %s; %s" % (sorted(vals), {k_: v_ for k_, v_ in fs.items() if k_ != "until"})
        ctx.require(ok, rule, "timer-" + name, "Timer::%s(grace, done) = {until: now + grace, done, is_restart: %s}" % (name, str(is_restart).lower()),
                    f.loc(f.line), detail=det,
                    fail="Timer::%s no longer sets until = Instant::now() + grace with the given flag and is_restart = %s" % (name, is_restart))
        if ok:
            ctx.require(how == "checked", rule, "timer-%s-no-overflow" % name,
                        "the deadline is computed with checked_add and falls back to a far-future instant: a grace period too long for an Instant "
                        "(Duration::MAX = never force-kill) does not panic the job task", f.loc(f.line), detail=det,
                        fail="Timer::%s computes Instant::now() + grace with the panicking operator: a grace period that does not fit an Instant "
                             "(Duration::MAX) panics the job task after the signal was sent - the child is killed by the dropped handle before the "
                             "grace period and no ticket of the job resolves" % name)
    f = ctx.anchor_fn(rule, T + "::is_past")
    v = thir.expr_value(thir.root(f))
    ok = (v[0] == "call" and v[1].endswith("cmp::PartialOrd::le") and len(v[2]) == 2 and v[2][0] == ("field", ("var", "self"), "until")
          and v[2][1][0] == "call" and v[2][1][1].endswith("Instant::now"))
    ctx.require(ok, rule, "timer-is-past", "Timer::is_past is `until <= now`", f.loc(f.line), detail=str(v)[:300],
                fail="Timer::is_past is no longer `self.until <= Instant::now()`: the forced stop may fire early or never")
    f = ctx.anchor_fn(rule, T + "::to_sleep")
    v = thir.expr_value(thir.root(f))
    ok = v[0] == "call" and v[1].endswith("sleep_until") and v[2] and v[2][0][0] == "field" and v[2][0][2] == "until"
    ctx.require(ok, rule, "timer-to-sleep", "Timer::to_sleep sleeps until self.until", f.loc(f.line), detail=str(v)[:200])
    f = ctx.anchor_fn(rule, T + "::to_control")
    # decision table over the syntactic paths of the body (locals read through, helpers spliced): is_restart -> control, with the timer's own flag
    rows = set()
    rt = thir.root(f)
    with pathx.reading_through(rt):
        for p_ in pathx.Enum().paths(rt):
            conds = tuple(sorted({(e_[1], e_[2]) for e_ in p_.ev if e_[0] == "branch"}))
            rows.add((conds, pathx.desc_on(p_, pathx.value_of(rt))))
    want_rows = {((("self.is_restart", True),), "ControlMessage{control: ContinueTryGracefulRestart, done: Clone::clone(self.done)}"),
                 ((("self.is_restart", False),), "ControlMessage{control: Stop, done: Clone::clone(self.done)}")}
    ok = shape = rows == want_rows
    ctx.require(ok and shape, rule, "timer-to-control",
                "Timer::to_control yields ContinueTryGracefulRestart for a restart timer and Stop otherwise, carrying the timer's own flag",
                f.loc(f.line), detail=str(sorted(rows))[:400],
                fail="the control injected at grace expiry is no longer Stop / ContinueTryGracefulRestart with the original flag")


def past_tests(f):
    """calls that test `the armed timer has expired` on an Option<Timer>: map_or(false, Timer::is_past) or is_some_and(Timer::is_past)"""
    return [(bi, t) for bi, t in f.calls() if t.callee.is_("core::option::Option::map_or", "core::option::Option::is_some_and") and
            any((a.const_fn() is not None and a.const_fn().is_("Timer::is_past")) for a in t.args)]


def past_default_false(t):
    if t.callee.is_("core::option::Option::is_some_and"):
        return True
    return [a.const_bool() for a in t.args if a.is_const() and a.const_fn() is None] == [False]


def recv_gating(ctx, B, rule="R06.3"):
    f = B.recv
    cfg = CFG(f)
    chan = lambda name: [(bi, t) for bi, t in f.calls()
                         if t.callee.is_("tokio::sync::mpsc::unbounded::UnboundedReceiver::recv", "tokio::sync::mpsc::unbounded::UnboundedReceiver::try_recv")
                         and any(a.kind in ("upvar", "arg") and a.proj and a.proj[-1][2] == name
                                 for a in origins(f, t.args[0]))]
    normal = chan("normal")
    ctx.floor(rule, "reads of the normal queue", len(normal), 1)
    # the clone of *stop_timer and the switch on it
    clones = [(bi, t) for bi, t in f.calls() if t.callee.is_("core::clone::Clone::clone") and "Option<" in (t.callee.full or "") and "Timer" in t.callee.full]
    if len(clones) != 1:
        ctx.violation(rule, "floor:timer-test", "recv no longer tests the timer with one `stop_timer.clone()` match (found %d)" % len(clones), f.loc(f.line))
        return
    cb, ct = clones[0]
    sw_b = None
    for b in cfg.reachable_from(ct.target):
        t = f.blocks[b].term
        if t.kind == "switch":
            sw_b = b
            break
    sw = f.blocks[sw_b].term
    some_t = [tt for v, tt in sw.cases if v == 1]
    none_t = sw.otherwise
    for bi, t in normal:
        ok = cfg.dominates(sw_b, bi) and some_t and not cfg.reaches(some_t[0], bi)
        ctx.require(ok, rule, "normal-only-without-timer@L%d" % 0 if False else "normal-only-without-timer:%d" % normal.index((bi, t)),
                    "the normal queue is read only on the branch where no timer is armed", f.loc(t.line),
                    fail="normal-priority controls can be received while a grace timer is armed: a queued Start/Stop would run before the graceful stop completes")
    # to_control sites
    tc = [(f, bi, t) for bi, t in f.calls() if t.callee.is_("Timer::to_control")]
    for c in ctx.facts.children(f):
        ctx.saw_fn(c)
        tc += [(c, bi, t) for bi, t in c.calls() if t.callee.is_("Timer::to_control")]
    # `.map(Timer::to_control)` (the function passed by path instead of through a closure) is the same site
    bypath = [(bi, t) for bi, t in f.calls() if t.callee.is_("core::option::Option::map") and len(t.args) > 1 and t.args[1].const_fn() is not None
              and t.args[1].const_fn().is_("Timer::to_control")]
    tc += [(None, bi, t) for bi, t in bypath]
    ctx.floor(rule, "Timer::to_control sites", len(tc), 2)
    for fn, bi, t in tc:
        if fn is f:
            # in the select arm of to_sleep: dominated by `*stop_timer = None`
            clears = []
            for b in f.blocks:
                for s in b.stmts:
                    if s.kind == "=" and s.place.proj and (f.name_of_place(s.place) or "").startswith("stop_timer") and s.rv.kind == "use":
                        for a in origins(f, s.rv.ops[0]):
                            if a.kind == "agg":
                                st = f.blocks[a.data[0]].stmts[a.data[1]]
                                ad = st.rv.agg_adt()
                                if ad and ad[0] == "core::option::Option" and ad[1] == "None":
                                    clears.append(b.idx)
            ok = any(cfg.dominates(c, bi) for c in clears) and some_t and cfg.dominates(some_t[0], bi) if some_t else False
            ctx.require(ok, rule, "expiry-select-clears", "on expiry in the select, *stop_timer is cleared before the forced control is returned",
                        f.loc(t.line), fail="the forced control is produced without clearing the timer (it would fire again)")
            # the sleeping future is the timer's own deadline
            sl = [(b2, t2) for b2, t2 in f.calls() if t2.callee.is_("Timer::to_sleep")]
            ctx.require(len(sl) == 1 and cfg.dominates(sl[0][0], bi), rule, "expiry-select-sleeps", "the select waits on Timer::to_sleep of the armed timer", f.loc(t.line))
        else:
            # closure passed to Option::map on stop_timer.take(), guarded by is_past
            maps = [(bi, t)] if fn is None else \
                   [(b2, t2) for b2, t2 in f.calls() if t2.callee.is_("core::option::Option::map") and
                    any(o.kind == "agg" and f.blocks[o.data[0]].stmts[o.data[1]].rv.agg_closure() == fn.def_ for o in origins(f, t2.args[1]))]
            ok = False
            if len(maps) == 1:
                b2, t2 = maps[0]
                takes = [x for x in origin_calls(f, t2.args[0], IDENTITY_CALLS + ("core::option::Option::as_ref", "core::option::Option::as_mut")) if x[0].callee.is_("core::option::Option::take")]
                past = past_tests(f)
                if takes and len(past) == 1:
                    sw2 = f.blocks[past[0][1].target].term
                    if sw2.kind == "switch":
                        false_t = [tt for v, tt in sw2.cases if v == 0]
                        ok = bool(false_t) and not cfg.reaches(false_t[0], b2) and cfg.dominates(past[0][0], b2)
                        # an unarmed timer (None) must count as "not expired": map_or's default is `false` (is_some_and has it built in)
                        ok = ok and past_default_false(past[0][1])
            ctx.require(ok, rule, "expiry-fastpath", "an already expired timer is taken (cleared) and turned into the forced control only when is_past() holds",
                        f.loc(f.line), fail="the forced control can be produced before the grace period has elapsed, or without clearing the timer")


def coupling_invariant(ctx, B, api, rule="R06.5"):
    """I1: on_end_restart is set  <=>  a restart timer is armed, at every handler exit."""
    normal_only = set()
    for v in [x["name"] for x in ctx.facts.find_adt(CONTROL)["variants"]]:
        prios = {p for m, (cs, p) in api.items() if v in cs}
        if v == "ContinueTryGracefulRestart":
            continue
        if prios <= {"Normal"}:
            normal_only.add(v)
    ENTRY_ALL = [("none", False), ("stop", False), ("restart", True)]

    def run(name, p, entry, where):
        timer, oer = entry
        sy, _ = jobtask.abstract(p)
        conds = ",".join(jobtask.effects(sy)[0])
        infeasible = False
        for i, s in enumerate(sy):
            k = s[0]
            if k == "replace" and s[1] == "^stop_timer":
                timer = "stop" if s[2].startswith("Timer::stop(") else ("restart" if s[2].startswith("Timer::restart(") else "?")
            elif k == "take" and s[1] == "^stop_timer":
                pass
            elif k == "taken-some?" and s[1] == "^stop_timer":
                if (timer != "none") != s[2]:
                    infeasible = True
                timer_taken = timer
                timer = "none"
            elif k == "timer-is-restart?":
                if (timer_taken == "restart") != s[1]:
                    infeasible = True
            elif k == "set-timer":
                timer = "none" if s[1] == "None" else "?"
            elif k == "set-restart-marker":
                oer = s[1] != "None"
            elif k == "taken-some?" and s[1] == "^on_end_restart":
                if oer != s[2]:
                    infeasible = True
                oer = False
        if infeasible:
            return None
        return (timer, oer, conds)

    n = 0
    for name, ps in B.b2_paths(rule).items():
        if name == "ContinueTryGracefulRestart":
            # produced by the expired/elapsed restart timer after recv cleared it (marker still set), or sent by hand (nothing set)
            entries = [("none", True), ("none", False)]
        elif name in normal_only:
            entries = [("none", False)]
        else:
            entries = ENTRY_ALL
        for p in ps:
            for entry in entries:
                r = run(name, p, entry, B.b2)
                if r is None:
                    continue
                timer, oer, conds = r
                n += 1
                key = "%s[%s|timer=%s,marker=%s]" % (name, conds, entry[0], "set" if entry[1] else "none")
                ctx.require((timer == "restart") == oer and timer != "?", rule, key,
                            "restart marker and restart timer agree at exit (timer=%s, marker=%s)" % (timer, oer), B.b2.loc(B.b2.line),
                            fail="%s leaves timer=%s but restart marker %s: the replacement would be started %s"
                                 % (name, timer, "set" if oer else "unset", "a second time when it next exits" if oer else "never"))
    for p in B.b1_paths():
        for entry in ENTRY_ALL:
            r = run("process-end", p, entry, B.b1)
            if r is None:
                continue
            timer, oer, conds = r
            n += 1
            key = "process-end[%s|timer=%s]" % (conds, entry[0])
            ctx.require((timer == "restart") == oer and timer != "?", rule, key,
                        "restart marker and restart timer agree at exit (timer=%s, marker=%s)" % (timer, oer), B.b1.loc(B.b1.line),
                        fail="process-end handler leaves timer=%s but restart marker %s" % (timer, "set" if oer else "unset"))
    ctx.floor(rule, "handler path x entry-state combinations", n, 60)
    # the arming site couples both holders to the same flag
    for name, ps in B.b2_paths(rule).items():
        for p in ps:
            sy, _ = jobtask.abstract(p)
            eff = jobtask.effects(sy)[1]
            arms = [e for e in eff if e.startswith("arm-restart(")]
            marks = [e for e in eff if e.startswith("mark-restart(")]
            if arms or marks:
                ctx.require(arms == ["arm-restart(grace,Clone::clone(done))"] and marks == ["mark-restart(Some{0: done})"], rule,
                            "couple:" + name, "restart timer and restart marker are armed together with the same control's flag", B.b2.loc(B.b2.line),
                            fail="%s arms %s / marks %s: timer and marker are no longer coupled to the same flag" % (name, arms, marks))
    return normal_only


def signal_child_rule(ctx, rule="R06.6"):
    f = ctx.anchor_one(rule, "signal_child coroutine",
                       [c for c in ctx.facts.children(ctx.anchor_fn(rule, SUP + "::job::task::signal_child")) if c.kind == "coroutine"])
    bodies = [f] + ctx.facts.descendants(f)
    calls = []
    for b in bodies:
        ctx.saw_fn(b)
        calls += [(c, n) for c, n in thir.calls_in(thir.root(b)) if not pathx.is_tracing(n)]
    names = [strip_generics(c) for c, _ in calls]
    to_nix = [n for c, n in calls if strip_generics(c).endswith("Signal::to_nix") and pathx.desc(n["a"][0]).lstrip("^") == "signal"]
    ok1 = len(to_nix) == 1
    fb = False
    for c in bodies:
        v = thir.expr_value(thir.root(c))
        if v[0] == "call" and v[1].endswith("Signal::to_nix") and v[2] and v[2][0][0] == "v" and v[2][0][2] == "Terminate":
            fb = True
    # the same fallback written as a match arm / if-let instead of an or_else closure: a to_nix() call on the literal Signal::Terminate
    for c_, n_ in calls:
        if strip_generics(c_).endswith("Signal::to_nix") and n_["a"]:
            a0 = thir.peel(n_["a"][0])
            if isinstance(a0, dict) and a0.get("k") == "adt" and a0.get("v") == "Terminate" and not a0.get("f"):
                fb = True
    sig = [n for c, n in calls if strip_generics(c).endswith("TokioChildWrapper::signal") or strip_generics(c).endswith("TestChild::signal")]
    ok3 = len(sig) == 1 and pathx.desc(sig[0]["a"][0]).lstrip("^").startswith("child") and pathx.desc(sig[0]["a"][1]) == "sig"
    ctx.require(ok1 and fb and ok3, rule, "signal-mapping",
                "signal_child sends signal.to_nix() (or SIGTERM when the signal has no OS equivalent) to the child", f.loc(f.line),
                detail=str([n for n in names if "tracing" not in n and "core::" not in n]),
                fail="signal_child no longer delivers the requested signal (falling back to SIGTERM) to the child")
    kills = [n for n in names if n.endswith("::kill") or n.endswith("start_kill")]
    ctx.require(not kills, rule, "signal-no-kill", "signal_child never kills", f.loc(f.line))


# ------------------------------------------------------------------------------------------------
# C07
def message_flag(ctx, B, rule="R07.1"):
    n = 0
    for name, ps in B.b2_paths(rule).items():
        for p in ps:
            sy, unm = jobtask.abstract(p)
            conds, eff = jobtask.effects(sy)
            out = jobtask.loop_outcome(p)
            raised = "raise(done)" in eff
            held = any(e.startswith("arm-stop(") and e.endswith(",done)") for e in eff) or \
                ("mark-restart(Some{0: done})" in eff and any(e.startswith("arm-restart(") for e in eff)) or \
                "push(on_end,done)" in eff
            key = "%s[%s]" % (name, ",".join(conds) or "always")
            n += 1
            if held and raised:
                ctx.violation(rule, key + ":raised-and-deferred", "%s both raises its completion flag and hands it to a holder: the ticket resolves "
                              "before the deferred completion (process end / grace expiry)" % key, B.b2.loc(B.b2.line))
            elif held:
                ctx.ok(rule, key, "completion deferred: the control's flag is handed to a holder (%s)" %
                       [e for e in eff if e.startswith(("arm-", "mark-", "push("))], B.b2.loc(B.b2.line))
            else:
                ctx.require(raised or held, rule, key, "the control's completion flag is raised before the handler returns (%s)" % out,
                            B.b2.loc(B.b2.line),
                            fail="%s completes (%s) without raising its completion flag: the ticket never resolves" % (key, out))
                # raise must be the last effect for non-deferred paths (ticket resolves no later than completion, not before)
                if raised:
                    last_real = [e for e in eff if not e.startswith("other:")]
                    ctx.require(last_real[-1] == "raise(done)", rule, key + ":raise-last",
                                "the flag is raised after the control's effects", B.b2.loc(B.b2.line),
                                fail="%s raises its completion flag before the control's work is finished (%s)" % (key, " ".join(eff)))
    ctx.floor(rule, "control handler paths", n, 38)


def holder_discipline(ctx, B, rule="R07.2"):
    """tokens leaving a holder are raised on every path"""
    n = 0
    for p in B.b1_paths():
        sy, _ = jobtask.abstract(p)
        conds, eff = jobtask.effects(sy)
        key = "process-end[%s]" % ",".join(conds)
        if "stop_timer=some" in conds and "timer-kind=stop" in conds:
            n += 1
            ctx.require("raise(timer.done)" in eff, rule, key + ":stop-timer-flag",
                        "the cleared graceful-stop timer's flag is raised", B.b1.loc(B.b1.line),
                        fail="when the process ends within the grace period the graceful stop's flag is dropped unraised: stop_with_signal()'s ticket never resolves")
        if "on_end_restart=some" in conds:
            n += 1
            ctx.require("raise(flag)" in eff, rule, key + ":restart-flag",
                        "the taken restart flag is raised on this path", B.b1.loc(B.b1.line),
                        fail="the graceful restart's flag taken from on_end_restart is dropped unraised on the path [%s]: its ticket never resolves" % ",".join(conds))
        if "take(stop_timer)" in eff and "stop_timer=some" in conds and "timer-kind=restart" in conds:
            # same token as on_end_restart (coupled at the arming site, R06.5): nothing to raise here
            ctx.ok(rule, key + ":restart-timer-flag", "restart timer's flag is the restart marker's flag (raised via the marker)", trivial=True)
        if "wait-result=Ok(true)" in conds:
            n += 1
            ctx.require("raise-on-end" in eff, rule, key + ":on-end", "all wait-for-end flags are raised when the process ends", B.b1.loc(B.b1.line),
                        fail="process end does not raise the queued wait-for-end flags")
    # a holder that is simply overwritten loses its flag with no chance to raise it
    for name, ps in list(B.b2_paths(rule).items()) + [("process-end", B.b1_paths())]:
        for p in ps:
            sy, _ = jobtask.abstract(p)
            conds, eff = jobtask.effects(sy)
            for s_ in sy:
                if s_[0] == "set-timer":
                    ctx.violation(rule, "%s:timer-overwritten" % name,
                                  "%s overwrites stop_timer with %s: an armed timer's completion flag is dropped unraised (the graceful "
                                  "stop's ticket never resolves when the process ends within the grace period)" % (name, s_[1]),
                                  (B.b1 if name == "process-end" else B.b2).loc(B.b2.line))
    for name, ps in B.b2_paths(rule).items():
        for p in ps:
            sy, _ = jobtask.abstract(p)
            conds, eff = jobtask.effects(sy)
            if "set-finished" in eff:
                n += 1
                ctx.require("raise-on-end" in eff, rule, "%s[%s]:on-end" % (name, ",".join(conds)),
                            "a control that ends the process raises the queued wait-for-end flags", B.b2.loc(B.b2.line),
                            fail="%s ends the process without raising the queued wait-for-end (to_wait) flags" % name)
            # losing holders inside B2: replace on an occupied timer / overwriting markers is excluded by entry states (R06.5)
    ctx.floor(rule, "holder-release obligations", n, 14)
    # every write to a holder anywhere in the job task must be one of the modelled forms
    holders = ("stop_timer", "on_end", "on_end_restart")
    for fn in (B.b0, B.b1, B.b2, B.recv):
        for b in fn.blocks:
            for s in b.stmts:
                if s.kind != "=":
                    continue
                nm = fn.name_of_place(s.place) or ""
                base = nm.split(".")[0].split(" ")[0]
                if base in holders and fn.macro(s.mac) == "":
                    modelled = False
                    if s.rv.kind == "agg" and s.rv.agg_adt():
                        a = s.rv.agg_adt()
                        modelled = a[0] == "core::option::Option" or a[0] == "alloc::vec::Vec"
                    elif s.rv.kind in ("use",) and fn is B.b0:
                        modelled = True  # initialisation `let mut x = None / Vec::new()`
                    elif s.rv.kind in ("use", "ref", "cfd"):
                        modelled = True  # capture plumbing (moving the &mut into the handler)
                    if not modelled:
                        ctx.incomplete(rule, "holder-write:%s:%s" % (fn.def_.split("::")[-1], nm), "unmodelled write to %s: %r" % (nm, s), fn.loc(s.line))


def task_exit(ctx, B, rule="R07.3"):
    f = B.b0
    cfg = CFG(f)
    rets = cfg.exits()
    raises = [(bi, t) for bi, t in f.calls() if t.callee.is_("flag::Flag::raise") and
              any(a.kind == "upvar" and a.data == "done" for a in origins(f, t.args[0]))]
    ctx.floor(rule, "gone.raise() in the job task", len(raises), 1)
    for r in rets:
        ctx.require(cfg.must_pass(0, [r], [bi for bi, _ in raises]), rule, "exit-raises-gone",
                    "every normal exit of the job task raises the job-gone flag", f.loc(f.blocks[r].term.line),
                    fail="the job task can return without raising the job-gone flag: outstanding tickets never resolve")
    # no panic of the select! itself: the "all branches are disabled" message exists only without an else branch
    bad = []
    for b in f.blocks:
        t = b.term
        if t.kind == "call":
            for a in t.args:
                if a.is_const() and "all branches are disabled" in a.const.get("v", ""):
                    bad.append(b.idx)
    live = cfg.live_blocks()
    bad = [b for b in bad if b in live]
    ctx.require(not bad, rule, "select-has-else",
                "the main select! has an else branch (queue closed and nothing running ends the task instead of panicking)",
                f.loc(f.blocks[bad[0]].term.line) if bad else f.loc(f.line),
                fail="with the control queue closed and no command running every select! branch is disabled and the task panics "
                     "('all branches are disabled and there is no else branch'): the job-gone flag is never raised")
    # the loop can only be left by `break` from handlers or the else branch; all of which flow to the raise (covered above)


def wake_protocol(ctx, rule="R07.4"):
    pathx.INLINE = pathx.accessors(ctx.facts, SUP + "::flag::")       # `self.raised()` reads as the load it performs
    try:
        _wake_protocol(ctx, rule)
    finally:
        pathx.INLINE = {}


def _wake_protocol(ctx, rule):
    FL = SUP + "::flag::Flag"
    f = ctx.anchor_fn(rule, FL + "::raise")
    cfg = CFG(f)
    stores = [(bi, t) for bi, t in f.calls() if t.callee.is_("core::sync::atomic::Atomic::store", "AtomicBool::store")]
    wakes = [(bi, t) for bi, t in f.calls() if t.callee.is_("core::task::wake::Waker::wake", "AtomicWaker::wake")]
    ctx.require(len(stores) == 1 and bool(wakes) and all(cfg.dominates(stores[0][0], bi) for bi, _ in wakes), rule, "raise-store-then-wake",
                "Flag::raise stores the flag before waking", f.loc(f.line),
                fail="Flag::raise wakes waiters before (or without) storing the flag: a woken task can observe it unset and sleep forever")
    # every return of raise() must have gone through the wake-all point (taking the waiter list / AtomicWaker::wake)
    wake_all = [(bi, t) for bi, t in f.calls() if t.callee.is_("AtomicWaker::wake", "core::mem::take", "core::mem::replace", "alloc::vec::Vec::drain")]
    rets = cfg.exits()
    ctx.require(bool(wake_all) and all(cfg.must_pass(0, [r], [bi for bi, _ in wake_all]) for r in rets), rule, "raise-always-wakes",
                "every path through Flag::raise reaches the wake-all step (no early return, e.g. on a contended lock)", f.loc(f.line),
                fail="Flag::raise can return without waking the registered waiters (e.g. when the waiter list's lock is contended): "
                     "tasks already parked on the flag sleep forever")
    if not any(t.callee.is_("AtomicWaker::wake") for _, t in wake_all) and wake_all:
        # the taken list is iterated and every element woken
        woke = False
        for bi, t in wakes:
            pt = tuple(c for c in VALUE_CALLS if c != "core::mem::take") + ("core::iter::traits::iterator::Iterator::next",)
            for a in origins(f, t.args[0], pt):
                if a.kind == "call" and f.blocks[a.data].term.callee.is_("core::mem::take", "core::mem::replace", "alloc::vec::Vec::drain"):
                    woke = True
        ctx.require(woke, rule, "raise-wakes-each", "each taken waker is woken", f.loc(f.line),
                    fail="the wakers taken from the list are not the ones being woken")
    if stores:
        v = stores[0][1].args[1]
        ctx.require(v.const_bool() is True, rule, "raise-stores-true", "Flag::raise stores `true`", f.loc(stores[0][1].line))
    p = ctx.anchor_one(rule, "<Flag as Future>::poll", ctx.facts.trait_methods(FL, "Future", "poll"))
    cfg = CFG(p)
    # registration point: entering the waker list's critical section (lock) or AtomicWaker::register
    regs = [(bi, t) for bi, t in p.calls() if t.callee.is_("std::sync::poison::mutex::Mutex::lock", "std::sync::Mutex::lock", "AtomicWaker::register")]
    pushes = [(bi, t) for bi, t in p.calls() if t.callee.is_("alloc::vec::Vec::push")]
    if regs and not any(t.callee.is_("AtomicWaker::register") for _, t in regs):
        cfgp = CFG(p)
        anyc = [(bi, t) for bi, t in p.calls() if t.callee.is_("core::iter::traits::iterator::Iterator::any")]
        okp = len(pushes) == 1 and cfgp.dominates(regs[0][0], pushes[0][0])
        if okp and anyc:
            sw = None
            for b in cfgp.reachable_from(anyc[0][1].target):
                if p.blocks[b].term.kind == "switch":
                    sw = p.blocks[b].term
                    break
            # `if !any(will_wake) { push }`: when no stored waker would wake this task, the push is on every path to the re-check
            okp = sw is not None
            if okp:
                true_t = sw.otherwise
                false_t = [tt for v, tt in sw.cases if v == 0]
                okp = bool(false_t) and not cfgp.reaches(true_t, pushes[0][0]) and cfgp.reaches(false_t[0], pushes[0][0])
                ww = [t for _, t in p.calls()] + [t for c in ctx.facts.children(p) for _, t in c.calls()]
                okp = okp and any(t.callee.is_("core::task::wake::Waker::will_wake") for t in ww)
        ctx.require(okp, rule, "poll-registers-own-waker", "inside the critical section the task's waker is stored unless an equivalent one already is",
                    p.loc(p.line), fail="Flag::poll does not reliably store the polling task's waker")
    # the answer is the flag: Ready exactly when the last load saw it set, Pending exactly when it saw it unset - on every syntactic path
    pps = pathx.Enum().paths(thir.root(p))
    wrong = []
    for q in pps:
        loads_ = []
        for e in q.ev:
            if e[0] == "branch":
                d, neg = pathx.split_not(e[1])
                if "load(self.0.set" in d.replace("^", ""):
                    loads_.append(bool(e[2]) != neg)
        val = (q.val or "")
        if val.startswith("Ready") and not (loads_ and loads_[-1] is True):
            wrong.append("Ready without having seen the flag set")
        elif val.startswith("Pending") and not (loads_ and loads_[-1] is False):
            wrong.append("Pending without having seen the flag unset")
        elif not val.startswith(("Ready", "Pending")):
            wrong.append("unmodelled result %s" % val[:40])
    ctx.require(len(pps) >= 3 and not wrong, rule, "poll-answers-the-flag", "Flag::poll returns Ready only after loading the flag as set and Pending only after loading it as unset (%d paths)" % len(pps),
                p.loc(p.line), detail=str(sorted(set(wrong))),
                fail="Flag::poll can answer without consulting the flag (%s): a ticket resolves although its control has not run" % sorted(set(wrong)))
    # polling never unregisters anybody: the list only ever shrinks in raise()
    REMOVERS = ("Vec::retain", "Vec::retain_mut", "Vec::clear", "Vec::truncate", "Vec::remove", "Vec::swap_remove", "Vec::pop", "Vec::drain", "Vec::split_off",
                "Vec::dedup", "Vec::dedup_by", "Vec::dedup_by_key", "Vec::extract_if", "core::mem::take", "core::mem::replace", "core::mem::swap")
    rem = sorted({strip_generics(t.callee.def_ or repr(t.callee)) for g in [p] + ctx.facts.descendants(p) for _, t in g.calls()
                  if any(t.callee.is_(r) for r in REMOVERS)})
    ctx.require(not rem, rule, "poll-keeps-other-waiters", "Flag::poll never removes a registered waker (any number of tasks may wait on one flag)", p.loc(p.line),
                detail=str(rem), fail="Flag::poll removes registered wakers (%s): tasks waiting on the same flag are never woken by raise()" % rem)
    LOAD = ("core::sync::atomic::Atomic::load", "AtomicBool::load")

    def reads_flag(t):
        if t.callee.is_(*LOAD):
            return True
        # an accessor of the flag module whose whole body is that load (Flag::raised)
        g = ctx.facts.find_fn(strip_generics(t.callee.def_ or "")) if (t.callee.def_ or "").startswith(SUP + "::flag::") else None
        if g is None or not g.blocks:
            return False
        cs = [t2 for _, t2 in g.calls() if not t2.callee.is_(*IDENTITY_CALLS)]
        return len(cs) == 1 and cs[0].callee.is_(*LOAD)
    loads = [(bi, t) for bi, t in p.calls() if reads_flag(t)]
    ctx.floor(rule, "waker registration in Flag::poll", len(regs), 1)
    ctx.floor(rule, "flag loads in Flag::poll", len(loads), 2)
    pend = []
    for b in p.blocks:
        for s in b.stmts:
            if s.kind == "=" and s.rv.kind == "agg" and s.rv.agg_adt() and s.rv.agg_adt()[0] == "core::task::poll::Poll" and s.rv.agg_adt()[1] == "Pending":
                pend.append(b.idx)
    ctx.floor(rule, "Poll::Pending returns", len(pend), 1)
    for rb, _ in regs:
        after = [bi for bi, _ in loads if cfg.reaches(rb, bi) and not cfg.reaches(bi, rb)]
        ok = bool(after) and all(cfg.must_pass(rb, [pb], after) for pb in pend)
        ctx.require(ok, rule, "poll-recheck-after-register", "Flag::poll re-checks the flag after registering the waker, before returning Pending",
                    p.loc(p.line),
                    fail="Flag::poll can return Pending without re-checking the flag after registering its waker: a raise() in between is lost")
    # Pending only after registration
    for pb in pend:
        ctx.require(cfg.must_pass(0, [pb], [rb for rb, _ in regs]), rule, "poll-pending-registered", "Pending is returned only after a waker was registered", p.loc(p.line),
                    fail="Flag::poll can return Pending without having registered a waker: the task is never woken")
    # result table over the THIR paths: Ready <=> the last load of the flag on the path saw `true`
    en = pathx.Enum()
    bad = []
    n_r = n_p = 0
    for q in en.paths(thir.root(p)):
        last = None
        for e in q.ev:
            if e[0] == "branch" and pathx.split_not(e[1])[0].replace("^", "").startswith("Atomic::load(self.0.set"):
                last = (e[2] != pathx.split_not(e[1])[1])
        res = (q.val or "")
        if q.out not in ("val", "ret"):
            continue
        if res.startswith("Ready"):
            n_r += 1
            if last is not True:
                bad.append("Ready although the flag was last seen %s: %s" % ("unset" if last is False else "untested", pathx.show_events(q.ev)[-200:]))
        elif res.startswith("Pending"):
            n_p += 1
            if last is not False:
                bad.append("Pending although the flag was last seen %s: %s" % ("raised" if last else "untested", pathx.show_events(q.ev)[-200:]))
        else:
            bad.append("result %r is neither Ready nor Pending" % res)
    ctx.require(not bad and n_r >= 2 and n_p >= 1, rule, "poll-result-table", "Flag::poll returns Ready exactly on paths whose last load saw the flag raised, Pending on the others "
                "(%d Ready, %d Pending paths)" % (n_r, n_p), p.loc(p.line), detail="; ".join(bad)[:600],
                fail="Flag::poll's result does not follow the flag: " + "; ".join(bad)[:300])


def multi_waiter(ctx, rule="R07.5"):
    """a cloneable, Arc-shared future must not park its waiter in a single-slot AtomicWaker"""
    facts = ctx.facts
    n = 0
    for f in facts.crate_fns(SUP):
        if not (f.impl_trait and "Future" in f.impl_trait and f.def_.endswith("::poll")):
            continue
        n += 1
        ctx.saw_fn(f)
        ty = f.self_ty
        clone = facts.derived(ty, "Clone")
        single = [t for _, t in f.calls() if t.callee.is_("AtomicWaker::register")]
        ctx.require(not (clone is not None and single), rule, "single-slot-waker:" + ty,
                    "%s (Clone=%s) does not register into a single-slot AtomicWaker" % (ty, clone is not None), f.loc(f.line),
                    fail="%s is Clone and its poll() registers the waker in a single-slot AtomicWaker shared by all clones: only the "
                         "last task to poll is woken, every other waiter on the same ticket/flag sleeps forever" % ty)
    ctx.floor(rule, "Future impls in the supervisor crate", n, 2)
    # the waker store is a collection
    inner = facts.find_adt(SUP + "::flag::Inner")
    if inner is None:
        ctx.violation(rule, "floor:anchor:Inner", "flag::Inner not found")
    else:
        tys = [fl["ty"] for fl in inner["variants"][0]["fields"]]
        ctx.require(not any("AtomicWaker" in t for t in tys), rule, "waker-store", "Flag's waker storage is not a single AtomicWaker slot",
                    detail=str(tys), fail="Flag stores a single AtomicWaker although flags are shared between ticket clones")


def ticket_shape(ctx, rule="R07.6"):
    M = SUP + "::job::messages::Ticket"
    p = ctx.anchor_one(rule, "<Ticket as Future>::poll", ctx.facts.trait_methods(M, "Future", "poll"))
    calls = thir.calls_in(thir.root(p))
    sel = [n for c, n in calls if strip_generics(c).endswith("futures_util::future::select::select")]
    ok = False
    if len(sel) == 1:
        a = [pathx.desc(x) for x in sel[0]["a"]]
        ok = sorted(a) == ["Clone::clone(self.control_done)", "Clone::clone(self.job_gone)"]
    ctx.require(ok, rule, "ticket-selects-both", "Ticket::poll resolves when either the job-gone or the control-done flag is raised", p.loc(p.line),
                fail="Ticket no longer selects over both the job-gone and the control-done flag")
    c = ctx.anchor_fn(rule, M + "::cancelled")
    v = thir.expr_value(thir.root(c))
    ok = v[0] == "v" and all(x[0] == "call" and x[1].endswith("Flag::new") and x[2] == [("b", True)] for x in v[3].values()) and len(v[3]) == 2
    ctx.require(ok, rule, "cancelled-is-raised", "Ticket::cancelled() has both flags raised", c.loc(c.line))
    s = ctx.anchor_fn(rule, SUP + "::job::job::Job::send_controls")
    # `if N == 0 || self.gone.raised() { Ticket::cancelled() }`
    # path rule over send_controls: whenever the gone flag is observed raised the result is Ticket::cancelled() and nothing is
    # sent; whenever it is observed not raised (and N > 0) the result is a prepared ticket and every prepared control is sent
    from .throttle import implies
    GONE = "Flag::raised(self.gone)"
    en = pathx.Enum(interesting=lambda d: any(strip_generics(d).endswith(x) for x in ("Ticket::cancelled", "PrioritySender::send", "Job::prepare_control", "Flag::raised")))
    ps = en.paths(thir.root(s)["e"] if thir.root(s).get("k") == "block_wrapper" else thir.root(s))
    n_dead = n_live = 0
    bad = []
    for p_ in ps:
        def count(evs):
            names = [strip_generics(e[1]) for e in evs if e[0] == "call"]
            return (sum(1 for n_ in names if n_.endswith("PrioritySender::send")), sum(1 for n_ in names if n_.endswith("Job::prepare_control")),
                    sum(1 for n_ in names if n_.endswith("Ticket::cancelled")))
        sends, preps, canc = count(p_.ev)
        unbalanced = False
        for e in p_.ev:
            if e[0] == "loop":      # each iteration of the N > 1 loop prepares one control and sends it
                for it in e[1]:
                    s_, p2, c_ = count(it)
                    sends += s_
                    preps += p2
                    canc += c_
                    unbalanced = unbalanced or s_ != p2
        if unbalanced:
            bad.append("an iteration prepares a control without sending it (or the reverse): " + pathx.show_events(p_.ev))
        # "the job is known alive and there is something to send" must be evidenced by the conditions on the path
        alive = any(e[0] == "branch" and implies(e[1], e[2], GONE, False) for e in p_.ev)
        nonempty = any(e[0] == "branch" and implies(e[1], e[2], "constparam Eq 0", False) for e in p_.ev)
        if alive and nonempty:
            n_live += 1
            if canc or preps == 0 or sends != preps:
                bad.append("job alive and N > 0, yet " + pathx.show_events(p_.ev))
        else:
            # the job may be gone (or N == 0): the ticket must be the already-resolved one and nothing may be queued
            n_dead += 1
            if sends or preps or canc != 1:
                bad.append("job possibly gone (no condition on the path rules it out), yet " + pathx.show_events(p_.ev))
    ok = not bad and n_dead >= 1 and n_live >= 1
    ctx.require(ok, rule, "dead-job-cancelled", "send_controls: gone raised => Ticket::cancelled() and nothing sent; gone not raised => every prepared control sent "
                "(%d dead path(s), %d live path(s))" % (n_dead, n_live), s.loc(s.line), detail="; ".join(bad)[:600],
                fail="send_controls no longer maps a dead job to an already-resolved ticket and a live job to a sent control: " + "; ".join(bad)[:400])
    pc = ctx.anchor_fn(rule, SUP + "::job::job::Job::prepare_control")
    v = thir.expr_value(thir.root(pc))
    ok = False
    if v[0] == "t" and len(v[1]) == 2:
        tk, msg = v[1]
        ok = tk[0] == "v" and tk[2] == "Ticket" and tk[3]["control_done"][0] == "call" and tk[3]["control_done"][1].endswith("Clone::clone") \
            and tk[3]["control_done"][2] == [("var", "done")] and tk[3]["job_gone"][2][0] == ("field", ("var", "self"), "gone") \
            and msg[0] == "v" and msg[2] == "ControlMessage" and msg[3]["done"] == ("var", "done") and msg[3]["control"] == ("var", "control")
    ctx.require(ok, rule, "ticket-shares-flag", "prepare_control gives the ticket a clone of the very flag sent with the control, and the job's gone flag",
                pc.loc(pc.line), fail="the ticket and the control message no longer share the same completion flag")


# ------------------------------------------------------------------------------------------------
# C10
def recv_order(ctx, B, rule="R10.1"):
    f = B.recv
    cfg = CFG(f)

    def reads(kind, name):
        out = []
        for bi, t in f.calls():
            if t.callee.is_("tokio::sync::mpsc::unbounded::UnboundedReceiver::" + kind):
                if any(a.kind in ("upvar", "arg") and a.proj and a.proj[-1][2] == name for a in origins(f, t.args[0])):
                    out.append((bi, t))
        return out
    past = past_tests(f)
    ut, ht = reads("try_recv", "urgent"), reads("try_recv", "high")
    # the try_recv prelude is one of two sufficient mechanisms: biased selects listing their branches in priority order (required below, select-biased /
    # select-branch-order) already take a pending urgent / high control first, so a recv() without the prelude is accepted; a partial prelude is not
    ctx.require(len(past) == 1 and ((len(ut) == 1 and len(ht) == 1) or (not ut and not ht)), rule, "prelude-present",
                "recv first checks the expired timer; pending urgent and high controls are drained by try_recv (urgent, then high) or left to the biased selects", f.loc(f.line),
                fail="recv drains only part of the pending higher-priority queues before waiting (found is_past=%d urgent.try_recv=%d high.try_recv=%d)" % (len(past), len(ut), len(ht)))
    if len(past) == 1 and len(ut) == 1 and len(ht) == 1:
        ctx.require(cfg.dominates(past[0][0], ut[0][0]) and cfg.dominates(ut[0][0], ht[0][0]), rule, "prelude-order",
                    "expired timer is checked before urgent, urgent before high", f.loc(ut[0][1].line),
                    fail="the order expired-timer > urgent > high is not respected in recv")
        for bi, t in f.calls():
            if t.callee.is_("tokio::sync::mpsc::unbounded::UnboundedReceiver::recv"):
                ctx.require(cfg.dominates(ht[0][0], bi), rule, "select-after-prelude:%d" % bi if False else "select-after-prelude",
                            "the blocking select is entered only after both try_recv found nothing", f.loc(t.line))
        # a found urgent message returns immediately (does not reach high.try_recv)
        sw = None
        for b in cfg.reachable_from(ut[0][1].target):
            if f.blocks[b].term.kind == "switch":
                sw = f.blocks[b].term
                break
        ok_t = [tt for v, tt in sw.cases if v == 0] if sw else []
        ctx.require(bool(ok_t) and not cfg.reaches(ok_t[0], ht[0][0]), rule, "urgent-returns", "a pending urgent control is returned at once", f.loc(ut[0][1].line))
    # the blocking selects are biased and list their branches in priority order
    pollers = [c for c in ctx.facts.children(f) if c.kind == "closure" and sum(1 for _, t in c.calls() if t.callee.is_("core::future::future::Future::poll")) >= 2]
    ctx.floor(rule, "select! poll closures in recv", len(pollers), 2)
    for c in pollers:
        ctx.saw_fn(c)
        rnd = [t for _, t in c.calls() if t.callee.is_("tokio::macros::support::thread_rng_n")]
        ctx.require(not rnd, rule, "select-biased:" + c.def_.split("::")[-1], "the select! polls its branches in the listed (priority) order, not from a random start",
                    c.loc(c.line),
                    fail="a select! in PriorityReceiver::recv is unbiased: when controls are pending in several queues at the moment the idle job task "
                         "is woken, a random one is taken, so a pending normal control can run before a pending urgent or high one")
    orders = []
    for b in f.blocks:
        for st in b.stmts:
            if st.kind == "=" and st.rv.kind == "agg" and st.rv.extra[0] == "tuple" and len(st.rv.ops) == 3:
                labels = []
                for op in st.rv.ops:
                    lab = None
                    for a in origins(f, op, ()):
                        if a.kind == "call":
                            ct = f.blocks[a.data].term
                            if ct.callee.is_("Timer::to_sleep"):
                                lab = "timer"
                            elif ct.callee.is_("tokio::sync::mpsc::unbounded::UnboundedReceiver::recv"):
                                for x in origins(f, ct.args[0]):
                                    if x.kind in ("upvar", "arg") and x.proj:
                                        lab = x.proj[-1][2]
                    labels.append(lab)
                if all(labels):
                    orders.append(tuple(labels))
    ctx.require(sorted(orders) == [("timer", "urgent", "high"), ("urgent", "high", "normal")], rule, "select-branch-order",
                "select branches are listed timer > urgent > high and urgent > high > normal", f.loc(f.line), detail=str(orders),
                fail="the select! branches of recv are listed as %s: with a biased select the listed order is the priority order" % orders)
    # select branch sets
    sets = {}
    for bi, t in f.calls():
        if t.callee.is_("tokio::sync::mpsc::unbounded::UnboundedReceiver::recv"):
            for a in origins(f, t.args[0]):
                if a.kind in ("upvar", "arg") and a.proj:
                    sets.setdefault(a.proj[-1][2], []).append(bi)
    ctx.require(len(sets.get("urgent", [])) == 2 and len(sets.get("high", [])) == 2 and len(sets.get("normal", [])) == 1, rule, "select-branches",
                "with a timer the select waits on urgent+high, without on urgent+high+normal", f.loc(f.line), detail=str({k: len(v) for k, v in sets.items()}),
                fail="the queues waited on in recv changed: %s" % {k: len(v) for k, v in sets.items()})


def send_order(ctx, rule="R10.2"):
    s = ctx.anchor_fn(rule, SUP + "::job::job::Job::send_controls")
    cfg = CFG(s)
    sends = [(bi, t) for bi, t in s.calls() if t.callee.is_("PrioritySender::send")]
    preps = [(bi, t) for bi, t in s.calls() if t.callee.is_("Job::prepare_control")]
    ctx.floor(rule, "PrioritySender::send sites in send_controls", len(sends), 1)   # the single-control case may be the shortest batch of the one loop
    for bi, t in sends:
        pr = origins(s, t.args[2])
        ctx.require(all(a.kind == "arg" and a.data == 3 for a in pr) and pr, rule, "same-priority:%d" % sends.index((bi, t)),
                    "every control of the batch is sent with the caller's priority", s.loc(t.line),
                    fail="a control of a multi-control operation is sent with a different priority than requested")
        # message comes from prepare_control of this iteration
        oc = origin_calls(s, t.args[1])
        ctx.require(any(c.callee.is_("Job::prepare_control") for c, _ in oc), rule, "msg-from-prepare:%d" % sends.index((bi, t)),
                    "the sent message is the one prepared for that control", s.loc(t.line))
    # THIR: loop shape `for control in controls { (ticket, control) = prepare; last_ticket = Some(ticket); send }`
    root = thir.root(s)
    fl = [m for m in thir.find(root, "match") if m.get("src") == "ForLoopDesugar"]
    ok = False
    det = ""
    if fl:
        it = thir.peel(fl[0]["e"])
        det = pathx.desc(it)
        ok = it.get("k") == "call" and pathx.desc(it["a"][0]) == "controls"
    ctx.require(ok, rule, "iterates-array-in-order", "the controls array is iterated by value, in order", s.loc(s.line), detail=det,
                fail="send_controls no longer iterates the given controls in order")
    assigns = [n for n in thir.find(root, "assign") if pathx.desc(n["a"]) == "last_ticket"]
    ok = len(assigns) == 1 and pathx.desc(assigns[0]["b"]) == "Some{0: ticket}"
    ctx.require(ok, rule, "returns-last-ticket", "the ticket returned for a batch is the one of the last control", s.loc(s.line),
                detail=str([pathx.desc(n["b"]) for n in assigns]),
                fail="send_controls no longer returns the ticket of the last control of the batch: awaiting it does not imply the earlier controls ran")
    # no await between sends: send_controls is not async
    ctx.require(not s.asyncness and s.kind == "method", rule, "no-suspension", "send_controls is synchronous (no suspension between the sends)", s.loc(s.line))


def channel_pairing(ctx, rule="R10.4"):
    n = ctx.anchor_fn(rule, SUP + "::job::priority::new")
    # aggregates PrioritySender{normal,high,urgent} / PriorityReceiver{...}: fields pair up by originating unbounded_channel() call
    tx, rx = {}, {}
    for b in n.blocks:
        for s in b.stmts:
            if s.kind == "=" and s.rv.kind == "agg" and s.rv.agg_adt():
                adt, var, fields = s.rv.agg_adt()
                if adt.endswith("PrioritySender") or adt.endswith("PriorityReceiver"):
                    for fname, op in zip(fields, s.rv.ops):
                        src = {a.data for a in origins(n, op) if a.kind == "call"}
                        (tx if adt.endswith("Sender") else rx)[fname] = src
    ok = set(tx) == {"normal", "high", "urgent"} and set(rx) == set(tx)
    ctx.require(ok, rule, "three-queues", "three queues are created: normal, high, urgent", n.loc(n.line), detail="%s %s" % (tx, rx))
    if ok:
        for k in sorted(tx):
            ctx.require(len(tx[k]) == 1 and tx[k] == rx[k] and n.blocks[next(iter(tx[k]))].term.callee.is_("unbounded_channel"), rule, "paired:" + k,
                        "sender.%s and receiver.%s are the two ends of one channel" % (k, k), n.loc(n.line),
                        fail="the %s sender is not paired with the %s receiver: controls sent at one priority are received at another" % (k, k))
        ctx.require(len({next(iter(v)) for v in tx.values()}) == 3, rule, "distinct-channels", "the three priorities use three distinct channels", n.loc(n.line))
    s = ctx.anchor_fn(rule, SUP + "::job::priority::PrioritySender::send")
    m = [x for x in thir.find(thir.root(s), "match") if x["sty"].endswith("Priority")]
    if len(m) != 1:
        ctx.violation(rule, "floor:send-match", "PrioritySender::send no longer matches on the priority", s.loc(s.line))
    else:
        # two spellings: every arm sends (`P => self.q.send(message)`), or the match selects the queue and one send follows (`let q = match .. { P => &self.q }; q.send(message)`)
        root_ = thir.root(s)
        inside = {id(n) for n in thir.walk(m[0])}
        bound = [st["p"].get("n") for st in thir.walk(root_) if isinstance(st, dict) and st.get("k") == "let" and isinstance(st.get("i"), dict) and thir.peel(st["i"]) is m[0]
                 and st["p"].get("k") == "bind"]
        outer = [[pathx.desc(a).lstrip("&^") for a in nd["a"]] for c, nd in thir.calls_in(root_) if id(nd) not in inside and strip_generics(c).endswith("UnboundedSender::send")]
        selected = len(bound) == 1 and outer == [[bound[0], "message"]]
        for pv in ("Normal", "High", "Urgent"):
            i = thir.first_arm(m[0], ("v", SUP + "::job::priority::Priority", pv, {}))
            ok = False
            got = "?"
            if i is not None:
                body = thir.peel(m[0]["arms"][i]["b"])
                if body.get("k") == "call":
                    got = pathx.desc(body["a"][0])
                    ok = got == "self." + pv.lower() and pathx.desc(body["a"][1]) == "message" and not outer
                else:
                    got = pathx.desc(body).lstrip("&^")
                    ok = selected and got == "self." + pv.lower()
            ctx.require(ok, rule, "send-maps:" + pv, "Priority::%s is sent on the %s queue" % (pv, pv.lower()), s.loc(s.line),
                        fail="Priority::%s controls are sent on %s instead of the %s queue" % (pv, got, pv.lower()))


def single_consumer(ctx, B, rule="R10.5"):
    facts = ctx.facts
    users = []
    for f in facts.crate_fns(SUP):
        if f.error:
            continue
        for bi, t in f.calls():
            if t.callee.is_("PriorityReceiver::recv"):
                users.append((f, t))
    ctx.require(len(users) == 1 and users[0][0] is B.b0, rule, "single-consumer", "PriorityReceiver::recv is called only by the job task",
                users[0][0].loc(users[0][1].line) if users else None,
                fail="the control queues have %d consumers: %s" % (len(users), [u[0].def_ for u in users]))
    # controls run to completion inside the handler: nothing is detached to run concurrently with later controls
    for fn in (B.b1, B.b2):
        sp = [t for _, t in fn.calls() if t.callee.is_("tokio::task::spawn::spawn", "tokio::task::spawn::spawn_local", "tokio::task::blocking::spawn_blocking",
                                                       "tokio::runtime::handle::Handle::spawn")]
        ctx.require(not sp, rule, "no-detached-work:" + fn.def_.split("::")[-1], "handlers run each control to completion inline (no spawned tasks)", fn.loc(fn.line),
                    fail="the %s detaches work with tokio::spawn: later controls run concurrently with an earlier one, so awaiting the last ticket no "
                         "longer implies the earlier controls have finished" % ("control handler" if fn is B.b2 else "process-end handler"))
    # nothing re-queues inside the handlers
    for fn in (B.b1, B.b2):
        re_q = [t for _, t in fn.calls() if t.callee.is_("PrioritySender::send", "UnboundedSender::send")]
        ctx.require(not re_q, rule, "no-requeue:" + fn.def_.split("::")[-1], "handlers never re-queue a control", fn.loc(fn.line))


def wrapper_table(ctx, rule):
    """SpawnOptions -> process-wrap wrappers, by pattern semantics over the match in Command::to_spawnable"""
    f = ctx.anchor_one(rule, "Command::to_spawnable", ctx.facts.fns_matching(r"command::.*to_spawnable$", crate=SUP))
    root = thir.root(f)
    SO = SUP + "::command::SpawnOptions"

    def wraps_under(session, grouped, reset=None):
        val = ("v", SO, "SpawnOptions", {"session": ("b", session), "grouped": ("b", grouped), "reset_sigmask": thir.ANY if reset is None else ("b", reset)})
        d = {"self.options.session": session, "self.options.grouped": grouped}
        if reset is not None:
            d["self.options.reset_sigmask"] = reset
        with pathx.reading_through(root):
            calls, und = pathx.calls_under(root, d, {"self.options": val})
        ws = []
        for n in calls:
            fnn = thir.peel(n["fn"])
            if isinstance(fnn, dict) and strip_generics(fnn.get("def") or "").endswith("TokioCommandWrap::wrap"):
                full = fnn.get("full", "")
                ws.append((full[full.index("wrap::<") + 7:-1] if "wrap::<" in full else full).split("::")[-1])
        leader = any(strip_generics((thir.peel(n["fn"]) or {}).get("def") or "").endswith("ProcessGroup::leader") for n in calls if isinstance(thir.peel(n["fn"]), dict))
        return ws, leader, und
    anyw, _, _ = wraps_under(True, True)
    if not any(w in ("ProcessSession", "ProcessGroup") for w in anyw) and not any(w == "ProcessGroup" for w in wraps_under(False, True)[0]):
        ctx.violation(rule, "floor:spawn-options-match", "to_spawnable no longer selects a process-group / session wrapper from its options", f.loc(f.line))
        return f
    for session in (True, False):
        for grouped in (True, False):
            key = "session=%s,grouped=%s" % (session, grouped)
            ws, leader, und = wraps_under(session, grouped)
            gw = [w for w in ws if w in ("ProcessSession", "ProcessGroup", "JobObject")]
            und_ = [u for u in und if "options" in u and "reset_sigmask" not in u]
            if und_:
                ctx.incomplete(rule, "wrappers:" + key, "cannot decide the arm", f.loc(f.line), detail=str(und_)[:200])
                continue
            want = ["ProcessSession"] if session else (["ProcessGroup"] if grouped else [])
            ctx.require(gw == want, rule, "wrappers:" + key, "%s -> %s" % (key, gw or "no group wrapper"), f.loc(f.line),
                        fail="with %s the command is wrapped with %s, expected %s: signals/kills may miss the rest of the process group or session" % (key, gw, want))
            if not session and grouped:
                ctx.require(leader, rule, "wrappers:group-leader", "a grouped command is made its group's leader", f.loc(f.line))
    # reset_sigmask
    on = "ResetSigmask" in wraps_under(False, False, True)[0]
    off = "ResetSigmask" in wraps_under(False, False, False)[0]
    ctx.require(on and not off, rule, "wrappers:reset-sigmask", "reset_sigmask => ResetSigmask wrapper", f.loc(f.line))
    return f


def callbox_table(ctx, rule):
    """the sync/async callback boxes (spawn hook, error handler): None -> nothing, Sync -> the callback is called, Async -> the callback's future
    is awaited to completion before call() returns; nothing is detached (so `hook ran` means `hook finished`)"""
    facts = ctx.facts
    for name, args in (("SpawnHook", "(^command, ^context)"), ("ErrorHandler", "(^error)")):
        base = ctx.anchor_fn(rule, SUP + "::job::task::%s::call" % name)
        cor = [c for c in facts.descendants(base) if c.kind == "coroutine"]
        rows = {}
        spawned = []
        for c in [base] + facts.descendants(base):
            ctx.saw_fn(c)
            for _, t in c.calls():
                if t.callee.is_("tokio::task::spawn::spawn", "tokio::task::spawn::spawn_local", "tokio::task::blocking::spawn_blocking", "tokio::runtime::handle::Handle::spawn"):
                    spawned.append(c.def_)
        for c in cor:
            rc = thir.root(c)
            for vn in ("None", "Sync", "Async"):
                val = ("v", SUP + "::job::task::" + name, vn, {} if vn == "None" else {"0": thir.ANY})
                with pathx.reading_through(rc):
                    evs, und = pathx.calls_under(rc, {}, {"self": val})
                    if any(u.endswith("self") or "self" in u.split() for u in und):
                        continue
                    nodes = [n for n in evs if n.get("k") == "match" or not strip_generics((thir.peel(n["fn"]) or {}).get("def") or "").endswith("Deref::deref")]
                    calls = [strip_generics(thir.peel(n["fn"]).get("def") or "?").split("::")[-1] for n in nodes if n.get("k") == "call" and isinstance(thir.peel(n["fn"]), dict)]
                    awaits = sum(1 for n in nodes if n.get("k") == "match")
                    cargs = [pathx.desc(n["a"][1]) for n in nodes if n.get("k") == "call" and strip_generics((thir.peel(n["fn"]) or {}).get("def") or "").endswith("Fn::call")]
                rows[vn] = (calls, awaits, cargs)
        want = {"None": ([], 0, []), "Sync": (["call"], 0, [args]), "Async": (["call", "into_pin"], 1, [args])}
        ctx.require(rows == want and not spawned, rule, "callbox:" + name, "%s::call: None -> nothing; Sync -> called with %s; Async -> called and its future awaited; nothing detached" % (name, args),
                    base.loc(base.line), detail=str(rows)[:300] + (" spawned in %s" % spawned if spawned else ""),
                    fail="%s::call no longer runs the user's callback to completion before returning (%s%s): a spawn / an error report proceeds while the callback is still running"
                         % (name, str(rows)[:200], ", detached with tokio::spawn" if spawned else ""))


def recv_cancel_safe(ctx, rule):
    """PriorityReceiver::recv is polled as one branch of the job task's select! next to the process wait: it may be dropped at any await.
    So once a message has been taken out of a queue nothing may be awaited before it is returned - the only awaits of recv are the selects
    themselves (dropping recv there loses nothing: no message has been received yet)."""
    cands = [c for c in ctx.facts.fns_matching(r"^" + SUP.replace("::", "::") + r"::job::priority::PriorityReceiver::recv") if c.kind == "coroutine" and c.def_.endswith("recv::{closure#0}")]
    f = ctx.anchor_one(rule, "PriorityReceiver::recv coroutine", cands)
    bad, n = [], 0
    for x in thir.walk(thir.root(f)):
        if x.get("k") == "match" and x.get("src") == "AwaitDesugar":
            inner = thir.peel(x["e"])
            d = pathx.desc(inner["a"][0]) if isinstance(inner, dict) and inner.get("k") == "call" and inner.get("a") else "?"
            if d.startswith("Pin::new_unchecked(__awaitee"):
                continue        # inside the desugaring of an await already counted
            n += 1
            if not d.startswith("poll_fn::poll_fn("):
                bad.append(d[:80])
    ctx.floor(rule, "awaits of recv (the selects)", n, 1)
    ctx.require(not bad, rule, "recv-cancel-safe", "recv awaits nothing but its selects: a received control is returned without a further suspension point", f.loc(f.line), detail=str(bad),
                fail="PriorityReceiver::recv awaits %s besides its selects: when the job task's outer select! takes the process-end branch while recv is suspended there, "
                     "recv is dropped together with the control it had already taken from the queue - that control never runs and its ticket never resolves" % bad)


def flag_identity(ctx, B, rule):
    """The job task holds two kinds of Flag under similar names: the job-gone flag (a clone of the `gone` parameter, raised when the task
    ends) and the completion flag of the control being handled.  Decided by binding identity, not by name: no handler body refers to the
    job-gone flag - raising it from a handler marks a living job dead (every ticket resolves at once, later controls are cancelled, the
    library's worker forgets the job and creates a second one for the same Id)."""
    # the flag handed to the Job handle as `gone` (field of the Job literal built in start_job) and every local that is a clone of it
    gone_ids = set()
    sj = thir.root(B.start_job)
    for n in thir.walk(sj):
        if n.get("k") == "adt" and str(n.get("adt", "")).endswith("job::Job"):
            for fname, fx in n.get("f", []):
                x = thir.peel(fx)
                if fname == "gone" and isinstance(x, dict) and x.get("k") == "var" and "id" in x:
                    gone_ids.add(x["id"])
    for _ in range(3):
        for body in (B.start_job, B.b0):
            for n in thir.walk(thir.root(body)):
                if n.get("k") == "let" and isinstance(n.get("p"), dict) and n["p"].get("k") == "bind" and "id" in n["p"] and isinstance(n.get("i"), dict):
                    src = thir.peel(n["i"])
                    if isinstance(src, dict) and src.get("k") == "call" and src.get("a") and pathx.desc(src).startswith("Clone::clone("):
                        src = thir.peel(src["a"][0])
                    if isinstance(src, dict) and src.get("k") in ("var", "upvar") and src.get("id") in gone_ids:
                        gone_ids.add(n["p"]["id"])
    ctx.floor(rule, "bindings of the job-gone flag in the job task", len(gone_ids), 2)
    for label, body in (("process-end handler", B.b1), ("control handler", B.b2)):
        refs = []
        for g in [body] + ctx.facts.descendants(body):
            for n in thir.walk(thir.root(g)):
                if n.get("k") in ("var", "upvar") and n.get("id") in gone_ids:
                    refs.append(g.loc(n.get("l")))
        ctx.require(not refs, rule, "gone-flag-not-in:" + label.replace(" ", "-"), "the %s never touches the job-gone flag (binding identity, whatever the variable is called)" % label,
                    body.loc(body.line), detail=str(refs[:3]),
                    fail="the %s refers to the job-gone flag (%s): a `done.raise()` there resolves to the task's own end-of-life flag, not to the flag of the control being handled - "
                         "the job counts as dead while it lives, every ticket resolves before its control ran, and the library creates a second job for the same Id" % (label, refs[:2]))


# ------------------------------------------------------------------------------------------------
# shared by C06 / C07 / C01: Instant arithmetic with the panicking operators
def _compile_time_value(f, op, depth=0):
    """the operand is a literal / const, or arithmetic over such (`86400 * 365 * 30`)"""
    if op.is_const():
        return True
    if depth > 8:
        return False
    os_ = list(origins(f, op))
    if not os_:
        return False
    for o in os_:
        if o.kind == "const":
            continue
        if o.kind == "op":
            st = f.blocks[o.data[0]].stmts[o.data[1]]
            if st.rv is not None and st.rv.kind in ("bin", "un", "cast") and all(_compile_time_value(f, x, depth + 1) for x in st.rv.ops):
                continue
        return False
    return True


def no_panicking_instant_arith(ctx, rule, crates=("watchexec", "watchexec_supervisor", "watchexec_cli")):
    """`Instant + Duration` / `Instant - Duration` (and the assigning forms) panic when the result is not representable. Every such call in
    the production code of the given crates must have a compile-time constant duration: a duration that comes from the user (grace period,
    throttle, poll interval, delay) may be Duration::MAX. Expected count of offending sites: zero; the number of call sites examined is
    reported, and the fallback of Timer's deadline is the positive example that must be found (a constant operand)."""
    sites = []
    bad = []
    for f in ctx.facts.fn_by_def.values():
        if f.crate.name not in crates:
            continue
        for bi, t in f.calls():
            full = t.callee.full or ""
            if not t.callee.is_("ops::arith::Add::add", "ops::arith::Sub::sub", "ops::arith::AddAssign::add_assign", "ops::arith::SubAssign::sub_assign"):
                continue
            if not re.match(r"^<(tokio::time::instant::Instant|std::time::Instant) as core::ops::arith::\w+<core::time::Duration>>::", full):
                continue
            sites.append((f, t))
            const = True
            for o in origins(f, t.args[1]):
                if o.kind == "const":
                    continue
                if o.kind == "call" and not o.proj:
                    ct = f.blocks[o.data].term
                    if ct.callee.is_("core::time::Duration::from_secs", "core::time::Duration::from_millis", "core::time::Duration::from_micros",
                                     "core::time::Duration::from_nanos", "core::time::Duration::new") and all(_compile_time_value(f, a) for a in ct.args):
                        continue
                const = False
            if not const:
                bad.append((f, t))
    ctx.floor(rule, "Instant +/- Duration call sites examined (the far-future fallback of the grace timer is one)", len(sites), 1)
    for f, t in bad:
        ctx.violation(rule, "instant-arith-may-panic:%s" % strip_generics(f.def_).split("::{closure")[0].split("::")[-1],
                      "`Instant` arithmetic with the panicking operator on a duration that is not a compile-time constant: a user-supplied "
                      "duration such as Duration::MAX panics this task (%s)" % (t.callee.full or ""), f.loc(t.line))
    if not bad:
        ctx.ok(rule, "instant-arith-checked", "no Instant +/- Duration with a run-time duration outside checked_add / saturating forms (%d constant sites)" % len(sites))
