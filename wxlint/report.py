"""Obligations, evidence, violation keys, known findings."""
import hashlib
import json
import os
import time

VERIF = os.path.dirname(os.path.dirname(os.path.abspath(__file__)))


class Skip(Exception):
    """raised by a rule when an anchor is missing (already recorded as a floor violation)"""


class Ob:
    __slots__ = ("rule", "key", "what", "loc", "status", "detail", "trivial")

    def __init__(self, rule, key, what, loc, status, detail=None, trivial=False):
        self.rule = rule
        self.key = key
        self.what = what
        self.loc = loc
        self.status = status  # ok | violation | incomplete
        self.detail = detail
        self.trivial = trivial

    def full_key(self):
        return "%s:%s" % (self.rule, self.key)

    def to_json(self):
        d = {"rule": self.rule, "key": self.full_key(), "what": self.what, "status": self.status}
        if self.loc:
            d["at"] = self.loc
        if self.detail:
            d["detail"] = self.detail
        return d


class Ctx:
    def __init__(self, prop, facts, tier="quick", seed=0, repo="/repo", alt_facts=None):
        self.prop = prop
        self.facts = facts
        self.alt_facts = alt_facts or {}
        self.tier = tier
        self.seed = seed
        self.repo = repo
        self.obs = []
        self.rules = {}  # rule id -> text
        self.analysed_fns = set()
        self.analysed_blocks = 0
        self.analysed_calls = 0
        self.notes = []
        self.t0 = time.time()
        self.assumptions = []
        self.undecided = ""
        self.level = "other"
        self.trusted_base = []
        self.exhaustive = None
        self.extra_cov = {}

    # ---- declaring ---------------------------------------------------------------------------
    def rule(self, rid, text):
        self.rules[rid] = text

    def also(self, rid, text):
        """a further clause of rule `rid`, usually a rule owned by another property and evaluated here under this id"""
        self.rules[rid] = (self.rules.get(rid, "") + "; " + text).lstrip("; ")

    def saw_fn(self, fn):
        if fn.def_ not in self.analysed_fns:
            self.analysed_fns.add(fn.def_)
            self.analysed_blocks += len(fn.blocks)
            self.analysed_calls += sum(1 for _ in fn.calls())

    # ---- recording ---------------------------------------------------------------------------
    def ok(self, rule, key, what, loc=None, detail=None, trivial=False):
        self.obs.append(Ob(rule, key, what, loc, "ok", detail, trivial))
        return True

    def violation(self, rule, key, what, loc=None, detail=None):
        self.obs.append(Ob(rule, key, what, loc, "violation", detail))
        return False

    def incomplete(self, rule, key, what, loc=None, detail=None):
        self.obs.append(Ob(rule, "ANALYSIS-INCOMPLETE:" + key, what, loc, "violation", detail))
        return False

    def require(self, cond, rule, key, what, loc=None, detail=None, fail=None):
        if cond:
            return self.ok(rule, key, what, loc, detail)
        return self.violation(rule, key, fail or ("NOT: " + what), loc, detail)

    def floor(self, rule, name, found, expected, exact=False, loc=None):
        """fail closed when fewer instances than counted by hand are found"""
        good = (found == expected) if exact else (found >= expected)
        if good:
            return self.ok(rule, "floor:" + name, "%s: found %d (floor %d)" % (name, found, expected), loc, trivial=True)
        return self.violation(rule, "floor:" + name,
                              "%s: found %d, expected %s%d - the construct the property relies on disappeared"
                              % (name, found, "" if exact else ">= ", expected), loc)

    def anchor_fn(self, rule, def_path):
        f = self.facts.find_fn(def_path)
        if f is None or f.error:
            self.violation(rule, "floor:anchor:" + def_path, "anchor function %s not found in the analysed program" % def_path)
            raise Skip()
        self.saw_fn(f)
        return f

    def anchor_one(self, rule, name, candidates):
        """exactly one semantic match expected"""
        if len(candidates) != 1:
            self.violation(rule, "floor:anchor:" + name,
                           "expected exactly one %s, found %d%s" % (name, len(candidates),
                                                                    (": " + ", ".join(c.def_ for c in candidates[:4])) if candidates else ""))
            raise Skip()
        self.saw_fn(candidates[0])
        return candidates[0]

    # ---- borrowing ---------------------------------------------------------------------------
    _BORROW_CACHE = {}
    _BORROWING = set()

    def borrow(self, prop, rules, as_rule, why, keys=None):
        """Evaluates rules owned by another property under this property's id `as_rule`. The other property's whole rule set is run once
        per fact set (cached) on a private context; the obligations of the named rules (optionally only keys with one of the prefixes `keys`)
        are copied here, re-labelled `as_rule` and keyed `<their rule>:<their key>`. `why` says which clause of this property rests on them."""
        import importlib
        ck = (id(self.facts), prop)
        sub = Ctx._BORROW_CACHE.get(ck)
        if sub is None:
            if prop in Ctx._BORROWING or prop == self.prop:
                return 0
            Ctx._BORROWING.add(prop)
            try:
                sub = Ctx(prop, self.facts, tier=self.tier, seed=self.seed, repo=self.repo, alt_facts=self.alt_facts)
                importlib.import_module("wxlint.rules." + prop.lower()).run(sub)
            finally:
                Ctx._BORROWING.discard(prop)
            Ctx._BORROW_CACHE[ck] = sub
        texts = [sub.rules.get(r, "") for r in rules]
        self.also(as_rule, "%s (rules %s of %s evaluated here: %s)" % (why, ", ".join(rules), prop, " / ".join(t[:160] for t in texts)))
        n = 0
        for o in sub.obs:
            if o.rule not in rules:
                continue
            if keys is not None and not any(o.key.startswith(k) or o.key.startswith("ANALYSIS-INCOMPLETE:" + k) or o.key.startswith("floor:") for k in keys):
                continue
            self.obs.append(Ob(as_rule, "%s:%s" % (o.rule, o.key), o.what, o.loc, o.status, o.detail, o.trivial))
            n += 1
        if n == 0:
            self.violation(as_rule, "floor:borrowed:%s" % "+".join(rules), "no obligation of %s %s was evaluated - the borrowed rule disappeared" % (prop, rules))
        for d in sub.analysed_fns:
            f = self.facts.find_fn(d)
            if f is not None:
                self.saw_fn(f)
        return n

    # ---- finishing ---------------------------------------------------------------------------
    def finish(self, evidence_path, known):
        """returns exit code; prints VIOLATION / KNOWN-FINDING lines"""
        viol = [o for o in self.obs if o.status != "ok"]
        # de-dup by key
        seen = {}
        for o in viol:
            seen.setdefault(o.full_key(), o)
        viol = list(seen.values())
        known_keys = {k["key"]: k for k in known if k.get("property") == self.prop and "key" in k}
        unlisted = [o for o in viol if o.full_key() not in known_keys]
        listed = [o for o in viol if o.full_key() in known_keys]
        replay_dir = os.path.join(VERIF, "evidence", "replay")
        if os.environ.get("WXV_EVIDENCE"):      # runs against scratch copies keep their replay files next to their evidence
            replay_dir = os.path.join(os.path.dirname(os.path.abspath(os.environ["WXV_EVIDENCE"])), "replay")
        for o in listed:
            print("KNOWN-FINDING: property=%s %s %s" % (self.prop, o.full_key(), known_keys[o.full_key()].get("what", o.what)))
        for o in unlisted:
            os.makedirs(replay_dir, exist_ok=True)
            h = hashlib.sha256(o.full_key().encode()).hexdigest()[:12]
            rp = os.path.join(replay_dir, "%s-%s.json" % (self.prop, h))
            with open(rp, "w") as f:
                json.dump({"property": self.prop, "key": o.full_key(), "record": o.to_json()}, f, indent=1)
            print("VIOLATION property=%s replay=%s" % (self.prop, rp))
            print("  rule %s  key %s" % (o.rule, o.full_key()))
            print("  at   %s" % (o.loc or "?"))
            print("  what %s" % o.what)
            if o.detail:
                print("  why  %s" % (o.detail if isinstance(o.detail, str) else json.dumps(o.detail)))
        oks = [o for o in self.obs if o.status == "ok"]
        distinct = {o.full_key() for o in self.obs if not o.trivial}
        samples = []
        per_rule = {}
        for o in self.obs:
            if o.trivial:
                continue
            per_rule.setdefault(o.rule, 0)
            if per_rule[o.rule] < 3:
                per_rule[o.rule] += 1
                samples.append(o.to_json())
        if not samples:
            samples = [o.to_json() for o in self.obs[:5]]
        cov = {
            "explanation": "Static analysis of /repo's current source (rustc THIR/MIR facts): "
                           + " ".join("[%s] %s" % (k, v) for k, v in sorted(self.rules.items()))
                           + ((" UNDECIDED (not claimed): " + self.undecided) if self.undecided else ""),
            "rule": "one obligation per (rule, construct instance); non-trivial = matched a real construct in the "
                    "analysed program (floor/count records are trivial and not counted as distinct)",
            "evaluations": len(self.obs),
            "distinct_nontrivial": len(distinct),
            "obligations": len(self.obs),
            "discharged": len(oks) + len([o for o in self.obs if o.status != "ok" and o.full_key() in known_keys]),
            "samples": samples[:40],
            "functions_analysed": len(self.analysed_fns),
            "blocks_analysed": self.analysed_blocks,
            "call_sites_analysed": self.analysed_calls,
            "program_bodies": self.facts.total_bodies(),
            "program_blocks": self.facts.total_blocks(),
            "rules": sorted(self.rules.keys()),
            "per_rule_obligations": {r: sum(1 for o in self.obs if o.rule == r) for r in sorted(self.rules)},
            "tree_hash": next(iter(self.facts.crates.values())).tree_hash if self.facts.crates else "",
            "configurations": ["default (workspace, unix, non-test)"] + sorted(self.alt_facts.keys()),
            "known_findings_matched": [o.full_key() for o in listed],
            "checker_cmd": "./check %s%s" % (self.prop, " --thorough" if self.tier == "thorough" else ""),
            "trusted_base": self.trusted_base or [
                "rustc front end and MIR construction", "the wxfacts driver's serialisation",
                "pass-through callee table of wxlint/origin.py"],
        }
        if self.exhaustive is not None:
            cov["exhaustive"] = self.exhaustive
        cov.update(self.extra_cov)
        if self.level == "proof":
            # proof level demands obligations == discharged; otherwise the claim is not made
            pass
        ev = {
            "property_id": self.prop,
            "tier": self.tier,
            "seed": self.seed,
            "level": self.level,
            "coverage": cov,
            "assumptions": self.assumptions + ["cfg(unix), non-test configuration; cfg(windows) code is not analysed"],
            "wall_s": round(time.time() - self.t0, 3),
            "violations": len(unlisted),
        }
        os.makedirs(os.path.dirname(evidence_path), exist_ok=True)
        tmp = evidence_path + ".tmp"
        with open(tmp, "w") as f:
            json.dump(ev, f, indent=1)
        os.replace(tmp, evidence_path)
        print("[%s] %d obligations, %d ok, %d known finding(s), %d violation(s); %d fns / %d blocks analysed; %.1fs"
              % (self.prop, len(self.obs), len(oks), len(listed), len(unlisted), len(self.analysed_fns),
                 self.analysed_blocks, time.time() - self.t0))
        return 1 if unlisted else 0


def load_known():
    p = os.path.join(VERIF, "known_findings.json")
    if not os.path.exists(p):
        return []
    with open(p) as f:
        d = json.load(f)
    return d.get("findings", [])
