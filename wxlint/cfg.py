"""CFG utilities over a Fn's MIR blocks: successors, dominators, post-dominators, reachability."""
from collections import deque


class CFG:
    def __init__(self, fn, unwind=False):
        self.fn = fn
        self.unwind = unwind
        self.n = len(fn.blocks)
        self.succ = [b.term.succs(unwind=unwind) for b in fn.blocks]
        self.pred = [[] for _ in range(self.n)]
        for i, ss in enumerate(self.succ):
            for s in ss:
                self.pred[s].append(i)
        self._dom = None
        self._pdom = None
        self._reach_cache = {}

    # ---- reachability --------------------------------------------------------------------
    def reachable_from(self, start, avoid=(), succ=None):
        """set of blocks reachable from `start` (inclusive) without entering blocks in `avoid`.
        `start` may be an int or iterable. Blocks in avoid are never expanded nor included
        (unless they are start blocks, which are included but still expanded)."""
        succ = succ or self.succ
        avoid = set(avoid)
        starts = [start] if isinstance(start, int) else list(start)
        seen = set(starts)
        dq = deque(starts)
        while dq:
            b = dq.popleft()
            for s in succ[b]:
                if s in seen or s in avoid:
                    continue
                seen.add(s)
                dq.append(s)
        return seen

    def reaches(self, a, b, avoid=()):
        return b in self.reachable_from(a, avoid)

    def live_blocks(self):
        return self.reachable_from(0)

    # ---- dominators ----------------------------------------------------------------------
    def _compute_dom(self, entry, succ, pred, nodes):
        # iterative set-based dominators (graphs here are <10k nodes; use bitsets via python ints)
        order = []
        seen = set([entry])
        stack = [(entry, iter(succ[entry]))]
        while stack:
            node, it = stack[-1]
            adv = False
            for s in it:
                if s not in seen and s in nodes:
                    seen.add(s)
                    stack.append((s, iter(succ[s])))
                    adv = True
                    break
            if not adv:
                order.append(node)
                stack.pop()
        rpo = list(reversed(order))
        idx = {b: i for i, b in enumerate(rpo)}
        idom = {entry: entry}
        changed = True

        def intersect(a, b):
            while a != b:
                while idx[a] > idx[b]:
                    a = idom[a]
                while idx[b] > idx[a]:
                    b = idom[b]
            return a

        while changed:
            changed = False
            for b in rpo[1:]:
                ps = [p for p in pred[b] if p in idom]
                if not ps:
                    continue
                new = ps[0]
                for p in ps[1:]:
                    new = intersect(new, p)
                if idom.get(b) != new:
                    idom[b] = new
                    changed = True
        return idom

    @property
    def idom(self):
        if self._dom is None:
            self._dom = self._compute_dom(0, self.succ, self.pred, set(range(self.n)))
        return self._dom

    def dominates(self, a, b):
        """a dominates b (both reachable from entry)"""
        idom = self.idom
        if b not in idom or a not in idom:
            return False
        while True:
            if a == b:
                return True
            nb = idom[b]
            if nb == b:
                return False
            b = nb

    def dominators_of(self, b):
        idom = self.idom
        out = []
        if b not in idom:
            return out
        while True:
            out.append(b)
            nb = idom[b]
            if nb == b:
                break
            b = nb
        return out

    # ---- post-dominators (w.r.t. a virtual exit joined from all return blocks) -----------
    def exits(self):
        return [b.idx for b in self.fn.blocks if b.term.kind in ("ret", "codrop")]

    @property
    def ipdom(self):
        if self._pdom is None:
            n = self.n
            EXIT = n
            succ = [list(p) for p in self.pred] + [[]]
            pred = [list(s) for s in self.succ] + [[]]
            for e in self.exits():
                succ[EXIT].append(e)
                pred[e].append(EXIT)
            self._pdom = self._compute_dom(EXIT, succ, pred, set(range(n + 1)))
        return self._pdom

    def postdominates(self, a, b):
        """a post-dominates b: every path from b to a return passes a"""
        ip = self.ipdom
        if a not in ip or b not in ip:
            return False
        while True:
            if a == b:
                return True
            nb = ip[b]
            if nb == b:
                return False
            b = nb

    # ---- path queries --------------------------------------------------------------------
    def must_pass(self, src, dst_set, through, stop=()):
        """True iff every path from block `src` to any block in dst_set passes a block in `through`.
        Equivalent: no dst is reachable from src when `through` blocks are removed.
        `stop` blocks additionally cut paths (they are treated as absorbing, fine)."""
        through = set(through)
        if src in through:
            return True
        reach = self.reachable_from(src, avoid=through | set(stop))
        return not (reach & set(dst_set))

    def natural_loop(self, a, h):
        """blocks of the natural loop of back edge a -> h"""
        body = {h, a}
        stack = [a] if a != h else []
        while stack:
            x = stack.pop()
            for p in self.pred[x]:
                if p not in body:
                    body.add(p)
                    stack.append(p)
        return body

    def loops_containing(self, b):
        """headers of natural loops that contain block b"""
        heads = set()
        for a, h in self.back_edges():
            if b in self.natural_loop(a, h):
                heads.add(h)
        return heads

    def back_edges(self):
        """edges (a, b) where b dominates a"""
        out = []
        for a in range(self.n):
            for b in self.succ[a]:
                if self.dominates(b, a):
                    out.append((a, b))
        return out


def call_sites(fn, *suffixes, pred=None):
    """(block idx, Term) of calls whose callee matches any suffix (def / resolved / full)."""
    out = []
    for bi, t in fn.calls():
        if suffixes and not t.callee.is_(*suffixes):
            continue
        if pred is not None and not pred(t):
            continue
        out.append((bi, t))
    return out
