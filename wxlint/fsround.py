"""Round model of sources::fs::worker (C13): one iteration of the worker loop as a transfer function over
(watcher, watcher_type, shadow set), read off the THIR paths of the loop body.

Convergence argument the rules discharge, with C = configured path set, K = configured kind, S = shadow set, W = watcher:
  I    : S = the paths registered on W (W = None => S = {}), W = Some(w) => kind(w) = watcher_type
  round: C = {}            => W := None, S := {}                                   (R13.9 empty)
         W = None or T != K => T := K, W := new(K), S := {}                         (R13.9 create; reset is R13.2)
         otherwise W, T kept, with evidence W != None and T == K                   (R13.9 keep)
         (to_watch, to_drop) = (C \\ S, S \\ C); the shortcut (C, {}) only when S = {}  (R13.9 diff)
         unwatch to_drop / watch to_watch with S updated on success                 (R13.3)
  => after a round without failures S = C, and no round is skipped or lost (R13.1, await-first).
"""
from . import thir, pathx
from .facts import strip_generics
from .throttle import implies

EMPTY = "Vec::is_empty(Changeable::get(config.pathset))"
NONE = "Option::is_none(watcher)"
NE = "PartialEq::ne(watcher_type, Changeable::get(config.file_watcher))"
SEMPTY = "HashSet::is_empty(pathset)"


def norm(d):
    """express the dual predicates through one atom each"""
    d = d.replace("Option::is_some(watcher)", "Not " + NONE)
    d = d.replace("PartialEq::eq(watcher_type, Changeable::get(config.file_watcher))", "Not " + NE)
    d = d.replace("PartialEq::ne(Changeable::get(config.file_watcher), watcher_type)", NE)
    d = d.replace("PartialEq::eq(Changeable::get(config.file_watcher), watcher_type)", "Not " + NE)
    return d


def known(evs, atom):
    """True / False when a condition on the path settles `atom`, else None"""
    for e in evs:
        if e[0] == "branch":
            d = norm(e[1])
            if implies(d, e[2], atom, True):
                return True
            if implies(d, e[2], atom, False):
                return False
    return None


def names(evs):
    return [strip_generics(e[1]) for e in evs if e[0] == "call"]


def has(evs, suffix):
    return any(n.endswith(suffix) for n in names(evs))


def idx(evs, pred):
    for i, e in enumerate(evs):
        if pred(e):
            return i
    return None


def check(ctx, w, interesting, rule="R13.9"):
    root = thir.root(w)
    loops = [n for n in thir.find(root, "loop") if not n.get("x")]
    if len(loops) != 1:
        ctx.violation(rule, "floor:worker-loop", "the fs worker no longer has exactly one round loop (found %d)" % len(loops), w.loc(w.line))
        return
    en = pathx.Enum(interesting=interesting)
    pathx.SUBST = pathx.let_substitutions(root)
    try:
        ps = en.paths(loops[0]["e"])
    finally:
        pathx.SUBST = {}
    ctx.floor(rule, "round paths of the fs worker", len(ps), 20)
    for p in ps:
        for e in p.ev:
            if e[0] == "unknown":
                ctx.incomplete(rule, "unmodelled:" + str(e[1]), "the fs worker contains a construct the path enumerator does not model: %s" % e[1], w.loc(w.line))
                return
    loc = w.loc(loops[0].get("l", w.line))
    bad = {k: [] for k in ("await-first", "empty-decided", "empty-round", "nonempty-keeps", "create-round", "keep-evidence", "shortcut-evidence", "exit")}
    n = dict(empty=0, create=0, keep=0, shortcut=0, slow=0)
    for p in ps:
        ev = p.ev
        sh = pathx.show_events(ev)[:300]
        # every round starts by waiting for a configuration change: nothing is (re)applied, and nothing spins, without one
        c0 = [e for e in ev if e[0] in ("call", "await", "branch", "assign")][:2]
        if not (len(c0) == 2 and c0[0][0] == "call" and strip_generics(c0[0][1]).endswith("ConfigWatched::next") and c0[1][0] == "await"):
            bad["await-first"].append(sh)
        em = known(ev, EMPTY)
        if em is None:
            bad["empty-decided"].append(sh)
            continue
        touched = [x for x in ("Watcher::create", "Watcher::watch", "Watcher::unwatch") if has(ev, "fs::" + x) or has(ev, x)]
        if em:
            n["empty"] += 1
            if not (has(ev, "Option::take") and has(ev, "HashSet::clear") and not touched and p.out == "cont"):
                bad["empty-round"].append(sh)
            continue
        if has(ev, "Option::take"):
            bad["nonempty-keeps"].append(sh)
        created = has(ev, "Watcher::create")
        i_s = idx(ev, lambda e: e[0] == "call" and strip_generics(e[1]).endswith("HashSet::is_empty"))
        if created:
            n["create"] += 1
            i_c = idx(ev, lambda e: e[0] == "call" and strip_generics(e[1]).endswith("Watcher::create"))
            typ = [e for e in ev if e[0] == "assign" and e[1] == "watcher_type" and e[2] == "Changeable::get(config.file_watcher)"]
            if p.out == "ret" and i_s is None:
                # creation failed: critical error, the worker ends (`?`)
                if not typ:
                    pass
            else:
                asg = idx(ev, lambda e: e[0] == "assign" and e[1] == "watcher" and "Watcher::create(Changeable::get(config.file_watcher)" in e[2])
                clr = idx(ev, lambda e: e[0] == "call" and strip_generics(e[1]).endswith("HashSet::clear"))
                if not (typ and asg is not None and clr is not None and i_s is not None and i_c < asg < clr < i_s):
                    bad["create-round"].append(sh)
        else:
            n["keep"] += 1
            if known(ev, NONE) is not False or known(ev, NE) is not False:
                bad["keep-evidence"].append(sh)
        if p.out == "ret" and i_s is None:
            continue
        se = known(ev, SEMPTY)
        slow = any(e[0] == "loop" and e[2] in ("for pathset", "for Changeable::get(config.pathset)") for e in ev)
        if slow:
            n["slow"] += 1
        else:
            n["shortcut"] += 1
            if se is not True:
                bad["shortcut-evidence"].append(sh)
        if p.out not in ("val", "cont", "ret", "div"):
            bad["exit"].append(sh)
    T = {
        "await-first": ("every round first awaits the configuration-change subscription", "a round of the fs worker starts without awaiting ConfigWatched::next (a lost or a busy round)"),
        "empty-decided": ("every round decides whether the configured path set is empty", "a round proceeds without testing the configured path set for emptiness"),
        "empty-round": ("configured set empty => watcher.take(), pathset.clear(), nothing (un)watched, next round", "with an empty configured path set the watcher is not released (or paths are still touched)"),
        "nonempty-keeps": ("configured set not empty => the watcher is not released", "the watcher is released although the configured path set is not empty"),
        "create-round": ("watcher (re)created => watcher_type := configured kind, watcher := the new one, shadow set cleared before it is read",
                         "a newly created watcher is not recorded together with its kind and an emptied shadow set"),
        "keep-evidence": ("watcher kept => the conditions on the path establish watcher != None and watcher_type == configured kind",
                          "the round goes on with the existing watcher without having established that it exists and has the configured kind: a kind change (or a missing watcher) is not acted on"),
        "shortcut-evidence": ("shortcut diff (watch all, drop none) is taken only when the shadow set is empty",
                              "the diff shortcut (watch every configured path, drop none) is taken although the shadow set is not known to be empty: removed paths stay registered"),
        "exit": ("rounds end by falling through, continue, `?` or the BUG panic", "unexpected exit from a round"),
    }
    for k, (good, fail) in T.items():
        ctx.require(not bad[k], rule, k, good, loc, detail=" || ".join(bad[k][:2])[:700], fail=fail)
    ctx.require(n["empty"] >= 1 and n["create"] >= 2 and n["keep"] >= 2 and n["shortcut"] >= 1 and n["slow"] >= 1, rule, "round-classes",
                "rounds of every class were found (%s)" % ", ".join("%s=%d" % kv for kv in sorted(n.items())), loc)

    # ---- the diff itself
    let_inits = [thir.peel(s["i"]) for s in thir.walk(loops[0]) if isinstance(s, dict) and s.get("k") == "let" and isinstance(s.get("i"), dict)]
    ifs = [x for x in thir.find(loops[0], "if") if pathx.split_not(pathx.desc(x["c"]))[0] == SEMPTY and any(x is y for y in let_inits)]
    ok = False
    detail = ""
    if len(ifs) == 1:
        node = ifs[0]
        neg = pathx.split_not(pathx.desc(node["c"]))[1]
        short_, slow_ = (node["e"], node["t"]) if neg else (node["t"], node["e"])
        v = thir.expr_value(short_)
        detail = str(v)[:200]
        ok = v[0] == "t" and len(v[1]) == 2 and v[1][0] == ("var", "config_pathset") and v[1][1][0] == "call" and strip_generics(v[1][1][1]).endswith("Vec::new")
        ctx.require(ok, rule, "diff:shortcut-value", "the shortcut is (config_pathset, Vec::new())", w.loc(node["l"]), detail=detail)
        # the binding order
        lets = [s for s in thir.walk(loops[0]) if isinstance(s, dict) and s.get("k") == "let" and isinstance(s.get("i"), dict) and thir.peel(s["i"]) is node]
        pn = [b["n"] for s in lets for b in thir.walk(s["p"]) if b.get("k") == "bind"]
        ctx.require(pn == ["to_watch", "to_drop"], rule, "diff:binding", "the diff is bound as (to_watch, to_drop)", w.loc(node["l"]), detail=str(pn))
        sv = thir.expr_value(slow_)
        ctx.require(sv[0] == "t" and [x for x in sv[1]] == [("var", "to_watch"), ("var", "to_drop")], rule, "diff:slow-value",
                    "the computed diff is returned as (to_watch, to_drop)", w.loc(node["l"]), detail=str(sv)[:200])
        # the two loops
        en2 = pathx.Enum(interesting=interesting)
        pathx.SUBST = pathx.let_substitutions(root)
        try:
            sp = en2.paths(slow_)
        finally:
            pathx.SUBST = {}
        want = {"for pathset": ("slice::contains(Changeable::get(config.pathset), path)", "to_drop"),
                "for Changeable::get(config.pathset)": ("HashSet::contains(pathset, path)", "to_watch")}
        seen = {}
        for p in sp:
            for e in p.ev:
                if e[0] == "loop" and e[2] in want:
                    seen[e[2]] = e[1]
        for label, (atom, target) in want.items():
            its = seen.get(label)
            if not its:
                ctx.violation(rule, "diff:" + target + ":loop", "the diff no longer iterates `%s` to fill %s" % (label[4:], target), w.loc(node["l"]))
                continue
            okl = True
            why = []
            n_push = 0
            for it in its:
                kn = known(it, atom)
                pushes = [e for e in it if e[0] == "call" and strip_generics(e[1]).endswith("Vec::push")]
                tg = [pathx.desc(e[2]["a"][0]) for e in pushes]
                if kn is None:
                    okl = False
                    why.append("membership not tested: " + pathx.show_events(it))
                elif kn is False:
                    n_push += 1
                    if tg != [target]:
                        okl = False
                        why.append("absent element not pushed to %s: %s" % (target, pathx.show_events(it)))
                else:
                    if tg:
                        okl = False
                        why.append("present element pushed: " + pathx.show_events(it))
            ctx.require(okl and n_push >= 1, rule, "diff:" + target, "%s receives exactly the elements of `%s` for which %s is false" % (target, label[4:], atom),
                        w.loc(node["l"]), detail="; ".join(why)[:500],
                        fail="the set difference feeding %s is wrong: %s" % (target, "; ".join(why)[:300]))
    else:
        ctx.violation(rule, "floor:diff-if", "cannot find the `if pathset.is_empty()` diff (found %d)" % len(ifs), loc)

    # ---- the element type of the diff: two WatchedPaths are the same element only if path AND recursion mode agree, so a
    # mode flip of a registered path shows up as drop + add (derived, field-wise PartialEq / Eq / Hash)
    WP = "watchexec::watched_path::WatchedPath"
    adt = ctx.facts.find_adt(WP)
    fields = sorted(f["name"] for f in adt["variants"][0]["fields"]) if adt else []
    der = {t: ctx.facts.derived(WP, t) for t in ("PartialEq", "Eq", "Hash")}
    ctx.require(fields == ["path", "recursive"] and all(v is True for v in der.values()), rule, "diff:element-equality",
                "WatchedPath compares and hashes field-wise over (path, recursive)", loc, detail="%s %s" % (fields, der),
                fail="WatchedPath's equality/hash is no longer the derived field-wise one over (path, recursive) (%s): a path whose recursion mode "
                     "changes is `already registered` for the diff and keeps its old mode" % der)

    # constructors: only non_recursive() yields a non-recursive element; the path is the given one
    n_c = 0
    for fn in ctx.facts.crate_fns("watchexec"):
        if not fn.def_.startswith(("watchexec::watched_path::", "<watchexec::watched_path::")) and "watched_path::WatchedPath" not in fn.def_:
            continue
        if not (fn.thir and thir.root(fn) is not None):
            continue
        from . import normal as _normal
        if _normal.known() is not None and fn.def_ not in _normal.known() and not (fn.vis or "").lower().startswith("pub"):
            # a private helper introduced after the reference list was taken (`with_mode(path, recursive)`): it is spliced into the
            # constructors that call it, which are decided below with its body in place
            continue
        v = thir.expr_value(thir.root(fn))
        if fn.impl_trait and fn.impl_trait.endswith(("Default", "Clone")):
            continue
        if v[0] == "call" and strip_generics(v[1]).endswith(("WatchedPath::recursive", "WatchedPath::non_recursive")) and "WatchedPath" in (fn.self_ty or fn.def_):
            # a conversion that delegates to one of the two named constructors
            n_c += 1
            ctx.require(strip_generics(v[1]).endswith("WatchedPath::recursive") and v[2] in ([("var", "path")],), rule, "element:ctor:" + fn.def_.split("watched_path::")[-1][:60],
                        "%s delegates to WatchedPath::recursive(path)" % fn.def_.split("::")[-1], fn.loc(fn.line), detail=str(v)[:160],
                        fail="%s builds its WatchedPath through %s: the default recursion mode of a plain path is no longer recursive" % (fn.def_, v[1]))
            continue
        if not (v[0] == "v" and v[2] == "WatchedPath" and v[1].endswith("WatchedPath")):
            continue
        n_c += 1
        want_rec = not fn.def_.endswith("::non_recursive")
        pv = v[3].get("path")
        okp = pv == ("var", "path") or (isinstance(pv, tuple) and pv[0] == "call" and strip_generics(pv[1]).endswith("Into::into") and pv[2] == [("var", "path")])
        ctx.require(v[3].get("recursive") == ("b", want_rec) and okp, rule, "element:ctor:" + fn.def_.split("watched_path::")[-1][:60],
                    "%s builds {path: the given path, recursive: %s}" % (fn.def_.split("::")[-1], str(want_rec).lower()), fn.loc(fn.line), detail=str(v[3])[:160],
                    fail="%s builds a WatchedPath with recursive = %s / path %s: the configured recursion mode is not the one registered" % (fn.def_, v[3].get("recursive"), pv))
    ctx.floor(rule, "WatchedPath constructors", n_c, 6)

    # the watcher kind is compared with the configured one by value (derived PartialEq over all variants and their payloads): a changed poll
    # interval is a different kind and recreates the watcher
    WK = "watchexec::sources::fs::Watcher"
    dk = {t: ctx.facts.derived(WK, t) for t in ("PartialEq", "Eq")}
    ctx.require(dk["PartialEq"] is True, rule, "kind-equality", "sources::fs::Watcher compares by value (derived PartialEq)", loc, detail=str(dk),
                fail="Watcher's PartialEq is no longer the derived one (%s): `watcher_type != config_watcher` can miss a change of the poll interval" % dk)
