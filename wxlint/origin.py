"""Flow-insensitive def-use ("where does this operand come from") over mir_built MIR.

Access paths are tracked modulo reference/deref: `&x`, `*x`, `&mut x.f` all denote the object
`x` / `x.f`.  Projections that matter (fields, enum downcasts) are kept.

An origin is an Atom(kind, data, proj):
  arg     data = local index                 a function parameter
  upvar   data = captured variable name      a closure/coroutine capture
  const   data = const json
  call    data = (block idx)                 result of a non-pass-through call (see fn.blocks[idx].term)
  agg     data = (block idx, stmt idx)       an aggregate not projected into
  op      data = (block idx, stmt idx)       binary/unary op, discriminant, etc.
  resume  data = block idx                   coroutine resume argument
  var     data = local                       cut-off (cycle / depth) on a local
`proj` is the access path still to be applied on top of that origin; the pseudo-steps
'await' (value produced by awaiting the origin) and '?' (Continue value of Try::branch) may occur.
"""

IDENTITY_CALLS = (
    "core::clone::Clone::clone",
    "core::ops::deref::Deref::deref",
    "core::ops::deref::DerefMut::deref_mut",
    "core::convert::AsRef::as_ref",
    "core::convert::AsMut::as_mut",
    "core::borrow::Borrow::borrow",
    "core::borrow::BorrowMut::borrow_mut",
    "core::future::into_future::IntoFuture::into_future",
    "core::iter::traits::collect::IntoIterator::into_iter",
    "core::pin::Pin::new_unchecked",
    "core::pin::Pin::new",
    "core::pin::Pin::as_mut",
    "core::pin::Pin::as_ref",
    "core::pin::Pin::get_mut",
    "core::pin::Pin::get_unchecked_mut",
    "alloc::boxed::Box::into_pin",
    "alloc::boxed::Box::new",
    "alloc::boxed::Box::pin",
    "core::option::Option::as_ref",
    "core::option::Option::as_mut",
    "core::option::Option::as_deref",
    "core::option::Option::as_deref_mut",
    "core::mem::take",  # value identity of what was in the place
)

VALUE_CALLS = IDENTITY_CALLS + (
    "core::convert::Into::into",
    "core::convert::From::from",
    "alloc::borrow::ToOwned::to_owned",
    "std::path::Path::to_owned",
    "std::path::Path::to_path_buf",
    "alloc::string::ToString::to_string",
    "core::option::Option::unwrap",
    "core::option::Option::expect",
    "core::option::Option::unwrap_or_default",
    "core::result::Result::unwrap",
    "core::result::Result::expect",
    "core::result::Result::ok",
    "alloc::sync::Arc::new",
    "alloc::sync::Arc::from",
)


class Atom:
    __slots__ = ("kind", "data", "proj")

    def __init__(self, kind, data, proj=()):
        self.kind = kind
        self.data = data
        self.proj = tuple(proj)

    def key(self):
        d = self.data
        if isinstance(d, dict):
            d = repr(sorted(d.items()))
        return (self.kind, d, self.proj)

    def __eq__(self, o):
        return self.key() == o.key()

    def __hash__(self):
        return hash(self.key())

    def __repr__(self):
        return "%s(%s)%s" % (self.kind, self.data if self.kind != "const" else self.data.get("v", self.data.get("fn", {}).get("def", "?")),
                             "".join(_pstr(p) for p in self.proj))


def _pstr(p):
    if isinstance(p, tuple):
        if p[0] == "f":
            return "." + (p[2] if p[2] is not None else str(p[1]))
        if p[0] == "d":
            return " as " + str(p[2])
        return "<%s>" % p[0]
    return "<%s>" % p


def strip(proj):
    """drop derefs and non-structural steps"""
    return tuple(p for p in proj if p != "*" and p != "opaque")


class DefUse:
    def __init__(self, fn):
        self.fn = fn
        self.defs = {}  # local -> list of ('stmt', bi, si, Stmt) | ('call', bi, Term) | ('yield', bi, Term)
        self.partial = {}  # local -> list of (bi, si, Stmt) assignments to a projection of local
        for b in fn.blocks:
            for si, s in enumerate(b.stmts):
                if s.kind == "=":
                    if not strip(s.place.proj):
                        self.defs.setdefault(s.place.local, []).append(("stmt", b.idx, si, s))
                    else:
                        self.partial.setdefault(s.place.local, []).append((b.idx, si, s))
            t = b.term
            if t.kind == "call" and t.dest is not None:
                if not strip(t.dest.proj):
                    self.defs.setdefault(t.dest.local, []).append(("call", b.idx, t))
                else:
                    self.partial.setdefault(t.dest.local, []).append((b.idx, "term", t))
            elif t.kind == "yield" and t.dest is not None:
                self.defs.setdefault(t.dest.local, []).append(("yield", b.idx, t))

    def origins(self, place_or_operand, passthrough=IDENTITY_CALLS, max_depth=60):
        from .facts import Operand, Place
        out = set()
        seen = set()

        def go_operand(op, proj, depth):
            if op.kind == "k":
                out.add(Atom("const", op.const, proj))
            elif op.place is not None:
                go(op.place.local, strip(op.place.proj) + proj, depth)

        def go(local, proj, depth):
            key = (local, proj)
            if key in seen:
                return
            seen.add(key)
            fn = self.fn
            if depth > max_depth:
                out.add(Atom("var", local, proj))
                return
            # closure env / coroutine state
            if local == 1 and fn.kind in ("closure", "coroutine") and proj and proj[0][0] == "f":
                idx = proj[0][1]
                if idx < len(fn.captures):
                    out.add(Atom("upvar", fn.captures[idx][0], proj[1:]))
                    return
            ds = self.defs.get(local, [])
            if 1 <= local <= fn.arg_count and not (fn.kind == "coroutine" and local == 2 and False):
                out.add(Atom("arg", local, proj))
                # args can also be reassigned; fall through to defs
            if not ds and not (1 <= local <= fn.arg_count):
                # only partially assigned (e.g. built field by field) or never assigned
                parts = self.partial.get(local, [])
                matched = False
                for (bi, si, s) in parts:
                    dproj = strip(s.place.proj) if si != "term" else strip(s.dest.proj)
                    if proj[:len(dproj)] == dproj:
                        matched = True
                        rest = proj[len(dproj):]
                        if si == "term":
                            handle_call(bi, s, rest, depth)
                        else:
                            handle_rvalue(bi, si, s, rest, depth)
                if not matched:
                    out.add(Atom("var", local, proj))
                return
            for d in ds:
                if d[0] == "stmt":
                    handle_rvalue(d[1], d[2], d[3], proj, depth)
                elif d[0] == "call":
                    handle_call(d[1], d[2], proj, depth)
                else:
                    out.add(Atom("resume", d[1], proj))

        def handle_rvalue(bi, si, s, proj, depth):
            rv = s.rv
            k = rv.kind
            if k == "use":
                go_operand(rv.ops[0], proj, depth + 1)
            elif k in ("ref", "raw", "cfd"):
                go(rv.place.local, strip(rv.place.proj) + proj, depth + 1)
            elif k == "cast":
                go_operand(rv.ops[0], proj, depth + 1)
            elif k == "agg":
                e = rv.extra
                # project into the aggregate if the pending path starts with a field
                p = list(proj)
                if p and isinstance(p[0], tuple) and p[0][0] == "d":
                    # downcast to the constructed variant is a no-op
                    if e[0] == "adt" and p[0][2] == e[2]:
                        p = p[1:]
                    elif e[0] == "adt":
                        return  # other variant: infeasible
                if p and isinstance(p[0], tuple) and p[0][0] == "f" and p[0][1] < len(rv.ops):
                    go_operand(rv.ops[p[0][1]], tuple(p[1:]), depth + 1)
                else:
                    out.add(Atom("agg", (bi, si), tuple(p)))
            else:
                out.add(Atom("op", (bi, si), proj))

        def handle_call(bi, t, proj, depth):
            c = t.callee
            if c.ptr is None and c.is_("core::future::future::Future::poll") and t.args:
                # awaited value: poll(..) as Ready.0  ->  'await' on the future
                p = list(proj)
                if len(p) >= 2 and p[0][0] == "d" and p[0][2] == "Ready" and p[1][0] == "f":
                    go_operand(t.args[0], ("await",) + tuple(p[2:]), depth + 1)
                    return
            if c.ptr is None and c.is_("core::ops::try_trait::Try::branch") and t.args:
                p = list(proj)
                if len(p) >= 2 and p[0][0] == "d" and p[0][2] == "Continue" and p[1][0] == "f":
                    go_operand(t.args[0], ("?",) + tuple(p[2:]), depth + 1)
                    return
            if c.ptr is None and t.args and c.is_(*passthrough):
                go_operand(t.args[0], proj, depth + 1)
                return
            out.add(Atom("call", bi, proj))

        if isinstance(place_or_operand, Operand):
            go_operand(place_or_operand, (), 0)
        elif isinstance(place_or_operand, Place):
            go(place_or_operand.local, strip(place_or_operand.proj), 0)
        else:
            go(place_or_operand, (), 0)
        return out


_cache = {}


def defuse(fn):
    k = id(fn)
    if k not in _cache:
        _cache[k] = DefUse(fn)
    return _cache[k]


def origins(fn, x, passthrough=IDENTITY_CALLS):
    return defuse(fn).origins(x, passthrough=passthrough)


def origin_calls(fn, x, passthrough=IDENTITY_CALLS):
    """[(Term, proj)] for origins that are call results"""
    out = []
    for a in origins(fn, x, passthrough):
        if a.kind == "call":
            out.append((fn.blocks[a.data].term, a.proj))
    return out


def from_upvar(fn, x, name, passthrough=IDENTITY_CALLS):
    return any(a.kind == "upvar" and a.data == name for a in origins(fn, x, passthrough))


def format_inputs(fn, term, passthrough=IDENTITY_CALLS):
    """For a call to core::fmt::Arguments::new (what format_args! lowers to in this toolchain):
    returns (literal piece constant as printed, [origin atom set of each formatted argument])."""
    pieces = ""
    for a in origins(fn, term.args[0], passthrough):
        if a.kind == "const":
            pieces += a.data.get("v", "")
    inputs = []
    if len(term.args) > 1:
        for a in origins(fn, term.args[1], passthrough):
            if a.kind != "agg":
                continue
            st = fn.blocks[a.data[0]].stmts[a.data[1]]
            for op in st.rv.ops:
                got = set()
                for b in origins(fn, op, passthrough):
                    if b.kind == "call":
                        ct = fn.blocks[b.data].term
                        if ct.callee.is_("core::fmt::rt::Argument::new_display", "core::fmt::rt::Argument::new_debug",
                                         "core::fmt::rt::Argument::new_lower_hex") and ct.args:
                            got |= origins(fn, ct.args[0], passthrough)
                            continue
                    got.add(b)
                inputs.append(got)
    return pieces, inputs
