"""Thorough tier: run the property's rules against its stored breaking changes (reverse patches of repaired defects and
independently seeded changes) on a scratch copy of the working tree, and require each to be detected.

The scratch copy lives under $WXVERIF_SCRATCH (outside /repo and /verif) and is removed after use."""
import fcntl
import importlib
import json
import os
import shutil
import subprocess
import sys

from . import extract, report
from .facts import Facts

VERIF = extract.VERIF

REVERTS = {"F1": "C07", "F2": "C07", "F3": "C06", "F4": "C20", "F5": "C12", "F6": "C03", "F7": "C03", "F8": "C13", "F9": "C13",
           "F10": "C07", "F11": "C09", "F12": "C07", "F13": "C10", "F14": "C06", "F15": "C06"}


def corpus(prop):
    """[(id, patch path)] expected to be detected by `prop`'s check"""
    out = []
    for f, p in sorted(REVERTS.items()):
        if p == prop:
            path = os.path.join(VERIF, "mutants", "revert-%s.patch" % f)
            if os.path.exists(path):
                out.append(("revert-" + f, path))
    rp = os.path.join(VERIF, "seeded", "RESULTS.json")
    if os.path.exists(rp):
        res = json.load(open(rp))
        for sid, r in sorted(res.items()):
            if prop in r.get("detected_by", []):
                path = os.path.join(VERIF, "seeded", sid, "patch.diff")
                if os.path.exists(path):
                    out.append((sid, path))
    return out


def run(prop, repo, mod, log=sys.stderr):
    """returns list of {id, status: detected|missed|skipped, keys|reason}"""
    results = []
    items = corpus(prop)
    if not items:
        return results
    os.makedirs(extract.SCRATCH, exist_ok=True)
    lock = open(os.path.join(extract.SCRATCH, "mutlock"), "w")
    fcntl.flock(lock, fcntl.LOCK_EX)
    dst = os.path.join(extract.SCRATCH, "mutrepo")
    try:
        for mid, patch in items:
            try:
                os.makedirs(dst, exist_ok=True)
                subprocess.check_call(["rsync", "-a", "--delete", "--exclude", "target", "--exclude", ".git", repo.rstrip("/") + "/", dst + "/"])
                r = subprocess.run(["patch", "-p1", "-s", "-f", "-d", dst, "-i", patch], stdout=subprocess.PIPE, stderr=subprocess.STDOUT, text=True)
                if r.returncode != 0:
                    results.append({"id": mid, "status": "skipped", "reason": "patch does not apply to the current working tree"})
                    continue
                fdir = extract.extract(dst, "default", log=open(os.devnull, "w"))
                ctx = report.Ctx(prop, Facts(fdir), tier="thorough", repo=dst)
                mod.run(ctx)
                known = {k["key"] for k in report.load_known() if k.get("property") == prop}
                keys = sorted({o.full_key() for o in ctx.obs if o.status != "ok" and o.full_key() not in known})
                results.append({"id": mid, "status": "detected" if keys else "missed", "keys": keys[:4]})
                print("[wxverif] mutant %-12s %s %s" % (mid, "DETECTED" if keys else "MISSED", keys[:1]), file=log)
            except extract.ExtractError as e:
                results.append({"id": mid, "status": "skipped", "reason": "mutated tree does not build: " + str(e)[:200]})
            except Exception as e:  # never let the corpus run decide the verdict on the real tree
                results.append({"id": mid, "status": "skipped", "reason": "error: " + repr(e)[:200]})
    finally:
        shutil.rmtree(dst, ignore_errors=True)
        # drop the extracted facts of the scratch copy
        for d in os.listdir(extract.SCRATCH):
            if d.startswith("facts-"):
                meta = os.path.join(extract.SCRATCH, d, "META")
                try:
                    if json.load(open(meta)).get("repo") == dst:
                        shutil.rmtree(os.path.join(extract.SCRATCH, d), ignore_errors=True)
                except Exception:
                    pass
        fcntl.flock(lock, fcntl.LOCK_UN)
        lock.close()
    return results
