"""Term evaluation of *table-shaped* THIR expressions.

This is pattern semantics plus constructor evaluation over symbolic leaves, used for finite-table
theorems (C16): variables evaluate to opaque symbols, constructors build values, `match` / `if let`
pick an arm by the compiler's pattern trees, and every function call stays an uninterpreted
application ("app") unless a rule supplies an explicit, named rewrite for it.  No loops, no
arithmetic, no memory: anything else evaluates to ("undet", kind) and the obligation fails closed.
"""
from . import thir

UNDET = "undet"


def is_undet(t):
    if not isinstance(t, tuple):
        return False
    if t and t[0] == UNDET:
        return True
    if t and t[0] == "v":
        return any(is_undet(x) for x in t[3].values())
    if t and t[0] in ("t", "arr"):
        return any(is_undet(x) for x in t[1])
    if t and t[0] == "app":
        return any(is_undet(x) for x in t[2])
    return False


def freeze(t):
    """hashable / comparable form"""
    if isinstance(t, tuple):
        return tuple(freeze(x) for x in t)
    if isinstance(t, dict):
        return tuple(sorted((k, freeze(v)) for k, v in t.items()))
    if isinstance(t, list):
        return tuple(freeze(x) for x in t)
    return t


def show(t):
    if not isinstance(t, tuple) or not t:
        return repr(t)
    k = t[0]
    if k == "v":
        if not t[3]:
            return t[2]
        return "%s{%s}" % (t[2], ", ".join("%s: %s" % (n, show(x)) for n, x in t[3].items()))
    if k == "sym":
        return "$" + t[1]
    if k == "app":
        return "%s(%s)" % (t[1].split("::")[-1], ", ".join(show(x) for x in t[2]))
    if k in ("s", "i", "b"):
        return repr(t[1])
    if k == "t":
        return "(%s)" % ", ".join(show(x) for x in t[1])
    if k == "any":
        return "_"
    return repr(t)


class Eval:
    def __init__(self, defaults=None, rewrite=None, guard=None):
        self.defaults = defaults or (lambda adt: None)  # adt path -> {field: term} for `..Default::default()`
        self.rewrite = rewrite or (lambda term: term)     # named rewrites on app terms
        self.trace = []

    def ev(self, e, env):
        e0 = e
        if not isinstance(e, dict):
            return (UNDET, "none")
        k = e.get("k")
        if k in ("ref", "deref", "coerce", "cast", "rawref"):
            return self.ev(e["e"], env)
        if k in ("var", "upvar"):
            return env.get(e["n"], ("sym", e["n"]))
        if k == "lit":
            if "s" in e:
                return ("s", e["s"])
            if "i" in e:
                return ("i", e["i"])
            if "b" in e:
                return ("b", e["b"])
            if "hex" in e:
                return ("bytes", e["hex"])
            return (UNDET, "lit")
        if k == "adt":
            fields = {}
            for n, x in e["f"]:
                fields[n if isinstance(n, str) else str(n)] = self.ev(x, env)
            if "base" in e:
                d = self.defaults(e["adt"])
                if d is None:
                    return (UNDET, "struct base of " + e["adt"])
                for n, x in d.items():
                    fields.setdefault(n, x)
            return ("v", e["adt"], e["v"], fields)
        if k == "tuple":
            return ("t", [self.ev(x, env) for x in e["f"]])
        if k == "array":
            return ("arr", [self.ev(x, env) for x in e["f"]])
        if k == "block":
            env = dict(env)
            for s in e.get("s", []):
                if s.get("k") == "let":
                    if s.get("i") is None:
                        return (UNDET, "let without init")
                    v = self.ev(s["i"], env)
                    r = thir.pat_matches(s["p"], v, env)
                    if r is not True and s["p"]["k"] != "bind":
                        return (UNDET, "refutable let")
                else:
                    # expression statement: only allowed if it is a diverging return (handled by caller)
                    v = self.ev(s, env)
                    if isinstance(v, tuple) and v and v[0] == "ret":
                        return v
            if e.get("e") is None:
                return ("t", [])
            return self.ev(e["e"], env)
        if k == "match":
            sv = self.ev(e["e"], env)
            env2 = dict(env)
            i = thir.first_arm(e, sv, env2, guard=lambda arm, scope: self.guard(arm["g"], scope))
            if i is None:
                return (UNDET, "match on %s at L%s" % (show(sv), e.get("l")))
            return self.ev(e["arms"][i]["b"], env2)
        if k == "if":
            c = e["c"]
            if isinstance(c, dict) and c.get("k") == "letx":
                sv = self.ev(c["e"], env)
                env2 = dict(env)
                r = thir.pat_matches(c["p"], sv, env2)
                if r is True:
                    return self.ev(e["t"], env2)
                if r is False:
                    return self.ev(e["e"], env) if e.get("e") is not None else ("t", [])
                return (UNDET, "if-let on %s" % show(sv))
            cv = self.truth(c, env)
            if cv is True:
                return self.ev(e["t"], env)
            if cv is False:
                return self.ev(e["e"], env) if e.get("e") is not None else ("t", [])
            return (UNDET, "if")
        if k == "field":
            b = self.ev(e["e"], env)
            n = e["n"]
            if b[0] == "t" and isinstance(n, int) and n < len(b[1]):
                return b[1][n]
            if b[0] == "v" and str(n) in b[3]:
                return b[3][str(n)]
            return self.rewrite(("app", "field:" + str(n), [b], None))
        if k == "call":
            f = thir.peel(e["fn"])
            args = [self.ev(a, env) for a in e["a"]]
            if isinstance(f, dict) and f.get("k") == "fn":
                return self.rewrite(("app", f["def"], args, f.get("full")))
            return (UNDET, "indirect call")
        if k == "fn":
            return ("fn", e["def"], e.get("full"))
        if k == "bin":
            return self.rewrite(("app", "bin:" + e["op"], [self.ev(e["a"], env), self.ev(e["b"], env)], None))
        if k == "logic":
            return self.rewrite(("app", "logic:" + e["op"], [self.ev(e["a"], env), self.ev(e["b"], env)], None))
        if k == "un":
            return self.rewrite(("app", "un:" + e["op"], [self.ev(e["e"], env)], None))
        if k == "return":
            return ("ret", self.ev(e["e"], env) if e.get("e") is not None else ("t", []))
        if k == "const":
            return ("const", e["def"])
        if k == "zst":
            return ("zst", e.get("ty"))
        if k == "closure":
            return ("closure", e["def"])
        return (UNDET, k)

    def truth(self, e, env):
        v = self.ev(e, env)
        if v[0] == "b":
            return v[1]
        return None

    def guard(self, g, scope):
        return self.truth(g, scope)
