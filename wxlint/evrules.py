"""Shared summaries of the watchexec-events accessors that several properties build on (Event::paths, signals, completions)."""
from . import thir, pathx
from .facts import strip_generics

EV = "watchexec_events::event::Event"
TAG = "watchexec_events::event::Tag"

WANT = {
    "paths": ("Path", "(PathBuf::as_path(path), Option::as_ref(file_type))"),
    "signals": ("Signal", "s"),
    "completions": ("ProcessCompletion", "s"),
}


def accessor(ctx, rule, name):
    """Event::<name>() iterates self.tags and yields, through filter_map, exactly the tags of one variant"""
    facts = ctx.facts
    f = ctx.anchor_fn(rule, EV + "::" + name)
    variant, payload = WANT[name]
    calls = [(strip_generics(c), [pathx.desc(a) for a in nd["a"]]) for c, nd in thir.calls_in(thir.root(f))]
    src = [a for c, a in calls if c.endswith("Iterator::filter_map")]
    ok_src = len(src) == 1 and src[0][0] == "slice::iter(self.tags)"
    ctx.require(ok_src, rule, "accessor:%s:source" % name, "Event::%s() filters the event's own tag list" % name, f.loc(f.line), detail=str(src)[:200])
    cl = [c for c in facts.children(f) if c.kind == "closure"]
    if len(cl) != 1:
        ctx.violation(rule, "floor:accessor:%s:closure" % name, "Event::%s() no longer has a single selection closure" % name, f.loc(f.line))
        return
    c = cl[0]
    ms = [m for m in thir.find(thir.root(c), "match") if m.get("src") == "Normal"]
    adt = facts.find_adt(TAG)
    if len(ms) != 1 or adt is None:
        ctx.violation(rule, "floor:accessor:%s:match" % name, "the selection closure of Event::%s() no longer matches on the tag" % name, c.loc(c.line))
        return
    n = 0
    for v in adt["variants"]:
        val = ("v", TAG, v["name"], {fl["name"]: thir.ANY for fl in v["fields"]})
        i = thir.first_arm(ms[0], val)
        if i is None:
            ctx.incomplete(rule, "accessor:%s:%s" % (name, v["name"]), "undetermined arm", c.loc(ms[0]["l"]))
            continue
        n += 1
        body = thir.peel(ms[0]["arms"][i]["b"])
        ev = thir.expr_value(body)
        some = ev[0] == "v" and ev[2] == "Some"
        if v["name"] == variant:
            got = pathx.desc(body)
            inner = got[len("Some{0: "):-1] if got.startswith("Some{0: ") else None
            ok = some and inner in ((payload,) if name == "paths" else ("s", "Deref s", "* s", "Clone::clone(s)", "Deref::deref(s)"))
            ctx.require(bool(ok), rule, "accessor:%s:selects" % name, "Tag::%s is yielded with its payload" % variant, c.loc(ms[0]["arms"][i]["l"]), detail=got,
                        fail="Event::%s() does not yield Tag::%s with its own payload (%s)" % (name, variant, got))
        else:
            ctx.require(not some, rule, "accessor:%s:ignores:%s" % (name, v["name"]), "Tag::%s yields nothing" % v["name"], c.loc(ms[0]["arms"][i]["l"]),
                        fail="Event::%s() also yields something for Tag::%s" % (name, v["name"]))
    ctx.floor(rule, "Tag variants decided for Event::%s" % name, n, 7)
