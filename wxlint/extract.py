"""Fact extraction: run the driver over a source tree, cached by a hash of that tree.

Nothing registered in MANIFEST.json depends on the cache surviving: a miss simply re-extracts.
"""
import fcntl
import hashlib
import json
import os
import shutil
import subprocess
import sys
import time

VERIF = os.path.dirname(os.path.dirname(os.path.abspath(__file__)))
SCRATCH = os.environ.get("WXVERIF_SCRATCH", "/var/tmp/wxverif")
DRIVER_DIR = os.path.join(VERIF, "driver")
DRIVER_BIN = os.path.join(DRIVER_DIR, "target", "release", "wxfacts")

MEMBERS = [
    "bosion", "ignore-files", "project-origins", "test-socketfd", "watchexec", "watchexec-cli",
    "watchexec-events", "watchexec-filterer-globset", "watchexec-filterer-ignore",
    "watchexec-signals", "watchexec-supervisor",
]

CONFIGS = {
    # name: (cargo args, expected fact files)
    "default": (["--workspace"], [
        "bosion.rlib.json", "ignore_files.rlib.json", "project_origins.rlib.json",
        "watchexec.rlib.json", "watchexec_cli.rlib.json", "watchexec.executable.json",
        "watchexec_events.rlib.json", "watchexec_filterer_globset.rlib.json",
        "watchexec_filterer_ignore.rlib.json", "watchexec_signals.rlib.json",
        "watchexec_supervisor.rlib.json",
    ]),
    # the `sans_notify` copies of the file-event enums (C16/C17 thorough tier)
    "events-sans-notify": (["-p", "watchexec-events", "--no-default-features", "--features", "serde"],
                           ["watchexec_events.rlib.json"]),
    "signals-bare": (["-p", "watchexec-signals", "--no-default-features"], ["watchexec_signals.rlib.json"]),
}


class ExtractError(Exception):
    pass


def _sha_file(path):
    h = hashlib.sha256()
    with open(path, "rb") as f:
        while True:
            b = f.read(1 << 16)
            if not b:
                break
            h.update(b)
    return h.hexdigest()


def tree_hash(repo):
    """hash of every file that can influence compilation: crates/**, Cargo.toml, Cargo.lock, .cargo"""
    h = hashlib.sha256()
    items = []
    for top in ("Cargo.toml", "Cargo.lock"):
        p = os.path.join(repo, top)
        if os.path.exists(p):
            items.append(p)
    for base in ("crates", ".cargo"):
        root = os.path.join(repo, base)
        for dp, dns, fns in os.walk(root):
            dns[:] = sorted(d for d in dns if d not in ("target", ".git"))
            for fn in sorted(fns):
                items.append(os.path.join(dp, fn))
    for p in sorted(items):
        h.update(os.path.relpath(p, repo).encode())
        h.update(b"\0")
        h.update(_sha_file(p).encode())
        h.update(b"\n")
    # the driver's own sources are part of the key
    for dp, dns, fns in os.walk(os.path.join(DRIVER_DIR, "src")):
        for fn in sorted(fns):
            h.update(_sha_file(os.path.join(dp, fn)).encode())
    h.update(os.path.abspath(repo).encode())
    return h.hexdigest()[:24]


def nightly_sysroot():
    return subprocess.check_output(["rustc", "+nightly", "--print", "sysroot"], text=True).strip()


def ensure_driver(log=sys.stderr):
    srcs = []
    for dp, _, fns in os.walk(os.path.join(DRIVER_DIR, "src")):
        for fn in fns:
            srcs.append(os.path.join(dp, fn))
    srcs.append(os.path.join(DRIVER_DIR, "Cargo.toml"))
    newest = max(os.path.getmtime(p) for p in srcs)
    if os.path.exists(DRIVER_BIN) and os.path.getmtime(DRIVER_BIN) >= newest:
        return
    print("[wxverif] building driver ...", file=log)
    env = dict(os.environ)
    env["CARGO_NET_OFFLINE"] = "true"
    r = subprocess.run(["cargo", "+nightly", "build", "--release", "--offline"], cwd=DRIVER_DIR, env=env,
                       stdout=subprocess.PIPE, stderr=subprocess.STDOUT, text=True)
    if r.returncode != 0 or not os.path.exists(DRIVER_BIN):
        raise ExtractError("driver build failed:\n" + r.stdout[-4000:])


def _rm_member_fingerprints(target):
    fp = os.path.join(target, "debug", ".fingerprint")
    if not os.path.isdir(fp):
        return
    for d in os.listdir(fp):
        for m in MEMBERS:
            if d.startswith(m + "-"):
                shutil.rmtree(os.path.join(fp, d), ignore_errors=True)
                break


def extract(repo="/repo", config="default", force=False, log=sys.stderr):
    """returns the directory holding the fact files for `repo` in `config` (fresh for the current tree)"""
    repo = os.path.abspath(repo)
    os.makedirs(SCRATCH, exist_ok=True)
    # one lock for building the driver, then one per source tree (checks of one tree share an extraction; different trees run in parallel)
    glock = open(os.path.join(SCRATCH, "lock"), "w")
    fcntl.flock(glock, fcntl.LOCK_EX)
    try:
        ensure_driver(log)
    finally:
        fcntl.flock(glock, fcntl.LOCK_UN)
        glock.close()
    lock = open(os.path.join(SCRATCH, "lock-" + hashlib.sha256(repo.encode()).hexdigest()[:8]), "w")
    fcntl.flock(lock, fcntl.LOCK_EX)
    try:
        th = tree_hash(repo)
        args, expected = CONFIGS[config]
        out = os.path.join(SCRATCH, "facts-%s-%s" % (th, config))
        if not force and os.path.isdir(out) and _complete(out, expected, th):
            return out
        # bound disk usage: drop fact dirs of other trees for the same repo path + config
        for d in os.listdir(SCRATCH):
            if d.startswith("facts-") and (d.endswith("-" + config) or ("-" + config + ".") in d) and os.path.join(SCRATCH, d) != out:
                meta = os.path.join(SCRATCH, d, "META")
                try:
                    same_repo = json.load(open(meta)).get("repo") == repo
                except Exception:
                    # no META: either a directory another process is filling right now, or debris of a killed run
                    try:
                        same_repo = (time.time() - os.path.getmtime(os.path.join(SCRATCH, d))) > 6 * 3600
                    except OSError:
                        same_repo = False
                if same_repo:
                    shutil.rmtree(os.path.join(SCRATCH, d), ignore_errors=True)
        # build next to the final place and swap at the end: a check that is reading the cached facts of this very tree
        # (e.g. a quick run while a thorough run re-extracts) keeps a complete directory until the last moment
        final = out
        out = "%s.tmp-%d" % (final, os.getpid())
        shutil.rmtree(out, ignore_errors=True)
        os.makedirs(out)
        with open(os.path.join(out, "META"), "w") as f:
            json.dump({"repo": repo, "tree_hash": th, "config": config, "complete": False}, f)
        target = os.path.join(SCRATCH, "target-" + hashlib.sha256(repo.encode()).hexdigest()[:8] + ("" if config == "default" else "-" + config))
        _rm_member_fingerprints(target)
        env = dict(os.environ)
        env.update({
            "CARGO_NET_OFFLINE": "true",
            "LD_LIBRARY_PATH": nightly_sysroot() + "/lib",
            "RUSTFLAGS": "-Zmir-opt-level=0 -Awarnings",
            "RUSTC_WORKSPACE_WRAPPER": DRIVER_BIN,
            "CARGO_TARGET_DIR": target,
            "WXV_FACTS_DIR": out,
            "WXV_TREE_HASH": th,
            "WXV_CONFIG": config,
        })
        env.pop("RUSTC_WRAPPER", None)
        t0 = time.time()
        print("[wxverif] extracting facts (%s) from %s ..." % (config, repo), file=log)
        r = subprocess.run(["cargo", "+nightly", "check", "--offline"] + args, cwd=repo, env=env,
                           stdout=subprocess.PIPE, stderr=subprocess.STDOUT, text=True)
        if r.returncode != 0 and "error[E" not in r.stdout and "error: could not compile" not in r.stdout:
            # not a compile error of the tree (e.g. the compiler was killed under memory pressure): try once more
            time.sleep(3)
            r = subprocess.run(["cargo", "+nightly", "check", "--offline"] + args, cwd=repo, env=env,
                               stdout=subprocess.PIPE, stderr=subprocess.STDOUT, text=True)
        if r.returncode != 0:
            shutil.rmtree(out, ignore_errors=True)
            raise ExtractError("cargo check failed on %s (does the tree compile?):\n%s" % (repo, r.stdout[-6000:]))
        if not _complete(out, expected, th):
            missing = [e for e in expected if not os.path.exists(os.path.join(out, e))]
            raise ExtractError("driver did not (re)write fact files: %s" % missing)
        with open(os.path.join(out, "META"), "w") as f:
            json.dump({"repo": repo, "tree_hash": th, "config": config, "complete": True, "wall_s": time.time() - t0}, f)
        if os.path.isdir(final):
            old = "%s.old-%d" % (final, os.getpid())
            os.rename(final, old)
            os.rename(out, final)
            shutil.rmtree(old, ignore_errors=True)
        else:
            os.rename(out, final)
        print("[wxverif] extraction done in %.1fs" % (time.time() - t0), file=log)
        return final
    finally:
        fcntl.flock(lock, fcntl.LOCK_UN)
        lock.close()


def load(repo="/repo", config="default", force=False, log=sys.stderr):
    """extract + parse, robust against a concurrent re-extraction swapping the directory while it is being read"""
    from .facts import Facts
    last = None
    for attempt in range(4):
        d = extract(repo, config, force=(force and attempt == 0), log=log)
        try:
            return Facts(d)
        except (FileNotFoundError, json.JSONDecodeError, NotADirectoryError) as e:
            last = e
            time.sleep(0.5 + attempt)
    raise ExtractError("facts directory kept changing while it was being read: %r" % (last,))


def _complete(out, expected, th):
    for e in expected:
        p = os.path.join(out, e)
        if not os.path.exists(p):
            return False
        # cheap check of the embedded tree hash without parsing the whole file
        with open(p, "r") as f:
            head = f.read(600)
        if ('"tree_hash":"%s"' % th) not in head:
            return False
    return True


def clean():
    shutil.rmtree(SCRATCH, ignore_errors=True)
