"""Tree-level normalisation of THIR bodies, applied by thir.root():

N1  a call to a workspace function that is *not* in the reference list wxlint/known_defs.txt (i.e. a helper that was introduced
    after the rules were written, typically by "extract function") is replaced by the helper's body with the arguments in place
    of the parameters.  Splicing a body into its call site preserves meaning, so whatever the rules decide about the spliced tree
    they decide about the program; a mistake inside a new helper is seen exactly as if it were written in the caller.
    Async helpers: `helper(args).await` is replaced by the body of the helper's coroutine.
N2  a `for` loop over a const array that is not in the reference list (a table introduced by "table-driven loop") whose body has no
    break / continue is unrolled, one copy of the body per row with the row's literals in place of the loop variables.

Functions and consts of the reference list are never touched, so on the tree the rules were written against this is the identity.
The list holds names only (def paths); it scopes the normaliser and is not itself a rule."""
import copy
import os

HERE = os.path.dirname(os.path.abspath(__file__))
_known = None
_counter = [0]
MAX_DEPTH = 6


def known():
    global _known
    if _known is None:
        p = os.path.join(HERE, "known_defs.txt")
        _known = set(l.strip() for l in open(p)) if os.path.exists(p) else None
    return _known


def _walk(n):
    stack = [n]
    while stack:
        x = stack.pop()
        if isinstance(x, dict):
            yield x
            stack.extend(v for v in x.values() if isinstance(v, (dict, list)))
        elif isinstance(x, list):
            stack.extend(v for v in x if isinstance(v, (dict, list)))


def _peel(e):
    while isinstance(e, dict) and e.get("k") in ("ref", "deref", "coerce", "rawref", "cast") or \
            (isinstance(e, dict) and e.get("k") == "block" and not e.get("s") and e.get("e") is not None):
        e = e["e"]
    return e


def _simple(e):
    """side-effect free and cheap to duplicate: variables, field chains, literals, consts"""
    e = _peel(e)
    if not isinstance(e, dict):
        return False
    k = e.get("k")
    if k in ("var", "upvar", "lit", "const", "zst", "fn", "static"):
        return True
    if k == "field":
        return _simple(e["e"])
    if k == "call" and len(e.get("a", [])) == 1:
        f = _peel(e.get("fn"))
        if isinstance(f, dict) and f.get("k") == "fn" and str(f.get("def", "")).endswith(("Deref::deref", "DerefMut::deref_mut")):
            return _simple(e["a"][0])      # auto-deref of a plain place (`&vec` passed as `&[T]`)
        return False
    if k == "adt":
        return all(_simple(x) for _, x in e.get("f", [])) and not e.get("base")
    if k == "tuple":
        return all(_simple(x) for x in e.get("f", []))
    return False


def _has(body, kinds, stop=("closure",)):
    stack = [body]
    while stack:
        x = stack.pop()
        if isinstance(x, dict):
            if x.get("k") in kinds:
                return True
            if x.get("k") in stop:
                continue
            stack.extend(v for v in x.values() if isinstance(v, (dict, list)))
        elif isinstance(x, list):
            stack.extend(x)
    return False


def _has_own_jump(body):
    """a break / continue that would leave or restart *this* loop body (those of nested loops and of the await desugaring are not ours)"""
    stack = [body]
    while stack:
        x = stack.pop()
        if isinstance(x, dict):
            k = x.get("k")
            if k in ("break", "continue"):
                return True
            if k in ("closure", "loop"):
                continue
            if k == "match" and x.get("src") in ("AwaitDesugar", "ForLoopDesugar"):
                stack.append(x.get("e"))
                continue
            stack.extend(v for v in x.values() if isinstance(v, (dict, list)))
        elif isinstance(x, list):
            stack.extend(x)
    return False


def _remap(node, off, subst):
    """deep copy with binding ids shifted by `off`; var / upvar nodes whose (old) id is in `subst` are replaced by a copy of the expression"""
    if isinstance(node, list):
        return [_remap(x, off, subst) for x in node]
    if not isinstance(node, dict):
        return node
    k = node.get("k")
    if k in ("var", "upvar") and node.get("id") in subst:
        return copy.deepcopy(subst[node["id"]])
    out = {}
    for kk, vv in node.items():
        if isinstance(vv, (dict, list)):
            out[kk] = _remap(vv, off, subst)
        else:
            out[kk] = vv
    if "id" in out and k in ("var", "upvar", "bind"):
        out["id"] = out["id"] + off
        if k == "upvar":
            out["k"] = "var"        # the spliced body lives in the caller's frame now
    return out


def _helper_of(facts, call):
    """the unknown workspace function a call node refers to, or None"""
    if not (isinstance(call, dict) and call.get("k") == "call"):
        return None
    f = _peel(call.get("fn"))
    if not (isinstance(f, dict) and f.get("k") == "fn"):
        return None
    d = f.get("def")
    kn = known()
    if kn is None or d in kn:
        return None
    g = facts.find_fn(d)
    if g is None or g.kind not in ("fn", "method") or not getattr(g, "thir", None):
        return None
    return g


def _params(g):
    out = []
    for pr in g.thir.get("params", []):
        pat = pr.get("pat")
        if not isinstance(pat, dict) or pat.get("k") != "bind" or "sub" in pat or "id" not in pat:
            return None
        out.append(pat)
    return out


def _splice(facts, g, args, line, stack):
    """block standing for `g(args)` (sync) or `g(args).await` (async); None when g cannot be spliced"""
    if g.def_ in stack or len(stack) >= MAX_DEPTH:
        return None
    params = _params(g)
    if params is None or len(params) != len(args):
        return None
    body = g.thir.get("root")
    is_async = False
    pb = _peel(body)
    if isinstance(pb, dict) and pb.get("k") == "closure" and getattr(g, "asyncness", False):
        co = facts.find_fn(pb.get("def"))
        if co is None or not getattr(co, "thir", None):
            return None
        body = co.thir.get("root")
        is_async = True
    if not isinstance(body, dict):
        return None
    _counter[0] += 1
    off = _counter[0] * 1000000
    subst = {}
    lets = []
    for pat, a in zip(params, args):
        if _simple(a) and pat.get("mode") == "BindingMode(No, Not)":
            subst[pat["id"]] = a
        else:
            np = dict(pat)
            np["id"] = pat["id"] + off
            lets.append({"k": "let", "p": np, "i": a, "else": None, "l": line})
    if is_async and body.get("k") == "block":
        # the coroutine re-binds every parameter first (`let p = <captured p>`): a parameter that stands for a simple argument keeps doing so
        keep = []
        for st in body.get("s", []):
            init = st.get("i") if isinstance(st, dict) and st.get("k") == "let" else None
            pat = st.get("p") if init is not None else None
            if (isinstance(init, dict) and init.get("k") == "upvar" and init.get("id") in subst and isinstance(pat, dict) and pat.get("k") == "bind"
                    and "sub" not in pat and pat.get("mode") == "BindingMode(No, Not)" and "id" in pat):
                subst[pat["id"]] = subst[init["id"]]
                continue
            keep.append(st)
        if len(keep) != len(body.get("s", [])):
            body = dict(body)
            body["s"] = keep
    nb = _remap(body, off, subst)
    nb = _norm(facts, nb, stack + [g.def_])
    blk = {"k": "block", "s": lets, "e": nb, "l": line, "spliced": g.def_}
    if is_async or _has(nb, ("return",)):
        blk["fnbound"] = True       # a `return` inside belongs to the helper: it yields the block's value
    return blk


def _const_rows(facts, e):
    """rows of a `for` over an unknown const array: list of element expressions, or None"""
    e = _peel(e)
    if isinstance(e, dict) and e.get("k") == "call" and e.get("a"):
        f = _peel(e.get("fn"))
        if isinstance(f, dict) and f.get("k") == "fn" and str(f.get("def", "")).split("::")[-1] in ("iter", "into_iter") and len(e["a"]) == 1:
            return _const_rows(facts, e["a"][0])
    if not (isinstance(e, dict) and e.get("k") == "const"):
        return None
    kn = known()
    if kn is None or e.get("def") in kn:
        return None
    init = _peel(facts.const_init(e.get("def")))
    if not (isinstance(init, dict) and init.get("k") == "array"):
        return None
    rows = init.get("f", [])
    return rows if all(_simple(r) for r in rows) else None


def _bind_row(pat, row, subst):
    """irrefutable loop pattern against a literal row: fills subst {binding id: expr}; False when not understood"""
    row_p = _peel(row)
    if pat.get("k") == "bind" and "sub" not in pat and "id" in pat:
        subst[pat["id"]] = row
        return True
    if pat.get("k") in ("deref", "derefpat"):
        return _bind_row(pat["p"], row, subst)
    if pat.get("k") == "leaf" and isinstance(row_p, dict) and row_p.get("k") == "tuple":
        for idx, sp in pat.get("sub", []):
            if not isinstance(idx, int) or idx >= len(row_p["f"]) or not _bind_row(sp, row_p["f"][idx], subst):
                return False
        return True
    if pat.get("k") == "wild":
        return True
    return False


def _unroll(facts, n, stack):
    """`for pat in CONST { body }` -> { body[row1]; body[row2]; .. }"""
    rows = _const_rows(facts, (n.get("e") or {}).get("a", [None])[0] if isinstance(n.get("e"), dict) else None)
    if rows is None or len(n.get("arms", [])) != 1:
        return None
    lp = _peel(n["arms"][0].get("b"))
    if not (isinstance(lp, dict) and lp.get("k") == "loop"):
        return None
    inner = [m for m in (lp.get("e") or {}).get("s", []) if isinstance(m, dict) and m.get("k") == "match" and m.get("src") == "ForLoopDesugar"]
    if len(inner) != 1 or len(inner[0].get("arms", [])) != 2:
        return None
    some = inner[0]["arms"][1]
    sp = some.get("p", {})
    if sp.get("k") != "variant" or sp.get("v") != "Some" or len(sp.get("sub", [])) != 1:
        return None
    pat = sp["sub"][0][1]
    body = some.get("b")
    if _has_own_jump(body):
        return None
    out = []
    for r in rows:
        subst = {}
        if not _bind_row(pat, r, subst):
            return None
        _counter[0] += 1
        out.append(_norm(facts, _remap(body, _counter[0] * 1000000, subst), stack))
    return {"k": "block", "s": out, "e": None, "l": n.get("l"), "unrolled": len(rows)}


def _bool_match(n):
    """N3: `match c { true => A, false => B }` (either order, `_` for the second arm) is `if c { A } else { B }`"""
    arms = n.get("arms", [])
    if len(arms) != 2 or any(a.get("g") for a in arms):
        return None

    def lit(p):
        while isinstance(p, dict) and p.get("k") in ("deref", "derefpat"):
            p = p["p"]
        if isinstance(p, dict) and p.get("k") == "const" and p.get("ty") == "bool" and isinstance(p.get("b"), bool):
            return p["b"]
        if isinstance(p, dict) and p.get("k") == "wild":
            return "_"
        return None
    l0, l1 = lit(arms[0]["p"]), lit(arms[1]["p"])
    if not isinstance(l0, bool) or l1 is None or l1 == l0:
        return None
    t, e = (arms[0]["b"], arms[1]["b"]) if l0 else (arms[1]["b"], arms[0]["b"])
    return {"k": "if", "c": n["e"], "t": t, "e": e, "l": n.get("l"), "ty": n.get("ty")}


def _norm(facts, n, stack):
    if isinstance(n, list):
        return [_norm(facts, x, stack) for x in n]
    if not isinstance(n, dict):
        return n
    k = n.get("k")
    if k == "match" and n.get("src") == "AwaitDesugar":
        inner = _peel(n.get("e"))
        if isinstance(inner, dict) and inner.get("k") == "call" and inner.get("a"):
            call = _peel(inner["a"][0])
            g = _helper_of(facts, call)
            if g is not None and getattr(g, "asyncness", False):
                args = [_norm(facts, a, stack) for a in call["a"]]
                blk = _splice(facts, g, args, n.get("l"), stack)
                if blk is not None:
                    return blk
    if k == "call":
        g = _helper_of(facts, n)
        if g is not None and not getattr(g, "asyncness", False):
            args = [_norm(facts, a, stack) for a in n["a"]]
            blk = _splice(facts, g, args, n.get("l"), stack)
            if blk is not None:
                blk["ty"] = n.get("ty")
                return blk
    if k == "match" and n.get("src") == "ForLoopDesugar":
        u = _unroll(facts, n, stack)
        if u is not None:
            return u
    if k == "match" and n.get("src") == "Normal":
        b = _bool_match(n)
        if b is not None:
            return _norm(facts, b, stack)
    return {kk: (_norm(facts, vv, stack) if isinstance(vv, (dict, list)) else vv) for kk, vv in n.items()}


def needs(facts, tree):
    kn = known()
    if kn is None:
        return False
    for x in _walk(tree):
        k = x.get("k")
        if k == "fn" and x.get("def") not in kn and facts.find_fn(x.get("def")) is not None:
            return True
        if k == "const" and x.get("def") not in kn and facts.const_init(x.get("def")) is not None:
            return True
        if k == "match" and x.get("src") == "Normal" and _bool_match(x) is not None:
            return True
    return False


def normalised_root(fn):
    """the THIR root of fn with unknown helpers spliced in and unknown table loops unrolled (cached)"""
    t = fn.thir
    if not t or "root" not in t:
        return None
    cached = getattr(fn, "_norm_root", None)
    if cached is not None:
        return cached
    root = t["root"]
    facts = getattr(fn.crate, "facts", None)
    if facts is not None and isinstance(root, dict) and needs(facts, root):
        root = _norm(facts, root, [fn.def_])
    fn._norm_root = root
    return root
