"""Fact loading and indexing.

A fact file is what /verif/driver wrote for one compiled crate.  Nothing here judges anything;
it only gives the rules convenient access: functions by def path, semantic body lookup,
ADT tables, a MIR pretty-printer for diagnostics.
"""
import json
import os
import re


class Place:
    """A MIR place: local + projection list.  proj items: '*' | ('f', idx, name) | ('d', idx, name) | ..."""

    __slots__ = ("local", "proj")

    def __init__(self, raw):
        self.local = raw[0]
        pr = []
        for p in raw[1:]:
            if isinstance(p, list):
                pr.append(tuple(p))
            else:
                pr.append(p)
        self.proj = tuple(pr)

    def key(self):
        return (self.local, self.proj)

    def __eq__(self, o):
        return isinstance(o, Place) and self.key() == o.key()

    def __hash__(self):
        return hash(self.key())

    def is_local(self):
        return not self.proj

    def fields(self):
        """projection as a tuple of readable strings"""
        out = []
        for p in self.proj:
            if p == "*":
                out.append("*")
            elif p[0] == "f":
                out.append("." + (p[2] if p[2] is not None else str(p[1])))
            elif p[0] == "d":
                out.append(" as " + str(p[2]))
            elif p[0] == "i":
                out.append("[_%d]" % p[1])
            else:
                out.append("<%s>" % (p[0] if isinstance(p, tuple) else p))
        return tuple(out)

    def __repr__(self):
        return "_%d%s" % (self.local, "".join(self.fields()))


def strip_generics(s):
    """remove every `::<...>` turbofish / impl-generic segment (balanced) from a def path"""
    if not s or "::<" not in s:
        return s
    out = []
    i = 0
    n = len(s)
    while i < n:
        if s.startswith("::<", i):
            depth = 0
            j = i + 2
            while j < n:
                if s[j] == "<":
                    depth += 1
                elif s[j] == ">":
                    if j > 0 and s[j - 1] == "-":
                        pass  # '->' in fn types
                    else:
                        depth -= 1
                        if depth == 0:
                            break
                j += 1
            i = j + 1
        else:
            out.append(s[i])
            i += 1
    return "".join(out)


class Callee:
    __slots__ = ("def_", "krate", "full", "args", "trait", "res", "dyn", "self_ty", "ptr", "path", "res_path")

    def __init__(self, raw):
        self.ptr = raw.get("ptr")
        self.def_ = raw.get("def", "")
        self.krate = raw.get("krate", "")
        self.full = raw.get("full", "")
        self.args = raw.get("args", [])
        self.trait = raw.get("trait")
        self.res = raw.get("res")
        self.dyn = raw.get("dyn", False)
        self.self_ty = raw.get("self")
        self.path = strip_generics(self.def_)
        self.res_path = strip_generics(self.res) if self.res else None

    @property
    def name(self):
        """best resolved name: the impl method if the trait call resolved, else the def path"""
        return self.res or self.def_

    def is_(self, *suffixes):
        for s in suffixes:
            for n in (self.def_, self.res, self.full, self.path, self.res_path):
                if n and (n == s or n.endswith("::" + s) or n.endswith(s)):
                    return True
        return False

    def __repr__(self):
        if self.ptr is not None:
            return "<fnptr>"
        return self.full or self.def_


class Operand:
    __slots__ = ("kind", "place", "const")

    def __init__(self, raw):
        self.kind = raw[0]  # 'c' copy, 'm' move, 'k' const
        self.place = None
        self.const = None
        if self.kind in ("c", "m"):
            self.place = Place(raw[1])
        elif self.kind == "k":
            self.const = raw[1]

    def is_const(self):
        return self.kind == "k"

    def const_int(self):
        if self.const is not None:
            return self.const.get("i")
        return None

    def const_bool(self):
        if self.const is not None:
            return self.const.get("b")
        return None

    def const_str(self):
        """string literal value if this constant is a &str"""
        if self.const is None:
            return None
        v = self.const.get("v", "")
        ty = self.const.get("ty", "")
        if ty == "&str":
            if v.startswith("const "):
                v = v[len("const "):]
            if v.startswith('"'):
                try:
                    return json.loads(v)
                except Exception:
                    return v[1:-1]
        return None

    def const_fn(self):
        if self.const is not None and "fn" in self.const:
            return Callee(self.const["fn"])
        return None

    def __repr__(self):
        if self.kind == "k":
            if "fn" in self.const:
                return "fn " + Callee(self.const["fn"]).__repr__()
            return self.const.get("v", "?")
        return ("move " if self.kind == "m" else "") + repr(self.place)


class Rvalue:
    __slots__ = ("kind", "raw", "ops", "place", "extra")

    def __init__(self, raw):
        self.kind = raw[0]
        self.raw = raw
        self.ops = []
        self.place = None
        self.extra = None
        k = self.kind
        if k == "use":
            self.ops = [Operand(raw[1])]
        elif k == "ref":
            self.extra = raw[1]
            self.place = Place(raw[2])
        elif k in ("raw", "cfd"):
            self.place = Place(raw[1])
        elif k == "cast":
            self.extra = (raw[1], raw[3])
            self.ops = [Operand(raw[2])]
        elif k == "bin":
            self.extra = raw[1]
            self.ops = [Operand(raw[2]), Operand(raw[3])]
        elif k == "un":
            self.extra = raw[1]
            self.ops = [Operand(raw[2])]
        elif k == "discr":
            self.place = Place(raw[1])
            self.extra = raw[2]
        elif k == "agg":
            self.extra = raw[1]
            self.ops = [Operand(o) for o in raw[2]]
        elif k == "repeat":
            self.ops = [Operand(raw[1])]

    # aggregate helpers
    def agg_adt(self):
        """(adt path, variant name, field names) for an ADT aggregate"""
        if self.kind == "agg" and self.extra[0] == "adt":
            return self.extra[1], self.extra[2], self.extra[4]
        return None

    def agg_closure(self):
        if self.kind == "agg" and self.extra[0] in ("closure", "coroutine", "coroutine_closure"):
            return self.extra[1]
        return None

    def __repr__(self):
        k = self.kind
        if k == "use":
            return repr(self.ops[0])
        if k == "ref":
            return "&%s%r" % ("mut " if self.extra == "mut" else ("fake " if self.extra == "fake" else ""), self.place)
        if k == "raw":
            return "&raw %r" % self.place
        if k == "cfd":
            return "deref_copy %r" % self.place
        if k == "cast":
            return "%r as %s (%s)" % (self.ops[0], self.extra[1], self.extra[0])
        if k == "bin":
            return "%s(%r, %r)" % (self.extra, self.ops[0], self.ops[1])
        if k == "un":
            return "%s(%r)" % (self.extra, self.ops[0])
        if k == "discr":
            return "discriminant(%r)" % self.place
        if k == "agg":
            e = self.extra
            if e[0] == "adt":
                return "%s::%s{%s}" % (e[1], e[2], ", ".join(repr(o) for o in self.ops))
            return "%s%s(%s)" % (e[0], (" " + e[1]) if len(e) > 1 else "", ", ".join(repr(o) for o in self.ops))
        return "%s %s" % (k, self.raw[1:] if len(self.raw) > 1 else "")


class Stmt:
    __slots__ = ("kind", "place", "rv", "line", "mac", "local", "variant")

    def __init__(self, raw):
        self.kind = raw[0]
        self.place = None
        self.rv = None
        self.line = 0
        self.mac = 0
        self.local = None
        self.variant = None
        if self.kind == "=":
            self.place = Place(raw[1])
            self.rv = Rvalue(raw[2])
            self.line = raw[3]
            self.mac = raw[4]
        elif self.kind == "setdiscr":
            self.place = Place(raw[1])
            self.variant = raw[2]
            self.line = raw[3]
            self.mac = raw[4]
        elif self.kind in ("live", "dead"):
            self.local = raw[1]
        elif self.kind in ("fake", "mention"):
            self.place = Place(raw[1])

    def __repr__(self):
        if self.kind == "=":
            return "%r = %r" % (self.place, self.rv)
        if self.kind in ("live", "dead"):
            return "%s(_%d)" % (self.kind, self.local)
        return "%s %r" % (self.kind, self.place)


class Term:
    __slots__ = ("kind", "raw", "callee", "args", "dest", "target", "unwind", "line", "mac",
                 "discr", "cases", "otherwise", "place", "resume", "drop", "real", "imag", "cond",
                 "expected", "fn_line", "drop_ty")

    def __init__(self, raw):
        self.kind = raw[0]
        self.raw = raw
        self.callee = None
        self.args = []
        self.dest = None
        self.target = None
        self.unwind = None
        self.line = 0
        self.mac = 0
        self.discr = None
        self.cases = []
        self.otherwise = None
        self.place = None
        self.resume = None
        self.drop = None
        self.real = None
        self.imag = None
        self.cond = None
        self.expected = None
        self.fn_line = 0
        self.drop_ty = None
        k = self.kind
        if k == "goto":
            self.target = raw[1]
        elif k == "switch":
            self.discr = Operand(raw[1])
            self.cases = [(v, t) for v, t in raw[2]]
            self.otherwise = raw[3]
            self.line, self.mac = raw[4], raw[5]
        elif k == "ret":
            self.line, self.mac = raw[1], raw[2]
        elif k == "drop":
            self.place = Place(raw[1])
            self.target = raw[2]
            self.unwind = raw[3]
            self.line, self.mac = raw[4], raw[5]
            self.drop_ty = raw[6]
        elif k == "call":
            self.callee = Callee(raw[1])
            self.args = [Operand(a) for a in raw[2]]
            self.dest = Place(raw[3])
            self.target = raw[4]
            self.unwind = raw[5]
            self.line, self.mac, self.fn_line = raw[6], raw[7], raw[8]
        elif k == "assert":
            self.cond = Operand(raw[1])
            self.expected = raw[2]
            self.target = raw[3]
            self.unwind = raw[4]
        elif k == "yield":
            self.args = [Operand(raw[1])]
            self.resume = raw[2]
            self.dest = Place(raw[3])
            self.drop = raw[4]
            self.line, self.mac = raw[5], raw[6]
        elif k == "fedge":
            self.real, self.imag = raw[1], raw[2]
        elif k == "funwind":
            self.real, self.unwind = raw[1], raw[2]
        elif k == "asm":
            self.cases = raw[1]

    def succs(self, unwind=False, imaginary=False):
        k = self.kind
        out = []
        if k == "goto":
            out = [self.target]
        elif k == "switch":
            out = [t for _, t in self.cases] + [self.otherwise]
        elif k in ("drop", "call", "assert"):
            if self.target is not None:
                out = [self.target]
            if unwind and self.unwind is not None:
                out.append(self.unwind)
        elif k == "yield":
            out = [self.resume]
            if unwind and self.drop is not None:
                out.append(self.drop)
        elif k == "fedge":
            out = [self.real]
            if imaginary:
                out.append(self.imag)
        elif k == "funwind":
            out = [self.real]
            if unwind and self.unwind is not None:
                out.append(self.unwind)
        elif k == "asm":
            out = list(self.cases)
        # de-dup preserving order
        seen = set()
        res = []
        for t in out:
            if t not in seen:
                seen.add(t)
                res.append(t)
        return res

    def __repr__(self):
        k = self.kind
        if k == "call":
            return "%r = %r(%s) -> %s" % (self.dest, self.callee, ", ".join(repr(a) for a in self.args), self.target)
        if k == "switch":
            return "switch(%r) [%s, otherwise: %s]" % (self.discr, ", ".join("%s: %s" % c for c in self.cases), self.otherwise)
        if k == "drop":
            return "drop(%r) -> %s" % (self.place, self.target)
        if k == "yield":
            return "%r = yield(%r) -> %s" % (self.dest, self.args[0], self.resume)
        if k == "goto":
            return "goto -> %s" % self.target
        if k == "fedge":
            return "falseEdge -> %s (imag %s)" % (self.real, self.imag)
        if k == "funwind":
            return "falseUnwind -> %s" % self.real
        if k == "assert":
            return "assert(%r == %s) -> %s" % (self.cond, self.expected, self.target)
        return k


class Block:
    __slots__ = ("idx", "stmts", "term", "cleanup")

    def __init__(self, idx, raw):
        self.idx = idx
        self.stmts = [Stmt(s) for s in raw["s"]]
        self.term = Term(raw["t"])
        self.cleanup = raw["c"]


class Fn:
    def __init__(self, crate, raw):
        self.crate = crate
        self.raw = raw
        self.def_ = raw["def"]
        self.kind = raw.get("kind")
        self.parent = raw.get("parent")
        self.error = raw.get("error")
        self.vis = raw.get("vis")
        self.doc = raw.get("doc", "")
        self.self_ty = raw.get("self_ty")
        self.impl_trait = raw.get("impl_trait")
        self.coroutine_kind = raw.get("coroutine_kind")
        self.asyncness = raw.get("asyncness", False)
        self.line = raw.get("line", 0)
        self.end_line = raw.get("end_line", 0)
        self.file = crate.files[raw["file"]] if "file" in raw else "?"
        self.arg_count = raw.get("arg_count", 0)
        self.captures = raw.get("captures", [])
        self.locals = raw.get("locals", [])
        self.user_locals = set(raw.get("user_locals", []))
        self.debug = [(d[0], Place(d[1]) if d[1] is not None else None, d[2], d[3]) for d in raw.get("debug", [])]
        self._blocks = None
        self.thir = raw.get("thir")
        self._cfg = None

    @property
    def blocks(self):
        if self._blocks is None:
            self._blocks = [Block(i, b) for i, b in enumerate(self.raw.get("blocks", []))]
        return self._blocks

    @property
    def name(self):
        return self.def_

    def local_ty(self, l):
        return self.locals[l]

    def debug_place(self, name):
        """the place(s) a source variable lives in"""
        return [p for n, p, _, _ in self.debug if n == name and p is not None]

    def debug_names(self):
        return {n for n, _, _, _ in self.debug}

    def name_of_place(self, place):
        """source-level name for a place, if var_debug_info has one (longest matching prefix)"""
        best = None
        for n, p, _, _ in self.debug:
            if p is None:
                continue
            if p.local == place.local and place.proj[:len(p.proj)] == p.proj:
                if best is None or len(p.proj) > len(best[1].proj):
                    best = (n, p)
        if best is None:
            return None
        rest = place.proj[len(best[1].proj):]
        return best[0] + "".join(Place([0] + [list(x) if isinstance(x, tuple) else x for x in rest]).fields())

    def macro(self, mac_id):
        return self.crate.macros[mac_id] if mac_id else ""

    def loc(self, line):
        return "%s:%s" % (self.file, line)

    def calls(self):
        """iterate (block index, Term) for all call terminators"""
        for b in self.blocks:
            if b.term.kind == "call":
                yield b.idx, b.term

    def pretty(self, only=None):
        out = ["fn %s [%s] %s:%d" % (self.def_, self.kind, self.file, self.line)]
        for n, p, a, _ in self.debug:
            out.append("  debug %s => %r" % (n, p))
        for b in self.blocks:
            if only is not None and b.idx not in only:
                continue
            out.append("  bb%d%s:" % (b.idx, " (cleanup)" if b.cleanup else ""))
            for s in b.stmts:
                if s.kind in ("live", "dead"):
                    continue
                out.append("    %r   // L%s %s" % (s, s.line, self.macro(s.mac)))
            out.append("    %r   // L%s %s" % (b.term, b.term.line, self.macro(b.term.mac)))
        return "\n".join(out)


class Crate:
    def __init__(self, raw, path):
        self.raw = raw
        self.path = path
        self.name = raw["crate"]
        self.crate_types = raw["crate_types"]
        self.is_test = raw["is_test"]
        self.tree_hash = raw.get("tree_hash", "")
        self.config = raw.get("config", "default")
        self.macros = raw["macros"]
        self.files = raw["files"]
        self.fns = [Fn(self, f) for f in raw["fns"]]
        self.adts = raw["adts"]
        self.impls = raw["impls"]
        self.n_bodies = raw["n_bodies"]
        self.n_blocks = raw["n_blocks"]
        self.consts = {c["def"]: c["thir"] for c in raw.get("consts", [])}


class Facts:
    def __init__(self, directory):
        self.dir = directory
        self.crates = {}
        for fn in sorted(os.listdir(directory)):
            if not fn.endswith(".json"):
                continue
            with open(os.path.join(directory, fn)) as f:
                raw = json.load(f)
            c = Crate(raw, os.path.join(directory, fn))
            key = c.name + ("" if c.crate_types[0] != "executable" else ":bin")
            self.crates[key] = c
        self.fn_by_def = {}
        self.adts = {}
        self.impls = []
        self.consts = {}
        for c in self.crates.values():
            c.facts = self
            self.consts.update(c.consts)
            for f in c.fns:
                # lib wins over bin for duplicated names
                if f.def_ not in self.fn_by_def or c.crate_types[0] != "executable":
                    self.fn_by_def[f.def_] = f
            for a in c.adts:
                # prefer the defining crate's record (has docs)
                if a["path"] not in self.adts or a.get("local"):
                    self.adts[a["path"]] = a
            for i in c.impls:
                self.impls.append((c.name, i))

    # ---- lookups -------------------------------------------------------------------------
    def fn(self, def_path):
        """exact def path; raises KeyError -> rules turn that into a fail-closed floor violation"""
        return self.fn_by_def[def_path]

    def find_fn(self, def_path):
        return self.fn_by_def.get(def_path)

    def const_init(self, def_path):
        """THIR of the initialiser of a const / static item of the workspace (None when unknown)"""
        t = self.consts.get(def_path)
        if isinstance(t, dict) and isinstance(t.get("root"), dict):
            return t["root"]
        return None

    def fns_matching(self, regex, crate=None):
        r = re.compile(regex)
        out = []
        for d, f in self.fn_by_def.items():
            if crate is not None and f.crate.name != crate:
                continue
            if r.search(d):
                out.append(f)
        return sorted(out, key=lambda f: f.def_)

    def trait_methods(self, self_ty, trait_sub, method):
        """functions that are `method` of an impl of a trait (path contains trait_sub) for exactly self_ty"""
        out = []
        for f in self.fn_by_def.values():
            if f.self_ty == self_ty and f.impl_trait and trait_sub in f.impl_trait and f.def_.endswith("::" + method):
                out.append(f)
        return sorted(out, key=lambda f: f.def_)

    def children(self, fn):
        """closures / coroutines directly nested in fn"""
        return sorted((f for f in self.fn_by_def.values() if f.parent == fn.def_ and f.kind in ("closure", "coroutine")),
                      key=lambda f: f.def_)

    def descendants(self, fn):
        out = []
        todo = [fn]
        while todo:
            x = todo.pop()
            for c in self.children(x):
                out.append(c)
                todo.append(c)
        return out

    def callable_bodies(self, fn):
        """bodies that `fn` hands to combinators or calls as its own helpers: its closures (transitively) plus every function of the same
        crate it names (as a call or as a function item, `.map(helper)`), so that `|x| body` and a named `fn helper(x) { body }` are found alike"""
        from . import thir as _thir
        out = list(self.descendants(fn))
        seen = {id(x) for x in out} | {id(fn)}
        todo = [fn] + out
        while todo:
            g = todo.pop()
            try:
                rt = _thir.root(g)
            except Exception:
                continue
            for n in _thir.walk(rt):
                if isinstance(n, dict) and n.get("k") == "fn" and str(n.get("def", "")).split("::")[0] == fn.crate.name:
                    h = self.find_fn(n["def"])
                    if h is not None and id(h) not in seen:
                        seen.add(id(h))
                        out.append(h)
                        todo.append(h)
                        for c in self.descendants(h):
                            if id(c) not in seen:
                                seen.add(id(c))
                                out.append(c)
        return out

    def crate_fns(self, crate):
        return [f for f in self.fn_by_def.values() if f.crate.name == crate]

    def adt(self, path):
        return self.adts[path]

    def find_adt(self, path):
        return self.adts.get(path)

    def variants(self, path):
        return [v["name"] for v in self.adts[path]["variants"]]

    def derived(self, adt_path, trait):
        """True if trait impl for adt is #[automatically_derived]; None if no impl found"""
        a = self.adts.get(adt_path)
        if a is None:
            return None
        res = None
        for t in a["traits"]:
            if t["trait"] == trait:
                res = bool(t["derived"]) if res is None else (res and bool(t["derived"]))
        return res

    def impls_of(self, trait_suffix, self_ty_sub=None):
        out = []
        for cname, i in self.impls:
            tr = i.get("trait_def") or ""
            if tr.endswith(trait_suffix):
                if self_ty_sub is None or self_ty_sub in i["self_ty"]:
                    out.append(i)
        return out

    def total_bodies(self):
        return sum(c.n_bodies for c in self.crates.values())

    def total_blocks(self):
        return sum(c.n_blocks for c in self.crates.values())
