"""Per-iteration path model of action::worker::throttle_collect (shared by C01 and C02)."""
import re

from . import thir, pathx
from .facts import strip_generics
from .report import Skip


def interesting(d):
    p = strip_generics(d)
    return not any(p.startswith(x) for x in ("core::clone::Clone::clone", "core::convert::", "core::ops::deref", "core::fmt",
                                             "core::pin::Pin::", "core::future::get_context", "core::future::into_future",
                                             "core::ops::try_trait", "core::result::Result::map_err"))


class Iter:
    """one feasible path through one iteration of the collect loop"""

    def __init__(self, path):
        self.path = path
        self.ev = path.ev
        self.out = path.out
        self.val = path.val
        self.facts = []  # ordered (kind, ...)

    def calls(self, suffix):
        return [e for e in self.ev if e[0] == "call" and strip_generics(e[1]).endswith(suffix)]

    def index_of(self, pred):
        for i, e in enumerate(self.ev):
            if pred(e):
                return i
        return None

    def branches(self, needle):
        return [(i, e) for i, e in enumerate(self.ev) if e[0] == "branch" and needle in e[1]]

    def arms(self, scrut):
        return [(i, e) for i, e in enumerate(self.ev) if e[0] == "arm" and e[1] == scrut]

    def show(self):
        return pathx.show_events(self.ev) + " -> " + self.out + (" " + self.val if self.val else "")


def feasible(p):
    """drop paths that contradict themselves on a pure predicate over unmodified variables"""
    memo = {}
    for e in p.ev:
        if e[0] == "branch":
            key, neg = pathx.split_not(e[1])
            val = (e[2] != neg)
            if key in memo and memo[key] != val:
                return False
            memo[key] = val
        elif e[0] == "call":
            n = strip_generics(e[1])
            node = e[2]
            if n.endswith("Vec::push") or n.endswith("mem::take") or n.endswith("Vec::clear"):
                tgt = pathx.desc(node["a"][0])
                for k in list(memo):
                    if "(" + tgt + ")" in k or "(" + tgt + "," in k:
                        del memo[k]
                if n.endswith("Vec::push"):
                    memo["Vec::is_empty(%s)" % tgt] = False
        elif e[0] == "assign":
            for k in list(memo):
                if re.search(r"\b%s\b" % re.escape(e[1]), k):
                    del memo[k]
    return True


def model(ctx, rule):
    f = ctx.anchor_one(rule, "throttle_collect coroutine",
                       [c for c in ctx.facts.children(ctx.anchor_fn(rule, "watchexec::action::worker::throttle_collect")) if c.kind == "coroutine"])
    root = thir.root(f)
    loops = [n for n in thir.find(root, "loop") if not n.get("x")]
    if len(loops) != 1:
        ctx.violation(rule, "floor:collect-loop", "throttle_collect no longer has exactly one collect loop (found %d)" % len(loops), f.loc(f.line))
        raise Skip()
    en = pathx.Enum(interesting=interesting)
    pathx.SUBST = pathx.let_substitutions(root)
    try:
        raw = en.paths(loops[0]["e"])
    finally:
        pathx.SUBST = {}
    its = [Iter(p) for p in raw if feasible(p)]
    unknown = [e for it in its for e in it.ev if e[0] == "unknown"]
    for u in unknown[:3]:
        ctx.incomplete(rule, "unmodelled:" + str(u[1]), "throttle_collect contains a construct the path enumerator does not model: %s" % u[1], f.loc(f.line))
    return f, loops[0], its, len(raw)


def recv_arm(it):
    """index of the arm event that binds (event, priority) from the channel, or None"""
    for i, e in it.arms("maybe_event"):
        if e[2][0].startswith("Ok(Ok("):
            return i
    return None


URGENT = "PartialEq::eq(priority, Urgent)"
EMPTY = "Event::is_empty(event)"


def classify(it):
    """for an iteration that received an event: 'urgent' | 'empty' | 'bypass' | 'pass' | 'reject' | 'error' | 'unknown'.
    If the filter was consulted, the verdict is its result arm.  Otherwise the event by-passed the filter, which must be
    evidenced by a true condition mentioning the urgent test and/or the empty-event test (possibly through a local bool)."""
    i0 = recv_arm(it)
    if i0 is None:
        return None
    checked = [i for i, e in enumerate(it.ev) if i > i0 and e[0] == "call" and strip_generics(e[1]).endswith("Filterer::check_event")]
    if checked:
        for i, e in enumerate(it.ev[checked[0]:], checked[0]):
            if e[0] == "arm" and "Filterer::check_event(" in e[1]:
                pat = e[2][0]
                if pat.startswith("Err"):
                    return "error"
                if pat == "Ok(false)":
                    return "reject"
                if pat == "Ok(true)":
                    return "pass"
            if e[0] == "iflet" and "Filterer::check_event(" in e[1]:
                return "unknown"
        return "unknown"
    for i, e in enumerate(it.ev[i0:], i0):
        if e[0] == "branch" and e[2] is True and not e[1].startswith("Not "):
            if e[1] == URGENT:
                return "urgent"
            if e[1] == EMPTY:
                return "empty"
            if URGENT in e[1] or EMPTY in e[1]:
                if "&&" not in e[1]:
                    return "bypass"
    return "unknown"


def is_urgent_evidence(desc_, truth):
    """a branch that proves the event is urgent"""
    return truth is True and desc_ == URGENT


def _split_top(d):
    """'(A op B)' -> (A, op, B) for the top-level || / && of a parenthesised logic description"""
    if not (d.startswith("(") and d.endswith(")")):
        return None
    inner = d[1:-1]
    depth = 0
    i = 0
    while i < len(inner) - 3:
        c = inner[i]
        if c in "([{":
            depth += 1
        elif c in ")]}":
            depth -= 1
        elif depth == 0 and inner[i:i + 4] in (" || ", " && "):
            return inner[:i], inner[i + 1:i + 3], inner[i + 4:]
        i += 1
    return None


def implies(desc_, truth, atom, atom_truth=True):
    """does observing `desc_ == truth` imply `atom == atom_truth`?  (sound, incomplete)"""
    d = desc_
    if d.startswith("Not "):
        return implies(d[4:], not truth, atom, atom_truth)
    if atom.startswith("Not "):
        return implies(d, truth, atom[4:], not atom_truth)
    if d == atom:
        return truth == atom_truth
    sp = _split_top(d)
    if sp is None:
        return False
    a, op, b = sp
    if op == "&&":
        if truth:   # both hold
            return implies(a, True, atom, atom_truth) or implies(b, True, atom, atom_truth)
        return implies(a, False, atom, atom_truth) and implies(b, False, atom, atom_truth)
    if op == "||":
        if truth:
            return implies(a, True, atom, atom_truth) and implies(b, True, atom, atom_truth)
        return implies(a, False, atom, atom_truth) or implies(b, False, atom, atom_truth)
    return False


def eval_cond(desc_, env):
    """three-valued evaluation of a condition description under a partial assignment of its atoms (None = unknown)"""
    d = desc_
    if d.startswith("Not "):
        v = eval_cond(d[4:], env)
        return None if v is None else (not v)
    if d in env:
        return env[d]
    sp = _split_top(d)
    if sp is None:
        return None
    a, op, b = sp
    va, vb = eval_cond(a, env), eval_cond(b, env)
    if op == "&&":
        if va is False or vb is False:
            return False
        return True if (va is True and vb is True) else None
    if va is True or vb is True:
        return True
    return False if (va is False and vb is False) else None
