"""Shared model extraction for the job task (start_job): bodies, per-arm paths, abstract events.

B0 = the job task coroutine, B1 = process-end handler, B2 = control handler.
Paths come from wxlint.pathx (THIR); every event that touches a tracked variable must be
recognised by `abstract()`, otherwise it is reported as unmodelled (rules fail closed).
"""
import re

from . import thir, pathx
from .facts import strip_generics
from .report import Skip

TRACKED = ("command_state", "stop_timer", "on_end", "on_end_restart", "done", "previous_run", "child",
           "spawn_hook", "error_handler", "flag", "timer")

BORING = ("core::clone::Clone::clone", "std::time::Instant::now", "core::convert::Into::into", "core::convert::From::from",
          "core::ops::deref::Deref::deref", "core::ops::deref::DerefMut::deref_mut", "core::convert::AsRef::as_ref",
          "alloc::boxed::Box::into_pin", "core::option::Option::as_ref", "alloc::vec::Vec::len",
          "watchexec_supervisor::errors::sync_io_error", "core::fmt::", "std::io::_eprint", "std::io::stdio::_eprint")


def interesting(d):
    p = strip_generics(d)
    return not any(p.startswith(b) or p == b for b in BORING)


class Bodies:
    def __init__(self, ctx, rule):
        f = ctx.facts
        self.start_job = ctx.anchor_fn(rule, "watchexec_supervisor::job::task::start_job")
        cands = [c for c in f.children(self.start_job) if c.kind == "coroutine"]
        self.b0 = ctx.anchor_one(rule, "job task coroutine (argument of tokio::spawn in start_job)", cands)
        kids = [c for c in f.children(self.b0) if c.kind == "coroutine"]
        self.b1 = ctx.anchor_one(rule, "process-end handler (coroutine capturing `result`)",
                                 [c for c in kids if any(cap[0] == "result" and "Result<bool" in cap[2] for cap in c.captures)])
        self.b2 = ctx.anchor_one(rule, "control handler (coroutine capturing `control` and `done`)",
                                 [c for c in kids if any(cap[0] == "control" and cap[2].endswith("messages::Control") for cap in c.captures)
                                  and any(cap[2].endswith("flag::Flag") for cap in c.captures)])
        self.recv = ctx.anchor_one(rule, "PriorityReceiver::recv coroutine",
                                   [c for c in f.children(ctx.anchor_fn(rule, "watchexec_supervisor::job::priority::PriorityReceiver::recv"))
                                    if c.kind == "coroutine"])
        self.enum = pathx.Enum(interesting=interesting)
        self._b2_match = None
        self.ctx = ctx
        global FACTS
        FACTS = f

    def control_match(self, rule):
        if self._b2_match is None:
            ms = [m for m in thir.find(thir.root(self.b2), "match") if m["src"] == "Normal" and m["sty"].endswith("messages::Control")]
            if len(ms) != 1:
                self.ctx.violation(rule, "floor:control-match", "the control handler no longer has exactly one `match control` (found %d)" % len(ms),
                                   self.b2.loc(self.b2.line))
                raise Skip()
            self._b2_match = ms[0]
        return self._b2_match

    def arms(self, rule):
        """[(variant name, arm node)]"""
        m = self.control_match(rule)
        out = []
        for a in m["arms"]:
            vs = thir.pattern_variants(a["p"])
            out.append((vs[0] if len(vs) == 1 else "|".join(vs), a))
        return out

    def b2_paths(self, rule):
        """{variant: [full paths through the whole handler that take that arm]}"""
        allp = self.enum.paths(thir.root(self.b2))
        m = self.control_match(rule)
        by = {}
        names = [n for n, _ in self.arms(rule)]
        for p in allp:
            which = None
            for e in p.ev:
                if e[0] == "arm" and e[4].n in m["arms"]:
                    which = names[m["arms"].index(e[4].n)]
                    break
            by.setdefault(which, []).append(p)
        return by

    def b1_paths(self):
        return self.enum.paths(thir.root(self.b1))


def _arg_desc(ev, i):
    n = ev[2]
    a = n["a"]
    return pathx.desc(a[i]) if i < len(a) else "?"


FACTS = None
_inlining = set()


def _inline_helper(d, node):
    """a private, synchronous, straight-line helper of the job module that is handed job state (`raise_end_flags(&mut on_end)`): its single path is
    abstracted in place of the call, with the arguments standing in for its parameters. Anything else stays unmodelled."""
    g = FACTS.find_fn(d) if FACTS is not None and d.startswith("watchexec_supervisor::job::") else None
    th = getattr(g, "thir", None) if g is not None else None
    if not th or g.kind != "fn" or getattr(g, "asyncness", False) or d in _inlining:
        return None
    params = []
    for pr in th.get("params", []):
        pat = pr.get("pat") or {}
        if pat.get("k") != "bind" or "sub" in pat:
            return None
        params.append(pat["n"])
    if len(params) != len(node["a"]):
        return None
    saved = pathx.SUBST
    pathx.SUBST = dict(saved)
    for pn, an in zip(params, node["a"]):
        pathx.SUBST[pn] = {"k": "described", "d": pathx.desc(an)}
    _inlining.add(d)
    try:
        ps = pathx.Enum(interesting=interesting).paths(thir.root(g))
        if len(ps) != 1 or ps[0].out != "val":
            return None
        return abstract(ps[0])
    finally:
        _inlining.discard(d)
        pathx.SUBST = saved


def abstract(path):
    """-> (symbols, unmodelled) ; symbols are tuples, first element the name"""
    out = []
    unm = []
    evs = list(path.ev)
    i = 0
    while i < len(evs):
        e = evs[i]
        k = e[0]
        if k == "call":
            d = strip_generics(e[1])
            node = e[2]
            if d.endswith("CommandState::is_running"):
                pass  # the following branch event carries the information
            elif d.endswith("TokioChildWrapper::kill") or d.endswith("TestChild::kill"):
                out.append(("kill", _arg_desc(e, 0)))
            elif d.endswith("TokioChildWrapper::wait") or d.endswith("TestChild::wait"):
                out.append(("wait", _arg_desc(e, 0)))
            elif d.endswith("TokioChildWrapper::start_kill"):
                out.append(("kill", _arg_desc(e, 0)))
            elif d.endswith("task::signal_child"):
                out.append(("signal", _arg_desc(e, 0), _arg_desc(e, 1)))
            elif d.endswith("CommandState::reset"):
                out.append(("reset", _arg_desc(e, 0)))
            elif d.endswith("CommandState::spawn"):
                out.append(("spawn", _arg_desc(e, 0), _arg_desc(e, 2)))
            elif d.endswith("CommandState::wait"):
                out.append(("cs-wait", _arg_desc(e, 0)))
            elif d.endswith("conversions::to_spawnable") or d.endswith("Command::to_spawnable"):
                out.append(("to-spawnable",))
            elif d.endswith("SpawnHook::call"):
                ctxd = _arg_desc(e, 2)
                out.append(("hook", _arg_desc(e, 0), _arg_desc(e, 1), ctxd))
            elif d.endswith("ErrorHandler::call"):
                out.append(("error-handler", _arg_desc(e, 0)))
            elif d.endswith("flag::Flag::raise"):
                out.append(("raise", _arg_desc(e, 0)))
            elif d.endswith("core::mem::take"):
                out.append(("mem-take", _arg_desc(e, 0)))
            elif d.endswith("Timer::stop"):
                out.append(("timer-stop", _arg_desc(e, 0), _arg_desc(e, 1)))
            elif d.endswith("Timer::restart"):
                out.append(("timer-restart", _arg_desc(e, 0), _arg_desc(e, 1)))
            elif d.endswith("core::option::Option::replace"):
                out.append(("replace", _arg_desc(e, 0), _arg_desc(e, 1)))
            elif d.endswith("core::option::Option::take"):
                out.append(("take", _arg_desc(e, 0)))
            elif d.endswith("alloc::vec::Vec::push"):
                out.append(("push", _arg_desc(e, 0), _arg_desc(e, 1)))
            elif d.endswith("FnOnce::call_once") or d.endswith("Fn::call") or d.endswith("FnMut::call_mut"):
                out.append(("callback", _arg_desc(e, 0), _arg_desc(e, 1)))
            elif d == "<indirect>":
                out.append(("callback", "?", "?"))
            else:
                args = " ".join(pathx.desc(a) for a in node["a"])
                if any(re.search(r"\b%s\b" % t, args) for t in TRACKED):
                    inl = _inline_helper(d, node)
                    if inl is not None:
                        out += inl[0]
                        unm += inl[1]
                        i += 1
                        continue
                    unm.append("call %s(%s) at L%s" % (pathx.short(e[1]), args, node.get("l")))
                out.append(("other-call", pathx.short(e[1])))
        elif k == "await":
            out.append(("await", e[1]))
        elif k == "assign":
            lhs, rhs = e[1], e[2]
            if lhs == "^command_state":
                m = re.match(r"^(\w+)\{", rhs)
                out.append(("set-state", m.group(1) if m else rhs, rhs))
            elif lhs == "^previous_run":
                out.append(("save-previous", rhs))
            elif lhs == "^on_end_restart":
                out.append(("set-restart-marker", rhs))
            elif lhs == "^stop_timer":
                out.append(("set-timer", rhs))
            elif lhs in ("^error_handler", "^spawn_hook"):
                out.append(("set-callback", lhs, rhs))
            elif lhs.lstrip("^") in TRACKED or lhs.split(".")[0].lstrip("^") in TRACKED:
                unm.append("assignment %s = %s" % (lhs, rhs))
            else:
                out.append(("assign", lhs, rhs))
        elif k == "branch":
            d = e[1]
            core, neg = pathx.split_not(d)
            if "CommandState::is_running(" in core:
                out.append(("running?", (e[2] != neg)))
            elif "is_restart" in core:
                out.append(("timer-is-restart?", (e[2] != neg)))
            else:
                out.append(("cond", d, e[2]))
        elif k == "iflet" and len(e) > 5:
            pass        # the if-let reading of a two-armed match: the arm event that follows carries the same information
        elif k == "iflet":
            d, vs, truth = e[1], e[2], e[3]
            if d == "^command_state" and "Running" in vs:
                out.append(("running?", truth))
            elif d.startswith("Option::take("):
                out.append(("taken-some?", d[len("Option::take("):-1], truth))
            elif "CommandState::spawn(" in d:
                # `if let Err(err) = spawn(..)`
                out.append(("res", "spawn", ("Err" if truth else "Ok") if "Err" in vs else ("Ok" if truth else "Err")))
            else:
                out.append(("iflet", d, vs, truth))
        elif k == "arm":
            d, pats = e[1], e[2][0]
            m = re.match(r"^(Ok|Err)\b", pats)
            if "TokioChildWrapper::kill(" in d or "TestChild::kill(" in d:
                out.append(("res", "kill", m.group(1) if m else pats))
            elif "TokioChildWrapper::wait(" in d or "TestChild::wait(" in d:
                out.append(("res", "wait", m.group(1) if m else pats))
            elif "signal_child(" in d:
                out.append(("res", "signal", m.group(1) if m else pats))
            elif "CommandState::spawn(" in d:
                out.append(("res", "spawn", m.group(1) if m else pats))
            elif d in ("result", "^result"):
                out.append(("wait-result", pats))
            elif d in ("control", "^control"):
                out.append(("control", pats.split("(")[0].split("{")[0]))
            else:
                out.append(("arm", d, pats))
        elif k == "loop":
            its = e[1]
            kind = e[2]
            body = []
            for it in sorted(its, key=repr):
                sub, u2 = abstract(pathx.P(it))
                unm += u2
                body.append(tuple(sub))
            out.append(("loop", kind, tuple(body)))
        elif k == "closure":
            out.append(("closure", e[1]))
        elif k == "unknown":
            unm.append("unmodelled THIR construct: %s" % e[1])
        i += 1
    return out, unm


def show(sym):
    return "%s(%s)" % (sym[0], ", ".join(str(x) for x in sym[1:])) if len(sym) > 1 else sym[0]


def show_path(symbols, outcome):
    return " ; ".join(show(s) for s in symbols) + "  ->  " + outcome


def outcome(path):
    if path.out == "ret":
        return "return " + (path.val or "")
    if path.out == "val":
        return "fallthrough"
    return path.out


CTX_DESC = "JobTaskContext{command: Clone::clone(^command), current: ^command_state, previous: Option::as_ref(^previous_run)}"


def effects(symbols):
    """project abstract symbols onto the effect alphabet of spec/control_semantics.json.
    returns (conds, effects) ; unrecognised material is kept as 'other:...' so that it shows up as a mismatch"""
    conds = []
    eff = []
    i = 0
    n = len(symbols)
    while i < n:
        s = symbols[i]
        k = s[0]
        nxt = symbols[i + 1] if i + 1 < n else None
        if k == "control":
            pass
        elif k == "wait-result":
            conds.append("wait-result=" + s[1])
        elif k == "running?":
            conds.append("running" if s[1] else "not-running")
        elif k == "res":
            conds.append("%s=%s" % (s[1], s[2]))
        elif k == "taken-some?":
            conds.append("%s=%s" % (s[1].lstrip("^"), "some" if s[2] else "none"))
        elif k == "timer-is-restart?":
            conds.append("timer-kind=" + ("restart" if s[1] else "stop"))
        elif k == "kill" and s[1] == "child" and nxt and nxt[0] == "await" and "kill(child)" in nxt[1]:
            eff.append("kill")
            i += 1
        elif k == "wait" and s[1] == "child" and nxt and nxt[0] == "await" and "wait(child)" in nxt[1]:
            eff.append("wait")
            i += 1
        elif k == "signal" and s[2] == "child" and nxt and nxt[0] == "await" and "signal_child(" in nxt[1]:
            eff.append("signal(%s)" % s[1])
            i += 1
        elif k == "set-state":
            eff.append("set-" + s[1].lower())
        elif k == "reset" and s[1] == "^command_state" and nxt and nxt[0] == "save-previous" and nxt[1] == "Some{0: CommandState::reset(^command_state)}":
            eff.append("reset")
            i += 1
        elif k == "to-spawnable":
            eff.append("to-spawnable")
        elif k == "hook" and nxt and nxt[0] == "await" and nxt[1].startswith("SpawnHook::call("):
            if s[1] == "^spawn_hook" and s[2] == "spawnable" and s[3] == CTX_DESC:
                eff.append("hook")
            else:
                eff.append("other:hook(%s, %s, %s)" % (s[1], s[2], s[3]))
            i += 1
        elif k == "spawn" and s[1] == "^command_state" and s[2] == "spawnable":
            eff.append("spawn")
        elif k == "error-handler" and s[1] == "^error_handler" and nxt and nxt[0] == "await" and nxt[1] == "fut":
            eff.append("error-handler")
            i += 1
        elif k == "raise":
            eff.append("raise(%s)" % s[1].lstrip("^") if s[1] in ("^done", "flag", "timer.done") else "other:raise(%s)" % s[1])
        elif k == "mem-take" and s[1] == "^on_end" and nxt and nxt[0] == "loop" and nxt[2] == ((("raise", "done"),),):
            eff.append("raise-on-end")
            i += 1
        elif k == "timer-stop" and nxt and nxt[0] == "replace" and nxt[1] == "^stop_timer":
            eff.append("arm-stop(%s,%s)" % (s[1], s[2].lstrip("^")))
            i += 1
        elif k == "timer-restart" and nxt and nxt[0] == "replace" and nxt[1] == "^stop_timer":
            eff.append("arm-restart(%s,%s)" % (s[1], s[2].replace("^", "")))
            i += 1
        elif k == "set-restart-marker":
            eff.append("mark-restart(%s)" % s[1].replace("^", "") if s[1] != "None" else "clear-restart")
        elif k == "take":
            eff.append("take(%s)" % s[1].lstrip("^"))
        elif k == "push":
            eff.append("push(%s,%s)" % (s[1].lstrip("^"), s[2].lstrip("^")))
        elif k == "callback":
            if nxt and nxt[0] == "await" and "FnOnce::call_once(" in nxt[1]:
                eff.append("run-async" if s[2] == "(" + CTX_DESC + ")" else "other:run-async(%s)" % s[2])
                i += 1
            else:
                eff.append("run-sync" if s[2] == "(" + CTX_DESC + ")" else "other:run-sync(%s)" % s[2])
        elif k == "set-callback":
            eff.append("set(%s,%s)" % (s[1].lstrip("^"), s[2].split("{")[0]))
        elif k in ("other-call", "assign", "closure", "await"):
            # operations that do not involve any tracked variable of the job task (those are reported as unmodelled by abstract())
            pass
        elif k in ("cond", "iflet", "arm"):
            pass  # a branch on something that is not job state: both outcomes are enumerated as separate paths with equal conditions
        else:
            eff.append("other:" + show(s))
        i += 1
    return conds, eff


def loop_outcome(path):
    """how a handler path leaves: 'continue' (Loop::Normally and Loop::Skip are treated identically by the job task: both go on
    with the next message) or 'Break'"""
    v = path.val if path.out in ("ret", "val") else path.out
    if v in ("Normally", "Skip", None):
        return "continue"
    return v
