"""Structured path enumeration over THIR trees.

For a (small) expression tree this yields every syntactic path as a sequence of events plus the way
the path leaves the expression (value / return / break / continue / diverge).  Tracing-macro
expansions contribute nothing.  `.await` desugarings are collapsed to a single 'await' event,
`for` loops to a 'loop' event holding the set of per-iteration event sequences.

Events:
  ('call', def_path, node)              a resolved call (after its arguments)
  ('await', desc)                       awaiting the value described by desc
  ('assign', lhs_desc, rhs_desc, node)
  ('branch', desc, True|False, node)    an `if` condition (desc describes it)
  ('iflet', scrut_desc, variants, True|False, node)
  ('arm', scrut_desc, variants, index, node)   a match arm was taken
  ('loop', frozenset(iteration event tuples), kind)
  ('closure', def_path)
  ('unknown', kind)                     construct the enumerator does not model: rules fail closed
"""
from . import thir

TRACE_MARKERS = ("trace", "$crate::event", "debug<", "info<", "warn<", "error<", "tracing", "$crate::valueset", "trace_span", "debug_span", "$crate::span")


def is_tracing(n):
    x = n.get("x")
    if not x:
        return False
    # format_args/panic inside non-tracing macros must not be skipped
    parts = x.split("<")
    for p in parts:
        if p in ("trace", "debug", "info", "warn", "error", "trace_span", "debug_span", "info_span", "$crate::event",
                 "$crate::span", "$crate::valueset", "$crate::level_enabled", "$crate::enabled", "$crate::callsite2",
                 "$crate::__macro_support::__tracing_static", "instrument"):
            return True
        if p.startswith("tracing::") or p.startswith("$crate::__tracing") or p.startswith("$crate::fieldset"):
            return True
    return False


def short(defpath):
    from .facts import strip_generics
    p = strip_generics(defpath or "?")
    segs = p.split("::")
    return "::".join(segs[-2:]) if len(segs) >= 2 else p


# optional let-substitution: {local name: THIR init expr} for immutable single-assignment `let x = <simple expr>`
SUBST = {}
_subst_guard = set()
# accessor inlining (opt-in per rule): callee def path -> (parameter names, body expression). A call to such a function is described as
# its body with the arguments put in place of the parameters, so `self.raised()` reads as the load it performs.
INLINE = {}
_inline_guard = set()


def helpers(facts, prefix, exclude=(), max_nodes=120):
    """private-looking synchronous functions under `prefix` small enough to be spliced into their callers by Enum(inline=..)"""
    out = {}
    for f in facts.fns_matching("^" + prefix.replace("<", r"\\<").replace(">", r"\\>")):
        th = getattr(f, "thir", None)
        if not th or f.kind not in ("method", "fn") or getattr(f, "asyncness", False) or f.def_ in exclude:
            continue
        if sum(1 for n in thir.walk(thir.root(f)) if isinstance(n, dict)) > max_nodes:
            continue
        out[f.def_] = f
    return out


def accessors(facts, prefix, max_nodes=14):
    """single-expression, non-async functions whose def path starts with `prefix`: candidates for INLINE"""
    out = {}
    for f in facts.fns_matching("^" + prefix.replace("<", r"\<").replace(">", r"\>")):
        th = getattr(f, "thir", None)
        if not th or f.kind not in ("method", "fn") or getattr(f, "asyncness", False):
            continue
        body = thir.peel(thir.root(f))
        if not isinstance(body, dict) or body.get("k") not in ("call", "field", "bin", "un", "logic"):
            continue
        nodes = [n for n in thir.walk(body) if isinstance(n, dict)]
        if len(nodes) > max_nodes or any(n.get("k") in ("closure", "match", "if", "block", "loop", "assign") for n in nodes):
            continue
        params = []
        for pr in th.get("params", []):
            pat = pr.get("pat") or {}
            if pat.get("k") != "bind" or "sub" in pat:
                params = None
                break
            params.append(pat["n"])
        if params is not None:
            out[f.def_] = (params, body)
    return out


def let_substitutions(root, deep=False):
    """immutable locals bound exactly once in the whole body by `let x = <call|op|field|lit expr>`
    (deep: also `let x = <expr>.await` and `let x = <expr>?`, which desc() renders as `await <expr>` / `<expr>?`).
    Keys are names (only for names bound once in the body) and, where the driver recorded binding ids, `#<id>` for every
    immutable `let` binding - so a shadowing `let x = f(x)` is read through as well. Deep mode also reads through an
    irrefutable struct / tuple destructuring (`let Self { a, b } = self` binds a = self.a)."""
    from . import thir as _t
    counts = {}
    inits = {}
    byid = {}

    def count_pat(p):
        for n in _t.walk(p):
            if n.get("k") == "bind":
                counts[n["n"]] = counts.get(n["n"], 0) + 1

    def ok_init(init):
        return isinstance(init, dict) and (init.get("k") in ("call", "bin", "logic", "un", "field", "lit") or matches_as_eq(init) is not None
                                           or (deep and init.get("k") in ("if", "adt", "tuple", "var", "upvar", "const"))
                                           or (deep and init.get("k") == "match" and (init.get("src") == "AwaitDesugar" or str(init.get("src", "")).startswith("TryDesugar"))))

    reassigned = set()
    if deep:
        for n in _t.walk(root):
            if n.get("k") in ("assign", "assignop") and isinstance(n.get("a"), dict) and n["a"].get("k") == "var" and "id" in n["a"]:
                reassigned.add(n["a"]["id"])

    def plain(p):
        if not (isinstance(p, dict) and p.get("k") == "bind" and "sub" not in p):
            return False
        if p.get("mode") == "BindingMode(No, Not)":
            return True
        # deep: a `let mut g = lock()` that is only written *through* (`*g = v`, `g.push(..)`) and never re-bound still names its initialiser
        return deep and p.get("mode") == "BindingMode(No, Mut)" and "id" in p and p["id"] not in reassigned

    def destructure(p, init):
        """irrefutable struct / tuple patterns: each plainly bound field stands for <init>.<field>"""
        if not isinstance(p, dict) or not isinstance(init, dict):
            return
        if p.get("k") == "leaf":
            pi = _t.peel(init)
            for fname, sp in p.get("sub", []):
                if isinstance(pi, dict) and pi.get("k") == "tuple" and isinstance(fname, int) and fname < len(pi["f"]):
                    sub_init = pi["f"][fname]
                else:
                    sub_init = {"k": "field", "n": fname, "e": init}
                if plain(sp) and "id" in sp:
                    byid["#%d" % sp["id"]] = sub_init
                elif isinstance(sp, dict) and sp.get("k") == "leaf":
                    destructure(sp, sub_init)
    for n in _t.walk(root):
        k = n.get("k")
        if k == "let":
            count_pat(n["p"])
            p = n["p"]
            if plain(p) and isinstance(n.get("i"), dict):
                init = _t.peel(n["i"])
                if ok_init(init):
                    if p.get("mode") == "BindingMode(No, Not)":
                        inits[p["n"]] = n["i"]
                    if "id" in p:
                        byid["#%d" % p["id"]] = n["i"]
            elif deep and isinstance(n.get("i"), dict) and n.get("else") is None:
                destructure(p, n["i"])
        elif k == "match":
            for a in n["arms"]:
                count_pat(a["p"])
        elif k == "letx":
            count_pat(n["p"])
    out = {k: v for k, v in inits.items() if counts.get(k, 0) == 1}
    out.update(byid)
    return out


_TAKEN = {}


def desc_on(path, e):
    """desc(e) with every `if` whose branch the path `path` fixes described as the branch taken"""
    global _TAKEN
    saved = _TAKEN
    _TAKEN = dict(saved)
    for ev in path.ev:
        if ev[0] == "branch" and len(ev) > 3 and isinstance(ev[3], Ref) and isinstance(ev[3].n, dict) and ev[3].n.get("k") == "if":
            node = ev[3].n
            _, neg = split_not(desc(node["c"]))
            _TAKEN[id(node)] = ev[2] if not neg else (not ev[2])
    try:
        return desc(e)
    finally:
        _TAKEN = saved


class reading_through:
    """with pathx.reading_through(root): desc() reads every single-assignment local of the body through to its initialiser"""

    def __init__(self, root, deep=True):
        self.root, self.deep = root, deep

    def __enter__(self):
        global SUBST
        self.saved = SUBST
        SUBST = let_substitutions(self.root, deep=self.deep)
        return self

    def __exit__(self, *a):
        global SUBST
        SUBST = self.saved
        return False


def returned_on(path, e):
    """description of the value `e` yields on `path`: `if`s follow the branch the path took and blocks yield their tail (their statements are
    effects, which the path records as events of their own) - so `return if c { f(); A } else { g(); B }` reads A / B like two plain returns"""
    taken = {}
    for ev in path.ev:
        if ev[0] == "branch" and len(ev) > 3 and isinstance(ev[3], Ref) and isinstance(ev[3].n, dict) and ev[3].n.get("k") == "if":
            node = ev[3].n
            _, neg = split_not(desc(node["c"]))
            taken[id(node)] = ev[2] if not neg else (not ev[2])
    while isinstance(e, dict):
        k = e.get("k")
        if k in ("ref", "deref", "coerce", "rawref", "cast", "scope", "use"):
            nxt = e.get("e")
        elif k == "block" and e.get("e") is not None:
            nxt = e["e"]
        elif k == "if" and id(e) in taken:
            nxt = e["t"] if taken[id(e)] else e.get("e")
        else:
            break
        if not isinstance(nxt, dict):
            break
        e = nxt
    return desc_on(path, e)


def value_of(root):
    """the expression a body evaluates to when its statements are only `let`s that desc() reads through (use inside reading_through)"""
    e = root
    while isinstance(e, dict):
        k = e.get("k")
        if k == "block" and e.get("e") is not None and all(isinstance(x, dict) and x.get("k") == "let" and x.get("else") is None for x in e.get("s", [])):
            e = e["e"]
        elif k in ("ref", "deref", "coerce", "rawref", "cast"):
            e = e["e"]
        else:
            break
    return e


def matches_as_eq(e):
    """`matches!(x, Enum::V)` (a two-arm match with literal bool bodies, a fieldless variant and a wildcard) is the same
    test as `x == Enum::V`: returns (description 'PartialEq::eq(x, V)', truth of that test on the first arm) or None"""
    if not (isinstance(e, dict) and e.get("k") == "match" and len(e.get("arms", [])) == 2):
        return None
    a0, a1 = e["arms"]
    if a0.get("g") or a1.get("g"):
        return None
    b0, b1 = thir.peel(a0["b"]), thir.peel(a1["b"])
    if not all(isinstance(b, dict) and b.get("k") == "lit" and isinstance(b.get("b"), bool) for b in (b0, b1)) or b0["b"] == b1["b"]:
        return None
    p0 = a0["p"]
    while p0.get("k") in ("deref", "derefpat"):
        p0 = p0["p"]
    if p0.get("k") != "variant" or p0.get("sub") or thir.pat_str(a1["p"]) != "_":
        return None
    return "PartialEq::eq(%s, %s)" % (desc(e["e"]), p0["v"]), b0["b"]


def desc(e):
    global SUBST
    e0 = e
    while isinstance(e, dict) and e.get("k") in ("ref", "deref", "coerce", "cast", "rawref"):
        e = e["e"]
    if not isinstance(e, dict):
        return "?"
    k = e.get("k")
    if k == "described":
        return e["d"]
    if k == "var":
        n = e["n"]
        ik = "#%d" % e["id"] if "id" in e else None
        if ik is not None and ik in SUBST and ik not in _subst_guard:
            _subst_guard.add(ik)
            try:
                return desc(SUBST[ik])
            finally:
                _subst_guard.discard(ik)
        if n in SUBST and n not in _subst_guard:
            _subst_guard.add(n)
            try:
                return desc(SUBST[n])
            finally:
                _subst_guard.discard(n)
        return n
    if k == "upvar":
        return "^" + e["n"]  # captured variable: cannot be shadowed by a local of the same name
    if k == "field":
        return "%s.%s" % (desc(e["e"]), e["n"])
    if k == "call":
        f = thir.peel(e["fn"])
        name = short(f.get("def")) if isinstance(f, dict) and f.get("k") == "fn" else "?"
        if INLINE and isinstance(f, dict) and f.get("k") == "fn":
            key = thir.strip_generics(f.get("def") or "") if hasattr(thir, "strip_generics") else (f.get("def") or "")
            hit = INLINE.get(f.get("def")) or INLINE.get(key)
            if hit is not None and key not in _inline_guard and len(hit[0]) == len(e["a"]):
                saved = SUBST
                # arguments are described in the caller's scope first, then stand in for the parameters
                SUBST = dict(saved)
                for pn, an in zip(hit[0], e["a"]):
                    SUBST[pn] = {"k": "described", "d": desc(an)}
                _inline_guard.add(key)
                try:
                    return desc(hit[1])
                finally:
                    _inline_guard.discard(key)
                    SUBST = saved
        if name in ("Deref::deref", "DerefMut::deref_mut") and len(e["a"]) == 1:
            return desc(e["a"][0])  # auto-deref is transparent for naming purposes
        return "%s(%s)" % (name, ", ".join(desc(a) for a in e["a"]))
    if k == "adt":
        if not e["f"]:
            return e["v"]
        return "%s{%s}" % (e["v"], ", ".join("%s: %s" % (n, desc(x)) for n, x in e["f"]))
    if k == "lit":
        for key in ("s", "i", "b", "c"):
            if key in e:
                return repr(e[key])
        return "lit"
    if k == "match" and e.get("src") == "AwaitDesugar":
        inner = thir.peel(e["e"])
        if inner.get("k") == "call" and inner["a"]:
            return "await " + desc(inner["a"][0])
        return "await ?"
    if k == "match" and str(e.get("src", "")).startswith("TryDesugar"):
        inner = thir.peel(e["e"])
        if inner.get("k") == "call" and inner.get("a"):
            return desc(inner["a"][0]) + "?"
        return "?"
    if k == "if" and id(e) in _TAKEN:
        br = e["t"] if _TAKEN[id(e)] else e.get("e")
        return desc(br) if br is not None else "()"
    if k == "if":
        c = thir.peel(e["c"]) if isinstance(e.get("c"), dict) else None
        if isinstance(c, dict) and c.get("k") == "lit" and isinstance(c.get("b"), bool):
            br = e["t"] if c["b"] else e.get("e")
            return desc(br) if br is not None else "()"
        return "if"
    if k == "match":
        me = matches_as_eq(e)
        if me is not None:
            return me[0] if me[1] else "Not " + me[0]
    if k == "block":
        if e.get("e") is not None and not e.get("s"):
            return desc(e["e"])
        # a spliced helper whose arguments were bound to temporaries (`Ctx::new(a.clone(), &b)` -> `{ let p0 = a.clone(); let p1 = &b; Ctx{..p0, p1} }`):
        # its value is the tail with the temporaries read through
        if e.get("e") is not None and e.get("spliced") and all(
                isinstance(s_, dict) and s_.get("k") == "let" and s_.get("else") is None and isinstance(s_.get("p"), dict)
                and s_["p"].get("k") == "bind" and "id" in s_["p"] and isinstance(s_.get("i"), dict) for s_ in e["s"]):
            saved = SUBST
            SUBST = dict(saved)
            try:
                for s_ in e["s"]:
                    SUBST["#%d" % s_["p"]["id"]] = {"k": "described", "d": desc(s_["i"])}
                return desc(e["e"])
            finally:
                SUBST = saved
        return "{..}"
    if k == "un":
        return "%s %s" % (e["op"], desc(e["e"]))
    if k == "bin":
        return "%s %s %s" % (desc(e["a"]), e["op"], desc(e["b"]))
    if k == "logic":
        return "(%s %s %s)" % (desc(e["a"]), "||" if e["op"] == "or" else "&&", desc(e["b"]))
    if k == "tuple":
        return "(%s)" % ", ".join(desc(x) for x in e["f"])
    if k == "closure":
        return "closure"
    if k == "fn":
        return short(e["def"])
    if k == "const" and e.get("def"):
        return e["def"].split("::")[-1]
    return k or "?"


class Ref:
    """hashable handle on a THIR node (identity semantics)"""
    __slots__ = ("n",)

    def __init__(self, n):
        self.n = n

    def __hash__(self):
        return id(self.n)

    def __eq__(self, o):
        return isinstance(o, Ref) and o.n is self.n

    def __repr__(self):
        return "<node L%s>" % (self.n.get("l") if isinstance(self.n, dict) else "?")

    def get(self, k, d=None):
        return self.n.get(k, d)

    def __getitem__(self, k):
        return self.n[k]


class P:
    __slots__ = ("ev", "out", "val")

    def __init__(self, ev=(), out="val", val=None):
        self.ev = tuple(ev)
        self.out = out
        self.val = val  # description of the value for ret/brk

    def then(self, other):
        return P(self.ev + other.ev, other.out, other.val)

    def __repr__(self):
        return "P(%s -> %s %s)" % (show_events(self.ev), self.out, self.val or "")


def show_event(e):
    k = e[0]
    if k == "call":
        return "call " + short(e[1])
    if k == "await":
        return "await"
    if k == "assign":
        return "%s = %s" % (e[1], e[2])
    if k == "branch":
        return "[%s is %s]" % (e[1], e[2])
    if k == "iflet":
        return "[%s %s %s]" % (e[1], "is" if e[3] else "is not", "|".join(e[2]))
    if k == "arm":
        return "[%s ~ %s]" % (e[1], "|".join(e[2]) if e[2] else "#%d" % e[3])
    if k == "loop":
        return "loop{%s}" % " | ".join(show_events(x) for x in sorted(e[1], key=repr))
    if k == "closure":
        return "closure " + short(e[1])
    return repr(e)


def show_events(evs):
    return "; ".join(show_event(e) for e in evs)


def split_not(d):
    """'Not Not X' -> ('X', False); 'Not X' -> ('X', True): (core description, negated?)"""
    neg = False
    while True:
        if d.startswith("Not "):
            d = d[4:]
            neg = not neg
        elif d.endswith((" Eq False", " Ne True")):      # `x == false`, `x != true`
            d = d[:d.rindex(" ")]
            d = d[:d.rindex(" ")]
            neg = not neg
        elif d.endswith((" Eq True", " Ne False")):
            d = d[:d.rindex(" ")]
            d = d[:d.rindex(" ")]
        else:
            break
    return d, neg


def if_parts(n):
    """(condition without leading negations, node taken when it holds, node taken when it does not) of an `if` node"""
    d, neg = split_not(desc(n["c"]))
    return (d, n.get("e"), n["t"]) if neg else (d, n["t"], n.get("e"))


class Limit(Exception):
    pass


class Enum:
    def __init__(self, max_paths=20000, interesting=None, inline=None):
        self.max_paths = max_paths
        self.interesting = interesting  # optional predicate on call def; None = all calls recorded
        self.count = 0
        # helper functions (def path -> Fn with THIR) whose paths are spliced in at their call sites, parameters read as the arguments
        self.inline = inline or {}
        self._inlining = set()

    def _spliced(self, key, e):
        g = self.inline[key]
        th = getattr(g, "thir", None)
        if not th or key in self._inlining:
            return None
        params = []
        for pr in th.get("params", []):
            pat = pr.get("pat") or {}
            if pat.get("k") != "bind" or "sub" in pat:
                return None
            params.append(pat["n"])
        if len(params) != len(e["a"]):
            return None
        global SUBST
        saved = SUBST
        SUBST = dict(saved)
        for pn, an in zip(params, e["a"]):
            SUBST[pn] = {"k": "described", "d": desc(an)}
        self._inlining.add(key)
        try:
            out = []
            for q in self.paths(thir.root(g)):
                # a `return` of the helper is an ordinary value where it was called
                out.append(P(q.ev, "val" if q.out in ("val", "ret") else q.out, q.val))
            return out
        finally:
            self._inlining.discard(key)
            SUBST = saved

    def seq(self, exprs, tail=None):
        """paths through exprs evaluated in order"""
        acc = [P()]
        for e in exprs:
            nxt = []
            for p in acc:
                if p.out != "val":
                    nxt.append(p)
                    continue
                for q in self.paths(e):
                    nxt.append(p.then(q))
            acc = nxt
            if len(acc) > self.max_paths:
                raise Limit()
        return acc

    def paths(self, e):
        if e is None:
            return [P()]
        if isinstance(e, list):
            return self.seq(e)
        if not isinstance(e, dict):
            return [P()]
        if is_tracing(e):
            return [P()]
        k = e.get("k")
        if k in ("lit", "var", "upvar", "fn", "const", "zst", "constparam", "static", "tls", "constblock"):
            return [P()]
        if k == "closure":
            return [P([("closure", e["def"])])]
        if k in ("ref", "deref", "coerce", "cast", "rawref", "un", "repeat"):
            return self.paths(e["e"])
        if k == "field":
            return self.paths(e["e"])
        if k == "index":
            return self.seq([e["e"], e["i"]])
        if k == "bin":
            return self.seq([e["a"], e["b"]])
        if k == "logic":
            a = self.paths(e["a"])
            out = []
            for p in a:
                if p.out != "val":
                    out.append(p)
                    continue
                out.append(p)  # short-circuit
                for q in self.paths(e["b"]):
                    out.append(p.then(q))
            return out
        if k in ("assign", "assignop"):
            res = []
            for p in self.seq([e["b"], e["a"]]):
                if p.out == "val":
                    res.append(p.then(P([("assign", desc(e["a"]), desc(e["b"]), Ref(e))])))
                else:
                    res.append(p)
            return res
        if k == "call":
            f = thir.peel(e["fn"])
            pre = self.seq(list(e["a"]) + ([e["fn"]] if not (isinstance(f, dict) and f.get("k") == "fn") else []))
            res = []
            dp = f.get("def") if isinstance(f, dict) and f.get("k") == "fn" else None
            diverges = e.get("ty") == "!"
            for p in pre:
                if p.out != "val":
                    res.append(p)
                    continue
                evs = []
                if dp is not None and self.inline and dp in self.inline:
                    sp = self._spliced(dp, e)
                    if sp is not None:
                        for q in sp:
                            res.append(p.then(q))
                        continue
                if dp is None:
                    evs.append(("call", "<indirect>", Ref(e)))
                elif self.interesting is None or self.interesting(dp):
                    evs.append(("call", dp, Ref(e)))
                res.append(p.then(P(evs, "div" if diverges else "val")))
            return res
        if k in ("adt",):
            items = [x for _, x in e["f"]]
            if isinstance(e.get("base"), dict):
                items.append(e["base"])
            return self.seq(items)
        if k in ("tuple", "array"):
            return self.seq(e["f"])
        if k == "block" and e.get("fnbound") and not getattr(self, "_in_fnbound", None) == id(e):
            # the body of a spliced helper (wxlint/normal.py): its `return` yields the value of the call it replaces
            prev = getattr(self, "_in_fnbound", None)
            self._in_fnbound = id(e)
            try:
                inner = self.paths(e)
            finally:
                self._in_fnbound = prev
            return [P(q.ev, "val" if q.out == "ret" else q.out, q.val) for q in inner]
        if k == "block":
            items = []
            res = [P()]
            for s in e.get("s", []):
                nxt = []
                for p in res:
                    if p.out != "val":
                        nxt.append(p)
                        continue
                    if isinstance(s, dict) and s.get("k") == "let":
                        init = thir.peel(s.get("i")) if isinstance(s.get("i"), dict) else None
                        named = s["p"].get("k") == "bind" and "sub" not in s["p"] and isinstance(init, dict) and init.get("k") in ("if", "match", "block")
                        for q in self.paths(s.get("i")):
                            if q.out == "val" and named and isinstance(q.val, str):
                                # which alternative defined the variable on this path
                                q = P(q.ev + (("let", s["p"]["n"], q.val),), "val", None)
                            if q.out != "val" or s.get("else") is None:
                                nxt.append(p.then(q))
                            else:
                                vs = tuple(thir.pattern_variants(s["p"]))
                                nxt.append(p.then(q).then(P([("iflet", desc(s["i"]), vs, True, Ref(s))])))
                                for r in self.paths(s["else"]):
                                    nxt.append(p.then(q).then(P([("iflet", desc(s["i"]), vs, False, Ref(s))])).then(r))
                    else:
                        for q in self.paths(s):
                            nxt.append(p.then(q))
                res = nxt
                if len(res) > self.max_paths:
                    raise Limit()
            out = []
            tail = e.get("e")
            tp = thir.peel(tail) if isinstance(tail, dict) else None
            simple_tail = isinstance(tp, dict) and tp.get("k") in ("adt", "lit", "var", "upvar", "call", "field", "const", "tuple", "un", "bin")
            for p in res:
                if p.out != "val":
                    out.append(p)
                    continue
                for q in self.paths(tail):
                    r = p.then(q)
                    if r.out == "val" and r.val is None and simple_tail:
                        r = P(r.ev, "val", desc(tail))
                    out.append(r)
            return out
        if k == "letx":
            res = []
            vs = tuple(thir.pattern_variants(e["p"]))
            for p in self.paths(e["e"]):
                if p.out != "val":
                    res.append(p)
                    continue
                res.append(p.then(P([("iflet", desc(e["e"]), vs, True, Ref(e))], "val", True)))
                res.append(p.then(P([("iflet", desc(e["e"]), vs, False, Ref(e))], "val", False)))
            return res
        if k == "if":
            c = e["c"]
            cl = thir.peel(c) if isinstance(c, dict) else None
            if isinstance(cl, dict) and cl.get("k") == "lit" and isinstance(cl.get("b"), bool):
                # literal condition (cfg!(..)): only one branch exists
                return self.paths(e["t"] if cl["b"] else e.get("e"))
            res = []
            # leading `!`s: the value a `matches!`-style condition computes on a path is negated once per `!`
            core_node, negs = cl, 0
            while isinstance(core_node, dict) and core_node.get("k") == "un" and core_node.get("op") == "Not":
                core_node = thir.peel(core_node["e"])
                negs += 1
            if matches_as_eq(core_node) is not None:
                cps = self.paths(core_node["e"])       # only the scrutinee is evaluated; the test itself becomes a branch event below
            else:
                cps = self.paths(c)
            is_let = isinstance(c, dict) and c.get("k") == "letx"
            for p in cps:
                if p.out != "val":
                    res.append(p)
                    continue
                if is_let or p.val is True or p.val is False:
                    # the condition's own path already fixes its truth (if-let, or a `matches!`-style match with literal bool arms)
                    branches = [(p.val if negs % 2 == 0 else (not p.val))] if (p.val is True or p.val is False) else [True, False]
                    heads = [(b, p) for b in branches]
                else:
                    # leading negations are folded into the truth value: the event never starts with "Not "
                    core, neg = split_not(desc(c))
                    heads = [(True, p.then(P([("branch", core, True != neg, Ref(e))]))), (False, p.then(P([("branch", core, False != neg, Ref(e))])))]
                for truth, h in heads:
                    body = e["t"] if truth else e.get("e")
                    for q in self.paths(body):
                        res.append(P(h.ev + q.ev, q.out, q.val))
            return res
        if k == "match":
            if e.get("src") == "AwaitDesugar":
                inner = thir.peel(e["e"])
                arg = inner["a"][0] if inner.get("k") == "call" and inner.get("a") else e["e"]
                res = []
                for p in self.paths(arg):
                    if p.out != "val":
                        res.append(p)
                    else:
                        res.append(p.then(P([("await", desc(arg))])))
                return res
            if e.get("src") == "ForLoopDesugar":
                # match into_iter(X) { mut iter => loop { match next(&mut iter) { None => break, Some(pat) => body } } }
                inner = thir.peel(e["e"])
                arg = inner["a"][0] if inner.get("k") == "call" and inner.get("a") else e["e"]
                bodies = []
                for m in thir.find(e["arms"][0]["b"], "match"):
                    if m.get("src") == "ForLoopDesugar":
                        for arm in m["arms"]:
                            if "Some" in thir.pattern_variants(arm["p"]):
                                bodies.append(arm["b"])
                        break
                res = []
                for p in self.paths(arg):
                    if p.out != "val":
                        res.append(p)
                        continue
                    iters = set()
                    escapes = []
                    for b in bodies:
                        for q in self.paths(b):
                            if q.out in ("val", "cont"):
                                iters.add(q.ev)
                            elif q.out == "brk":
                                iters.add(q.ev + (("loop-break",),))
                            else:
                                escapes.append(q)
                    res.append(p.then(P([("loop", frozenset(iters), "for " + desc(arg))])))
                    for q in escapes:
                        res.append(p.then(P([("loop", frozenset(iters), "for " + desc(arg))])).then(q))
                return res
            res = []
            sd = desc(e["e"])
            # a two-armed match on one variant and its complement (`match r { Err(e) => A, Ok(..) => B }`, `match o { Some(x) => A, None => B }`,
            # `match v { V(..) => A, _ => B }`) is the same test as `if let V(..) = x { A } else { B }`: it gets the if-let event as well
            twoway = None
            if e.get("src") == "Normal" and len(e["arms"]) == 2 and not any(a.get("g") for a in e["arms"]):
                v0 = thir.pattern_variants(e["arms"][0]["p"])
                v1 = thir.pattern_variants(e["arms"][1]["p"])
                if len(v0) == 1 and v0[0] != "_" and (v1 == ["_"] or (len(v1) == 1 and {v0[0], v1[0]} in ({"Ok", "Err"}, {"Some", "None"}))):
                    twoway = tuple(v0)
            for p in self.paths(e["e"]):
                if p.out != "val":
                    res.append(p)
                    continue
                for i, arm in enumerate(e["arms"]):
                    gl = thir.peel(arm["g"]) if isinstance(arm.get("g"), dict) else None
                    if isinstance(gl, dict) and gl.get("k") == "lit" and gl.get("b") is False:
                        continue  # `if cfg!(other_platform)` guard: the arm cannot be taken
                    pre = [("iflet", sd, twoway, i == 0, Ref(e), "match")] if twoway is not None else []
                    head = p.then(P(pre + [("arm", sd, (thir.pat_str(arm["p"]),), i, Ref(arm))]))
                    ab = thir.peel(arm["b"])
                    lit_bool = ab.get("b") if isinstance(ab, dict) and ab.get("k") == "lit" and "b" in ab else None
                    simple_body = isinstance(ab, dict) and ab.get("k") in ("adt", "call", "var", "upvar", "lit", "field", "tuple", "fn", "const", "bin", "un")
                    for g in self.paths(arm.get("g")):
                        gev = g.ev
                        if isinstance(gl, dict) and g.out == "val" and not (gl.get("k") == "lit"):
                            core, neg = split_not(desc(arm["g"]))
                            gev = gev + (("branch", core, True != neg, Ref(arm)),)      # the arm is entered only with its guard true
                        for q in self.paths(arm["b"]):
                            val = q.val
                            if q.out == "val" and lit_bool is not None:
                                val = lit_bool
                            elif q.out == "val" and val is None and simple_body:
                                val = desc(ab)
                            res.append(P(head.ev + gev + q.ev, q.out, val))
            if len(res) > self.max_paths:
                raise Limit()
            return res
        if k == "loop":
            iters = set()
            res = []
            for q in self.paths(e["e"]):
                if q.out == "brk":
                    res.append(P(q.ev, "val", q.val))
                elif q.out in ("val", "cont"):
                    iters.add(q.ev)
                else:
                    res.append(q)
            if iters and any(iters):
                res = [P((("loop", frozenset(iters), "loop"),) + r.ev, r.out, r.val) for r in res] or [P([("loop", frozenset(iters), "loop")], "div")]
            return res
        if k == "break":
            return [P(p.ev, "brk" if p.out == "val" else p.out, desc(e.get("e")) if e.get("e") is not None else None) for p in self.paths(e.get("e"))]
        if k == "continue":
            return [P((), "cont")]
        if k == "return":
            # `return if c { a } else { b }`: the value returned on a path is the branch that path took
            return [P(p.ev, "ret" if p.out == "val" else p.out, returned_on(p, e.get("e")) if e.get("e") is not None else "()") for p in self.paths(e.get("e"))]
        if k == "yield":
            return self.paths(e.get("e"))
        if k == "let":
            return self.paths(e.get("i"))
        return [P([("unknown", k)])]


def calls_of(path, *suffixes):
    from .facts import strip_generics
    out = []
    for e in path.ev:
        if e[0] == "call":
            d = strip_generics(e[1])
            if not suffixes or any(d.endswith(s) for s in suffixes):
                out.append(e)
    return out


def calls_under(root, descs=None, vals=None):
    """The call nodes evaluated by `root` under assumptions, in evaluation order, plus the branch conditions that stayed undecided.
    descs: {description of a boolean expression: truth}; vals: {description of a scrutinee: enumerated value (thir.V form)}.
    An `if` follows the assumed truth of its condition (negations, && and || folded), `if let` / `match` on an assumed scrutinee follow
    pattern semantics; everything undecided contributes both sides.  Closures are not entered.  Returns (calls, undecided)."""
    descs = descs or {}
    vals = vals or {}
    out, und = [], []

    def truth(c):
        cp = thir.peel(c)
        if not isinstance(cp, dict):
            return None
        if cp.get("k") == "lit" and isinstance(cp.get("b"), bool):
            return cp["b"]
        if cp.get("k") == "un" and cp.get("op") == "Not":
            t = truth(cp["e"])
            return None if t is None else (not t)
        if cp.get("k") == "logic":
            a, b = truth(cp["a"]), truth(cp["b"])
            if cp["op"] == "and":
                if a is False or b is False:
                    return False
                return True if (a and b) else None
            if a is True or b is True:
                return True
            return False if (a is False and b is False) else None
        if cp.get("k") == "letx":
            sd = desc(cp["e"]).lstrip("^")
            if sd in vals:
                r = thir.pat_matches(cp["p"], vals[sd], None)
                return None if r is None else bool(r)
            return None
        me = matches_as_eq(cp)
        core, neg = split_not(me[0] if (me is not None and me[1]) else ("Not " + me[0] if me is not None else desc(cp)))
        core = core.lstrip("^")
        if core in descs:
            return descs[core] != neg
        if cp.get("k") == "match" and cp.get("src") == "Normal":
            sd = desc(cp["e"]).lstrip("^")
            if sd in vals:
                i = thir.first_arm(cp, vals[sd])
                if i is not None:
                    b = thir.peel(cp["arms"][i]["b"])
                    if isinstance(b, dict) and b.get("k") == "lit" and isinstance(b.get("b"), bool):
                        return b["b"]
        return None

    def visit(e):
        if isinstance(e, list):
            for x in e:
                visit(x)
            return
        if not isinstance(e, dict) or is_tracing(e):
            return
        k = e.get("k")
        if k == "closure":
            return
        if k == "if":
            c = e.get("c")
            cp = thir.peel(c)
            visit(cp["e"] if isinstance(cp, dict) and cp.get("k") == "letx" else c)
            t = truth(c)
            if t is None:
                und.append(desc(c))
            if t is not False:
                visit(e.get("t"))
            if t is not True:
                visit(e.get("e"))
            return
        if k == "match" and e.get("src") == "AwaitDesugar":
            inner = thir.peel(e["e"])
            visit(inner["a"][0] if isinstance(inner, dict) and inner.get("k") == "call" and inner.get("a") else e["e"])
            out.append(e)       # the await itself, after the awaited expression was evaluated
            return
        if k == "match" and e.get("src") == "Normal":
            visit(e.get("e"))
            sd = desc(e["e"]).lstrip("^")
            if sd in vals and not any(a.get("g") for a in e["arms"]):
                i = thir.first_arm(e, vals[sd])
                if i is not None:
                    visit(e["arms"][i]["b"])
                    return
            und.append("match " + sd)
            for a in e["arms"]:
                visit(a.get("g"))
                visit(a.get("b"))
            return
        if k == "call":
            visit(e.get("a"))
            f = thir.peel(e.get("fn"))
            if not (isinstance(f, dict) and f.get("k") == "fn"):
                visit(e.get("fn"))
            out.append(e)
            return
        if k == "let":
            visit(e.get("i"))
            visit(e.get("else"))
            return
        for kk, vv in e.items():
            if isinstance(vv, (dict, list)) and kk not in ("p", "fn"):
                visit(vv)
    visit(root)
    return out, und


def _split_top(s):
    """split `(a, f(b, c), d)` at its top-level commas"""
    s = s.strip()
    if not (s.startswith("(") and s.endswith(")")):
        return None
    out, depth, cur = [], 0, ""
    for ch in s[1:-1]:
        if ch in "([{":
            depth += 1
        elif ch in ")]}":
            depth -= 1
        if ch == "," and depth == 0:
            out.append(cur.strip())
            cur = ""
        else:
            cur += ch
    if cur.strip():
        out.append(cur.strip())
    return out


def bool_conds(p):
    """the boolean facts a path has established, as (description, value) pairs: its `branch` events, plus - for a `match` on a bool or on a
    tuple of bools with literal patterns (`match (a, b) { (true, _) => .., (false, true) => .. }`) - what the taken arm says about each
    component. Same information as the if / else-if chain the match replaces."""
    out = []
    for e in p.ev:
        if e[0] == "branch":
            out.append((e[1].replace("^", ""), e[2]))
        elif e[0] == "arm" and len(e[2]) == 1:
            scr, pat = e[1].replace("^", ""), e[2][0]
            if pat in ("true", "false"):
                out.append((scr, pat == "true"))
                continue
            cs, ps = _split_top(scr), _split_top(pat)
            if cs and ps and len(cs) == len(ps):
                for c_, p_ in zip(cs, ps):
                    if p_ in ("true", "false"):
                        out.append((c_, p_ == "true"))
    return out
