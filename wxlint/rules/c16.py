"""C16 - events survive a JSON round trip (finite-structure part: proof level).

Decided: decode(encode(t)) == t for every Tag shape (all tag kinds, all 41 file-event kinds, all
exit dispositions with symbolic payloads, all first-class signals + Custom), by compiler pattern
semantics and constructor evaluation over the THIR of the two `From` impls; kind agreement of the
decoder arms; NonZero guards; Signal <-> SerdeSignal bijection; sorted metadata container.
Not decided: serde / serde_json themselves (derive output is trusted to (de)serialise the Serde*
mirror types field by field).
"""
from .. import thir
from ..terms import Eval, freeze, is_undet, show
from ..report import Skip

TAG = "watchexec_events::event::Tag"
STAG = "watchexec_events::serde_formats::SerdeTag"
PEND = "watchexec_events::process::ProcessEnd"
OPT = "core::option::Option"
SIG = "watchexec_signals::Signal"

ALT_CONFIGS = ["events-sans-notify"]


def some(x):
    return ("v", OPT, "Some", {"0": x})


NONE = ("v", OPT, "None", {})


def mk_rewrite(facts, ctx, debug_ok):
    def rw(t):
        if t[0] != "app":
            return t
        d, args, full = t[1], t[2], t[3] or ""
        from ..facts import strip_generics
        dp = strip_generics(d)
        if dp == "core::hint::must_use" and len(args) == 1:
            return args[0]
        if dp in ("alloc::string::String::as_str", "core::ops::deref::Deref::deref", "core::clone::Clone::clone") and args:
            return args[0]
        if dp == "core::fmt::rt::Argument::new_debug":
            return ("app", "fmt:debug-arg", args, None)
        if dp == "core::fmt::Arguments::new" and len(args) == 2:
            if args[0] == ("bytes", "c000") and args[1][0] == "arr" and len(args[1][1]) == 1 \
                    and args[1][1][0][0] == "app" and args[1][1][0][1] == "fmt:debug-arg":
                return ("app", "fmt:debug-only", args[1][1][0][2], None)
            return ("undet", "format string with literal text or several arguments")
        if dp == "alloc::fmt::format" and len(args) == 1 and args[0][0] == "app" and args[0][1] == "fmt:debug-only":
            x = args[0][2][0]
            if x[0] == "v":
                if not debug_ok(x):
                    return ("undet", "Debug impl of %s is not derived" % x[1])
                return ("s", thir.debug_render(x))
            return ("app", "fmt:debug", [x], None)
        if dp == "core::default::Default::default" and not args:
            if full.startswith("<core::option::Option<"):
                return NONE
            # <T as Default>::default for a local type: evaluate its (derived) body
            tname = full[1:full.index(" as ")] if full.startswith("<") and " as " in full else None
            if tname:
                return ("app", "default-of", [("s", tname)], None)
        if dp == "core::num::nonzero::NonZero::get" and len(args) == 1:
            a = args[0]
            if a[0] == "app" and a[1] == "nz_new":
                return a[2][0]
            return ("app", "nz_get", [a], None)
        if dp == "core::num::nonzero::NonZero::new_unchecked" and len(args) == 1:
            a = args[0]
            if a[0] == "app" and a[1] == "nz_get":
                return a[2][0]
            return ("app", "nz_new", [a], None)
        if dp in ("core::convert::Into::into", "core::convert::From::from") and len(args) == 1:
            if full.startswith("<i32 as core::convert::Into<i64>>") or full.startswith("<i64 as core::convert::From<i32>>"):
                return ("app", "widen32", args, None)
            return ("app", "into", args, full)
        if dp in ("core::convert::TryInto::try_into", "core::convert::TryFrom::try_from") and len(args) == 1:
            narrowing = full.startswith("<i64 as core::convert::TryInto<i32>>") or full.startswith("<i32 as core::convert::TryFrom<i64>>")
            if narrowing:
                a = args[0]
                if a[0] == "app" and a[1] == "widen32":
                    return ("v", "core::result::Result", "Ok", {"0": a[2][0]})
                return ("app", "narrow32", args, None)
        if dp == "core::result::Result::unwrap" and len(args) == 1 and args[0][0] == "v" and args[0][2] == "Ok":
            return args[0][3]["0"]
        if dp == "core::result::Result::is_ok" and len(args) == 1 and args[0][0] == "v":
            return ("b", args[0][2] == "Ok")
        if d == "bin:Ne" and len(args) == 2:
            a, b = args
            if a[0] == "app" and a[1] in ("nz_get",) and b == ("i", 0):
                return ("b", True)   # NonZero::get() != 0 by the type's invariant
            if a[0] == "app" and a[1] == "widen32" and a[2][0][0] == "app" and a[2][0][1] == "nz_get" and b == ("i", 0):
                return ("b", True)
        if d == "logic:and" and len(args) == 2:
            if args[0] == ("b", False) or args[1] == ("b", False):
                return ("b", False)
            if args[0] == ("b", True) and args[1] == ("b", True):
                return ("b", True)
        return t
    return rw


def signal_json_names(ctx, rule):
    """the JSON spelling of each named signal (derived Serialize of NamedSignal) is its SIG-prefixed name (shared with C19)"""
    facts = ctx.facts
    ty = "watchexec_signals::serde_support::NamedSignal"
    signames = {"Hangup": "SIGHUP", "ForceStop": "SIGKILL", "Interrupt": "SIGINT", "Quit": "SIGQUIT", "Terminate": "SIGTERM", "User1": "SIGUSR1", "User2": "SIGUSR2"}
    cands = facts.trait_methods(ty, "::Serialize", "serialize")
    adt = facts.find_adt(ty)
    if len(cands) != 1 or adt is None:
        ctx.violation(rule, "floor:anchor:serialize:NamedSignal", "derived Serialize for %s not found" % ty)
        return
    f = cands[0]
    ctx.saw_fn(f)
    emitted = {}
    for _, t in f.calls():
        if t.callee.is_("serde::ser::Serializer::serialize_unit_variant") and len(t.args) >= 4:
            emitted[t.args[2].const_int()] = t.args[3].const_str()
    ctx.floor(rule, "named signals with a JSON spelling", len(adt["variants"]), 7)
    for v in adt["variants"]:
        want = signames.get(v["name"])
        got = emitted.get(v["idx"])
        ctx.require(got == want, rule, "json-name:" + v["name"], "Signal::%s is written to JSON as %r, the name its display form and parser use" % (v["name"], want), f.loc(f.line),
                    fail="Signal::%s is written to JSON as %r but displays / parses as %r" % (v["name"], got, want))


def simple_kind_table(ctx, rule, facts=None, sfx=""):
    """FsEventKind::from(EventKind) - the documented `simple` value - for every filesystem event kind: access / create / modify / remove by the outer kind, other for Any and Other"""
    facts = facts or ctx.facts
    conv = ctx.anchor_one(rule, "<FsEventKind as From<EventKind>>::from" + sfx,
                          [x for x in facts.fns_matching(r"From<.*EventKind> for watchexec_events::serde_formats::FsEventKind>::from$|FsEventKind as core::convert::From<.*EventKind>>::from$")])
    cm = [m for m in thir.find(thir.root(conv), "match") if m["src"] == "Normal" and "EventKind" in m["sty"]]
    if len(cm) != 1 or thir.peel(thir.root(conv)) is not cm[0]:
        ctx.incomplete(rule, "simple-kind-table" + sfx, "FsEventKind::from(EventKind) is no longer a single match over the kind: the `simple` value of each kind cannot be read off", conv.loc(conv.line))
        return
    fek = cm[0]["sty"].lstrip("&")
    n = 0
    for v in thir.enum_values(facts, fek, depth=4):
        name = thir.debug_render(v)
        outer = name.split("(")[0]
        want = outer if outer in ("Access", "Create", "Modify", "Remove") else "Other"
        j = thir.first_arm(cm[0], v)
        got = thir.expr_value(cm[0]["arms"][j]["b"]) if j is not None else None
        got = got[2] if got and got[0] == "v" else None
        n += 1
        ctx.require(got == want, rule, "simple-kind:%s%s" % (name, sfx), "the simple kind of %s is %s" % (name, want.lower()), conv.loc(conv.line),
                    fail="the JSON `simple` value of %s is %r, documented %r" % (name, (got or "?").lower(), want.lower()))
    ctx.floor(rule, "kinds with a simple value" + sfx, n, 41)


def run(ctx):
    for cfgname, facts in [("default", ctx.facts)] + sorted(ctx.alt_facts.items()):
        run_one(ctx, facts, cfgname)
    # the JSON events file the CLI writes holds one complete document per line (rule owned by C17): what is read back is what was serialised
    try:
        from . import c17 as _c17j
        _c17j.json_lines(ctx, "R16.6")
    except Skip:
        pass
    # ... and the file starts empty for every batch (rule owned by C17): no tail of an earlier, longer batch is parsed back with it
    ctx.borrow("C17", ["R17.6"], "R16.6", "each batch is written to a freshly created file")


def run_one(ctx, facts, cfgname):
    sfx = "" if cfgname == "default" else "@" + cfgname
    ctx.level = "proof"
    ctx.exhaustive = True
    ctx.undecided = ("serde's derive output and serde_json (string/number fidelity, untagged-enum dispatch) are trusted; "
                     "arbitrary UTF-8 paths, pids and metadata maps are opaque payloads that the two conversions only move.")
    ctx.trusted_base = ["rustc THIR pattern trees", "#[derive(Debug)] prints Variant / Variant(field, ..) for unit and tuple variants",
                        "serde derive + serde_json for the Serde* mirror types", "NonZero invariant (get() != 0)"]
    ctx.rule("R16.1", "for every value v of FileEventKind (all nested kinds, enumerated from the compiled enums) the decoder's "
                      "string table maps the derived-Debug rendering of v back to v; the encoder writes exactly that rendering "
                      "({:?} only, no literal text); every involved Debug impl is #[automatically_derived]")
    ctx.rule("R16.2", "decode(encode(t)) == t for every Tag shape: each tag kind, each exit disposition (symbolic payloads), "
                      "missing optional parts; and every decoder arm that tests kind K builds a Tag variant whose encoding has kind K; "
                      "the fall-through arm is Tag::Unknown")
    ctx.rule("R16.4", "every NonZero::new_unchecked(x) in the decoder is in an arm guarded by x != 0 (and i32::try_from(x).is_ok() "
                      "when narrowing to NonZeroI32)")
    ctx.rule("R16.5", "Signal -> SerdeSignal -> Signal is the identity on the seven first-class signals and on Custom(n)")
    ctx.rule("R16.8", "tolerant readers: the derived deserialisers of the mirror structs (SerdeTag, SerdeEvent) keep serde's default of ignoring fields they do "
                      "not know (their field enum has the `__ignore` case and nothing calls unknown_field), so an object of a known kind with extra or "
                      "unexpected fields still parses - to that kind or to Tag::Unknown - instead of failing the whole event")
    ctx.rule("R16.7", "stable names: the `simple` value of every filesystem event kind is its outer kind (other for Any / Other); the derived Serialize impls of the tag-kind / disposition / simple-kind / signal-name enums emit the kebab-case "
                      "(or documented SIG*) name of each variant, and SerdeTag / SerdeEvent serialise their fields under the field names")
    ctx.rule("R16.6", "event metadata is serialised through a BTreeMap (sorted keys); Tag and Event (de)serialise through their "
                      "Serde* mirror types via From/Into")
    ctx.also("R16.6", "the CLI's JSON events file holds one complete serialisation per line, a serialisation failure ends the emission (shared with R17.8)")

    def fn1(rule, name, regex):
        return ctx.anchor_one(rule, name + sfx, facts.fns_matching(regex))

    fek_path = None
    tag = facts.find_adt(TAG)
    if tag is None:
        ctx.violation("R16.2", "floor:anchor:Tag" + sfx, "Tag enum not found")
        return
    for v in tag["variants"]:
        if v["name"] == "FileEventKind":
            fek_path = v["fields"][0]["adt"]
    if fek_path is None:
        ctx.violation("R16.1", "floor:anchor:FileEventKind" + sfx, "Tag::FileEventKind payload type not found")
        return
    fek_values = thir.enum_values(facts, fek_path, depth=4)
    ctx.floor("R16.1", "FileEventKind values" + sfx, len(fek_values), 41)

    # every enum reachable from FileEventKind must have a derived Debug
    seen = set()

    def enums_of(val):
        if val[0] == "v":
            seen.add(val[1])
            for x in val[3].values():
                enums_of(x)
    for v in fek_values:
        enums_of(v)
    derived = {}
    for e in sorted(seen):
        d = facts.derived(e, "Debug")
        derived[e] = d
        ctx.require(d is True, "R16.1", "debug-derived:" + e.split("::")[-1] + sfx,
                    "Debug for %s is #[automatically_derived]" % e,
                    fail="Debug for %s is %s: the kind-name table can no longer be derived from the enum definition"
                         % (e, "hand-written" if d is False else "missing"))

    def debug_ok(val):
        if val[0] != "v":
            return False
        if derived.get(val[1]) is not True:
            return False
        return all(debug_ok(x) for x in val[3].values())

    rw = mk_rewrite(facts, ctx, debug_ok)
    default_cache = {}

    def default_of(tname):
        if tname in default_cache:
            return default_cache[tname]
        cands = facts.trait_methods(tname, "core::default::Default", "default")
        if len(cands) != 1:
            default_cache[tname] = ("undet", "no unique Default impl for " + tname)
            return default_cache[tname]
        ctx.saw_fn(cands[0])
        v = ev.ev(thir.root(cands[0]), {})
        v = resolve_defaults(v)
        default_cache[tname] = v
        return v

    def resolve_defaults(t):
        if not isinstance(t, tuple) or not t:
            return t
        if t[0] == "app" and t[1] == "default-of":
            return default_of(t[2][0][1])
        if t[0] == "v":
            return ("v", t[1], t[2], {k: resolve_defaults(x) for k, x in t[3].items()})
        if t[0] == "app":
            return ("app", t[1], [resolve_defaults(x) for x in t[2]], t[3])
        return t

    def defaults(adt):
        v = default_of(adt)
        if v[0] == "v":
            return v[3]
        return None

    ev = Eval(defaults=lambda adt: (defaults(adt)), rewrite=rw)

    try:
        enc = ctx.anchor_one("R16.2", "<SerdeTag as From<Tag>>::from" + sfx, facts.trait_methods(STAG, "From<" + TAG + ">", "from"))
        dec = ctx.anchor_one("R16.2", "<Tag as From<SerdeTag>>::from" + sfx, facts.trait_methods(TAG, "From<" + STAG + ">", "from"))
    except Skip:
        return
    enc_root, dec_root = thir.root(enc), thir.root(dec)
    enc_param = enc.thir["params"][0]["pat"]["n"]
    dec_param = dec.thir["params"][0]["pat"]["n"]

    # ---- cases
    cases = []
    pend = facts.find_adt(PEND)
    for v in tag["variants"]:
        name = v["name"]
        if name == "FileEventKind":
            for fv in fek_values:
                cases.append(("FileEventKind:" + thir.debug_render(fv), ("v", TAG, name, {"0": fv})))
        elif name == "ProcessCompletion":
            cases.append(("ProcessCompletion:None", ("v", TAG, name, {"0": NONE})))
            for pv in pend["variants"]:
                fields = {f["name"]: ("sym", "%s.%s:%s" % (pv["name"], f["name"], f["ty"])) for f in pv["fields"]}
                cases.append(("ProcessCompletion:" + pv["name"], ("v", TAG, name, {"0": some(("v", PEND, pv["name"], fields))})))
        else:
            fields = {f["name"]: ("sym", "%s.%s" % (name, f["name"])) for f in v["fields"]}
            cases.append((name, ("v", TAG, name, fields)))
    ctx.floor("R16.2", "tag shapes enumerated" + sfx, len(cases), 54)

    kinds_of = {}
    encoded = []
    for cname, t in cases:
        loc = enc.loc(enc.line)
        e = resolve_defaults(ev.ev(enc_root, {enc_param: t}))
        if not is_undet(e) and e[0] == "v" and e[1] == STAG:
            encoded.append((cname, e))
        if is_undet(e) or e[0] != "v" or e[1] != STAG:
            ctx.incomplete("R16.2", "encode:" + cname + sfx, "cannot evaluate the encoder for this shape: " + show(e), loc)
            continue
        k = e[3].get("kind")
        kinds_of.setdefault(t[2], set()).add(k[2] if k and k[0] == "v" else "?")
        d = ev.ev(dec_root, {dec_param: e})
        d = resolve_defaults(d)
        if is_undet(d):
            ctx.incomplete("R16.2", "decode:" + cname + sfx, "cannot evaluate the decoder on %s: %s" % (show(e), show(d)), dec.loc(dec.line))
            continue
        rule = "R16.1" if cname.startswith("FileEventKind:") else "R16.2"
        ctx.require(freeze(d) == freeze(t), rule, "roundtrip:" + cname + sfx,
                    "decode(encode(%s)) == %s" % (cname, cname), dec.loc(dec.line),
                    fail="decode(encode(%s)) = %s, expected %s (encoded as %s)" % (cname, show(d), show(t), show(e)))

    # ---- contradictory / incomplete tag objects: whatever such an object decodes to other than Tag::Unknown must not contradict or drop a part
    # that is present in it.  Enumerated: every well-formed object with one present optional part removed (file-system kinds excepted: their
    # `full` / `simple` strings are two renderings of one value).
    ctx.also("R16.2", "an incomplete tag object (a well-formed one with one present part removed) decodes to Tag::Unknown or to a tag whose own encoding "
                      "still carries every part that is present - a present disposition / code / signal / pid / path is never silently dropped")
    well = {freeze(e) for _, e in encoded}
    n_mal = 0
    for cname, e in encoded:
        if cname.startswith("FileEventKind:"):
            continue
        for fld, fv in sorted(e[3].items()):
            if fld in ("kind", "disposition") or not (isinstance(fv, tuple) and fv[0] == "v" and fv[1] == OPT and fv[2] == "Some"):
                continue        # an absent disposition is itself a documented shape (`completion` of unknown disposition): only payload parts are removed
            m = (e[0], e[1], e[2], dict(e[3], **{fld: NONE}))
            if freeze(m) in well:
                continue
            n_mal += 1
            key = "incomplete:%s-without-%s%s" % (cname, fld, sfx)
            d = resolve_defaults(ev.ev(dec_root, {dec_param: m}))
            if is_undet(d):
                ctx.incomplete("R16.2", key, "cannot evaluate the decoder on %s: %s" % (show(m), show(d)), dec.loc(dec.line))
                continue
            if d[0] == "v" and d[1] == TAG and d[2] == "Unknown":
                ctx.ok("R16.2", key, "%s with `%s` missing decodes to Tag::Unknown" % (cname, fld), dec.loc(dec.line))
                continue
            e2 = resolve_defaults(ev.ev(enc_root, {enc_param: d}))
            if is_undet(e2) or e2[0] != "v":
                ctx.incomplete("R16.2", key, "cannot re-encode %s" % show(d), enc.loc(enc.line))
                continue
            dropped = sorted(f for f, v in m[3].items() if isinstance(v, tuple) and v[0] == "v" and v[1] == OPT and v[2] == "Some" and freeze(e2[3].get(f)) != freeze(v))
            ctx.require(not dropped, "R16.2", key, "%s with `%s` missing decodes to %s, which keeps every present part" % (cname, fld, show(d)), dec.loc(dec.line),
                        fail="a `%s` tag object whose `%s` is missing decodes to %s, silently dropping / contradicting its %s instead of yielding Tag::Unknown"
                             % (cname, fld, show(d), "/".join(dropped)))
    ctx.floor("R16.2", "incomplete tag objects enumerated" + sfx, n_mal, 5)

    # ---- kind agreement of decoder arms + fall-through
    dm = [m for m in thir.find(dec_root, "match") if "SerdeTag" in m["sty"]]
    if len(dm) != 1:
        ctx.violation("R16.2", "floor:shape:decoder" + sfx, "decoder is no longer one match over SerdeTag", dec.loc(dec.line))
    else:
        dm = dm[0]
        arms = dm["arms"]
        ctx.floor("R16.2", "decoder arms" + sfx, len(arms), 15)
        last = arms[-1]
        lv = thir.expr_value(last["b"])
        ctx.require(thir.pattern_variants(last["p"]) == ["_"] and lv[0] == "v" and lv[2] == "Unknown", "R16.2", "fallthrough-unknown" + sfx,
                    "the last decoder arm is `_ => Tag::Unknown`", dec.loc(last["l"]),
                    fail="a tag object that matches no known shape no longer decodes to Tag::Unknown")
        for i, arm in enumerate(arms[:-1]):
            p = arm["p"]
            kind = None
            if p["k"] == "leaf":
                for n, sp in p["sub"]:
                    if n == "kind":
                        vs = thir.pattern_variants(sp)
                        kind = vs[0] if len(vs) == 1 else None
            built = None
            for n in thir.walk(arm["b"]):
                if n.get("k") == "adt" and n.get("adt") == TAG:
                    built = n["v"]
                    break
                if n.get("k") == "fn" and n["def"].startswith(TAG + "::"):
                    built = n["def"].split("::")[-1]
                    break
            key = "arm-kind:%s->%s#%d%s" % (kind, built, i, sfx)
            if kind is None or built is None:
                ctx.incomplete("R16.2", key, "decoder arm does not test `kind` or does not build a Tag", dec.loc(arm["l"]))
                continue
            ctx.require(kind in kinds_of.get(built, set()), "R16.2", key,
                        "arm for kind %s builds Tag::%s, which encodes with that kind" % (kind, built), dec.loc(arm["l"]),
                        fail="a tag object of kind `%s` can decode to Tag::%s, which is a different kind (%s)"
                             % (kind, built, sorted(kinds_of.get(built, []))))

        # ---- R16.4 guards
        n_unchecked = 0
        for i, arm in enumerate(arms):
            for cdef, cn in thir.calls_in(arm["b"]):
                if "NonZero" in cdef and cdef.endswith("new_unchecked"):
                    n_unchecked += 1
                    full = thir.peel(cn["fn"]).get("full", "")
                    varnames = {n["n"] for n in thir.walk(cn["a"][0]) if n.get("k") == "var"}
                    g = arm.get("g")
                    has_ne = False
                    has_fit = False
                    if g is not None:
                        for n in thir.walk(g):
                            if n.get("k") == "bin" and n.get("op") == "Ne":
                                a, b = thir.peel(n["a"]), thir.peel(n["b"])
                                if a.get("k") == "var" and a["n"] in varnames and b.get("k") == "lit" and b.get("i") == 0:
                                    has_ne = True
                        for cd, c2 in thir.calls_in(g):
                            if cd.endswith("TryFrom::try_from") and "i32" in thir.peel(c2["fn"]).get("full", ""):
                                if {n["n"] for n in thir.walk(c2["a"][0]) if n.get("k") == "var"} & varnames:
                                    has_fit = True
                    need_fit = "<i32>" in full
                    ctx.require(has_ne and (has_fit or not need_fit), "R16.4", "nonzero-guard#%d%s" % (i, sfx),
                                "new_unchecked(%s) is guarded by != 0%s" % ("/".join(sorted(varnames)), " and fits-i32" if need_fit else ""),
                                dec.loc(arm["l"]),
                                fail="NonZero::new_unchecked is reachable with a zero or out-of-range code: undefined behaviour on "
                                     "contradictory input instead of Tag::Unknown")
        ctx.floor("R16.4", "new_unchecked sites" + sfx, n_unchecked, 3)

    # ---- R16.5 Signal <-> SerdeSignal
    if cfgname == "default":
        try:
            SS = "watchexec_signals::serde_support::SerdeSignal"
            s_enc = ctx.anchor_one("R16.5", "<SerdeSignal as From<Signal>>::from", facts.trait_methods(SS, "From<" + SIG + ">", "from"))
            s_dec = ctx.anchor_one("R16.5", "<Signal as From<SerdeSignal>>::from", facts.trait_methods(SIG, "From<" + SS + ">", "from"))
            sadt = facts.find_adt(SIG)
            ev2 = Eval(rewrite=rw)
            for v in sadt["variants"]:
                fields = {f["name"]: ("sym", "n") for f in v["fields"]}
                t = ("v", SIG, v["name"], fields)
                e = ev2.ev(thir.root(s_enc), {s_enc.thir["params"][0]["pat"]["n"]: t})
                d = ev2.ev(thir.root(s_dec), {s_dec.thir["params"][0]["pat"]["n"]: e})
                if is_undet(e) or is_undet(d):
                    ctx.incomplete("R16.5", "signal:" + v["name"], "cannot evaluate: %s / %s" % (show(e), show(d)), s_enc.loc(s_enc.line))
                    continue
                ctx.require(freeze(d) == freeze(t), "R16.5", "signal:" + v["name"],
                            "Signal::%s survives SerdeSignal (%s)" % (v["name"], show(e)), s_dec.loc(s_dec.line),
                            fail="Signal::%s -> %s -> %s" % (v["name"], show(e), show(d)))
        except Skip:
            pass

    # ---- R16.7 names emitted by the derived Serialize impls
    import re as _re

    def kebab(nm):
        return _re.sub(r"(?<!^)(?=[A-Z])", "-", nm).lower()
    name_tables = [("watchexec_events::serde_formats::TagKind", kebab), ("watchexec_events::serde_formats::ProcessDisposition", kebab),
                   ("watchexec_events::serde_formats::FsEventKind", kebab)]
    if cfgname == "default":
        signames = {"Hangup": "SIGHUP", "ForceStop": "SIGKILL", "Interrupt": "SIGINT", "Quit": "SIGQUIT", "Terminate": "SIGTERM", "User1": "SIGUSR1", "User2": "SIGUSR2"}
        name_tables.append(("watchexec_signals::serde_support::NamedSignal", lambda v: signames.get(v)))
    for ty, namer in name_tables:
        cands = facts.trait_methods(ty, "::Serialize", "serialize")
        adt = facts.find_adt(ty)
        if len(cands) != 1 or adt is None:
            ctx.violation("R16.7", "floor:anchor:serialize:%s%s" % (ty.split("::")[-1], sfx), "derived Serialize for %s not found" % ty)
            continue
        f = cands[0]
        ctx.saw_fn(f)
        emitted = {}
        for _, t in f.calls():
            if t.callee.is_("serde::ser::Serializer::serialize_unit_variant") and len(t.args) >= 4:
                idx, nm = t.args[2].const_int(), t.args[3].const_str()
                emitted[idx] = nm
        for v in adt["variants"]:
            want = namer(v["name"])
            got = emitted.get(v["idx"])
            ctx.require(got == want, "R16.7", "name:%s::%s%s" % (ty.split("::")[-1], v["name"], sfx),
                        "%s::%s is serialised as %r" % (ty.split("::")[-1], v["name"], want), f.loc(f.line),
                        fail="%s::%s is serialised as %r, documented %r: the JSON format changed" % (ty.split("::")[-1], v["name"], got, want))
    try:
        simple_kind_table(ctx, "R16.7", facts, sfx)
    except Skip:
        pass
    for ty in ("watchexec_events::serde_formats::SerdeTag", "watchexec_events::serde_formats::SerdeEvent"):
        cands = facts.trait_methods(ty, "::Serialize", "serialize")
        adt = facts.find_adt(ty)
        if len(cands) != 1 or adt is None:
            ctx.violation("R16.7", "floor:anchor:serialize:%s%s" % (ty.split("::")[-1], sfx), "derived Serialize for %s not found" % ty)
            continue
        f = cands[0]
        ctx.saw_fn(f)
        keys = set()
        for _, t in f.calls():
            if t.callee.is_("serde::ser::SerializeStruct::serialize_field") and len(t.args) >= 2 and t.args[1].const_str() is not None:
                keys.add(t.args[1].const_str())
        want = {fl["name"] for fl in adt["variants"][0]["fields"]}
        ctx.require(keys == want, "R16.7", "fields:%s%s" % (ty.split("::")[-1], sfx), "%s is serialised with keys %s" % (ty.split("::")[-1], sorted(want)), f.loc(f.line),
                    detail=str(sorted(keys)), fail="%s is serialised with keys %s, expected the field names %s" % (ty.split("::")[-1], sorted(keys), sorted(want)))

    # ---- R16.6 containers and mirror types
    se = facts.find_adt("watchexec_events::serde_formats::SerdeEvent")
    if se is None:
        ctx.violation("R16.6", "floor:anchor:SerdeEvent" + sfx, "SerdeEvent not found")
    else:
        md = [f for f in se["variants"][0]["fields"] if f["name"] == "metadata"]
        ctx.require(bool(md) and md[0]["ty"].startswith("alloc::collections::btree::map::BTreeMap<"), "R16.6", "metadata-btreemap" + sfx,
                    "SerdeEvent.metadata is a BTreeMap", fail="metadata is no longer serialised from a sorted map: key order becomes unstable")
    # Event <-> SerdeEvent only move the tag list and re-collect the metadata map: nothing is reordered, dropped or rewritten
    EV, SEV = "watchexec_events::event::Event", "watchexec_events::serde_formats::SerdeEvent"
    for src, dst in ((EV, SEV), (SEV, EV)):
        cands = facts.trait_methods(dst, "From<" + src + ">", "from")
        if len(cands) != 1:
            ctx.violation("R16.6", "floor:anchor:%s-from-%s%s" % (dst.split("::")[-1], src.split("::")[-1], sfx), "conversion not found")
            continue
        f = cands[0]
        ctx.saw_fn(f)
        v = thir.expr_value(thir.root(f))
        ok = v[0] == "v" and set(v[3]) == {"tags", "metadata"} and v[3]["tags"] == ("var", "tags")
        md = v[3].get("metadata") if v[0] == "v" else None
        okm = bool(md) and md[0] == "call" and md[1].endswith("Iterator::collect") and len(md[2]) == 1 and md[2][0][0] == "call" \
            and md[2][0][1].endswith("IntoIterator::into_iter") and md[2][0][2] == [("var", "metadata")]
        body = thir.root(f)
        plain = isinstance(body, dict) and body.get("k") == "block" and not body.get("s")
        ctx.require(ok and okm and plain, "R16.6", "event-mirror-moves:%s->%s%s" % (src.split("::")[-1], dst.split("::")[-1], sfx),
                    "%s -> %s moves the tags and re-collects the metadata map unchanged" % (src.split("::")[-1], dst.split("::")[-1]), f.loc(f.line),
                    detail=str(v)[:300],
                    fail="the %s -> %s conversion rewrites tags or metadata (sorting, filtering, mapping): an event does not survive the round trip unchanged"
                         % (src.split("::")[-1], dst.split("::")[-1]))
    for ty, mirror in (("watchexec_events::event::Tag", "SerdeTag"), ("watchexec_events::event::Event", "SerdeEvent")):
        for tr, meth, direction in (("Serialize", "serialize", "into"), ("Deserialize", "deserialize", "from")):
            cands = facts.trait_methods(ty, "::" + tr, meth)
            if len(cands) != 1:
                ctx.violation("R16.6", "floor:anchor:%s:%s%s" % (ty.split("::")[-1], direction, sfx),
                              "derived serde impl not found for %s (%d candidates)" % (ty, len(cands)))
                continue
            f = cands[0]
            ctx.saw_fn(f)
            via = [t for _, t in f.calls() if mirror in (t.callee.full or "") and
                   (t.callee.is_("core::convert::Into::into", "core::convert::From::from"))]
            for _, t in f.calls():
                for a in t.args:
                    c = a.const_fn()
                    if c is not None and mirror in (c.full or "") and c.is_("core::convert::Into::into", "core::convert::From::from"):
                        via.append(t)
            ctx.require(bool(via), "R16.6", "mirror:%s:%s%s" % (ty.split("::")[-1], direction, sfx),
                        "%s %ss through %s" % (ty.split("::")[-1], "serialise" if direction == "into" else "deserialise", mirror),
                        f.loc(f.line), fail="%s no longer goes through %s" % (ty, mirror))

    # ---- R16.8 tolerant readers
    try:
        for st in ("SerdeTag", "SerdeEvent"):
            fe = [a for k, a in ctx.facts.adts.items() if k.endswith("for watchexec_events::serde_formats::%s>::deserialize::__Field" % st)]
            ok8 = len(fe) == 1 and "__ignore" in [v["name"] for v in fe[0]["variants"]]
            uk = [f.def_ for f in ctx.facts.fns_matching(r"serde_formats::%s>::deserialize::" % st) for _, t in f.calls() if "unknown_field" in (t.callee.path or "")]
            # what the writer may leave out the reader must not require: names handed to skip_field in the derived Serialize vs names handed to
            # missing_field in the derived Deserialize
            skipped = sorted({t.args[-1].const_str() for f in ctx.facts.fns_matching(r"serde_formats::%s>::serialize$" % st) for _, t in f.calls()
                              if (t.callee.def_ or "").endswith("skip_field") and t.args and t.args[-1].const_str()})
            required = sorted({t.args[-1].const_str() for f in ctx.facts.fns_matching(r"serde_formats::%s>::deserialize::" % st) for _, t in f.calls()
                               if (t.callee.def_ or "").split("::<")[0].endswith("missing_field") and t.args and t.args[-1].const_str()})
            ctx.floor("R16.8", "fields %s may omit when writing" % st, len(skipped), 2)
            both = sorted(set(skipped) & set(required))
            ctx.require(not both, "R16.8", "omitted-fields-default:" + st, "every field %s's writer may omit (%s) is optional for its reader" % (st, ", ".join(skipped)), detail="required: %s" % required,
                        fail="%s omits `%s` when writing (skip_serializing_if) but requires it when reading: an event whose %s is empty serialises to a document that does not parse back" % (st, "/".join(both), "/".join(both)))
            ctx.require(ok8 and not uk, "R16.8", "ignores-unknown-fields:" + st, "%s's deserialiser ignores unknown fields" % st, detail="%s %s" % ([v["name"] for v in fe[0]["variants"]][-2:] if fe else None, uk[:1]),
                        fail="%s rejects objects with unknown fields (deny_unknown_fields): one unexpected field in one tag makes the whole event fail to parse instead of yielding that tag or Tag::Unknown" % st)
    except Skip:
        pass
