"""C04 - a job never has two live processes at once."""
from .. import jobtask, jobrules
from ..report import Skip


def run(ctx):
    ctx.level = "other"
    ctx.undecided = ("what process-wrap / the kernel do on kill() and wait(); concurrent senders matter only through the single consumer "
                     "(R10.5); real-time interleavings of the child's own exit are covered because every handler path is analysed from every "
                     "CommandState class.")
    ctx.rule("R04.1", "TokioCommandWrap::spawn is called, and CommandState::Running constructed, only inside CommandState::spawn")
    ctx.rule("R04.2", "CommandState::spawn returns Ok(false) without spawning or writing when the state is Running; otherwise it spawns before storing Running")
    ctx.rule("R04.3", "typestate of the single command_state along every handler path: reset() and plain overwrites happen only when the state "
                      "excludes Running, or (Finished) after kill().await and wait().await both succeeded with wait()'s status; "
                      "CommandState::wait yields Ok(true) exactly when it stored Finished")
    ctx.rule("R04.4", "previous_run only ever receives reset()'s return value, and reset() builds only Pending/Finished")
    ctx.rule("R04.6", "one job per Id in the library: the action worker's job map loses an entry only when that job is dead (or on a graceful quit), so "
                      "get_or_create_job(id) cannot create a second job - and a second process - next to a live one (shared with C05 R05.8)")
    ctx.also("R04.6", "get_or_create_job creates a job only when the Id has none in the handler's snapshot, which Handler only reads")
    ctx.rule("R04.5", "every path of Command::to_spawnable applies KillOnDrop; CommandState is not Clone outside tests")
    for fn in (jobrules.single_creator, jobrules.spawn_guard, jobrules.wait_summary, jobrules.kill_on_drop):
        try:
            fn(ctx)
        except Skip:
            pass
    try:
        B = jobtask.Bodies(ctx, "R04.3")
        jobrules.typestate(ctx, B)
        jobrules.previous_run_safe(ctx, B)
    except Skip:
        pass
    try:
        from . import c05 as _c05
        _c05.job_retention(ctx, "R04.6")
    except Skip:
        pass
    # "dead" must mean dead: the worker drops a job from its map on is_dead(), so a handler that raised the job-gone flag of a living job would
    # let get_or_create_job start a second job - and a second process - for the same Id
    try:
        jobrules.flag_identity(ctx, jobtask.Bodies(ctx, "R04.6"), "R04.6")
    except Skip:
        pass
