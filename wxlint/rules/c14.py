"""C14 - ignore-file discovery finds exactly the applicable files and prunes ignored dirs."""
import re

from .. import thir, pathx
from ..cfg import CFG, call_sites
from ..facts import strip_generics
from ..origin import origins, VALUE_CALLS
from ..report import Skip
from ..throttle import implies

D = "ignore_files::discover"


def interesting(d):
    p = strip_generics(d)
    return not any(p.startswith(x) for x in ("core::clone::Clone::clone", "core::convert::", "core::ops::deref", "core::fmt", "tracing",
                                             "core::pin", "core::future"))


def body_of(ctx, rule, path):
    f = ctx.anchor_fn(rule, path)
    cs = [f] + [c for c in ctx.facts.descendants(f) if c.kind == "coroutine"]
    b = max(cs, key=lambda c: len(c.blocks))
    ctx.saw_fn(b)
    return b


def paths_of(fn):
    root = thir.root(fn)
    pathx.SUBST = pathx.let_substitutions(root)
    try:
        return pathx.Enum(interesting=interesting).paths(root)
    finally:
        pathx.SUBST = {}


def callnames(evs):
    return [(strip_generics(e[1]).split("::")[-2] + "::" + strip_generics(e[1]).split("::")[-1], [pathx.desc(a) for a in e[2]["a"]]) for e in evs if e[0] == "call"]


def env_table(ctx, rule):
    """from_environment: global files never carry an applies_in; a file located through git's own configuration
    (the gix_config section) or a bazaar location is tagged with that VCS, the application's own file with none"""
    facts = ctx.facts
    fe = body_of(ctx, rule, D + "::from_environment")
    root = thir.root(fe)
    top = None
    for blk in thir.find(root, "block"):
        if len(blk.get("s", [])) >= 4:
            top = blk
            break
    if top is None:
        ctx.violation(rule, "floor:env-body", "from_environment's body block not found", fe.loc(fe.line))
        return
    n = 0
    kinds = {}
    for st in list(top.get("s", [])) + ([top["e"]] if top.get("e") is not None else []):
        if not isinstance(st, dict):
            continue
        calls = thir.calls_in(st)
        gix = any(strip_generics(c).startswith("gix_config::") for c, _ in calls)
        lits = " ".join(str(x["s"]) for x in thir.walk(st) if isinstance(x, dict) and x.get("k") == "lit" and "s" in x)
        # candidates collected in a vector first: the literals pushed into the vector the enclosing `for` iterates
        for m in thir.find(st, "match"):
            if m.get("src") == "ForLoopDesugar":
                inner = thir.peel(m["e"])
                if inner.get("k") == "call" and inner.get("a"):
                    vec = pathx.desc(inner["a"][0])
                    for c2, n2 in thir.calls_in(root):
                        if strip_generics(c2).endswith("Vec::push") and pathx.desc(n2["a"][0]) == vec:
                            lits += " " + " ".join(str(x["s"]) for x in thir.walk(n2) if isinstance(x, dict) and x.get("k") == "lit" and "s" in x)
        for c, nd in calls:
            if not strip_generics(c).endswith("discover::discover_file"):
                continue
            n += 1
            a_in, a_to = pathx.desc(nd["a"][2]), pathx.desc(nd["a"][3])
            ctx.require(a_in == "None", rule, "env:global-scope", "a file from the environment applies globally (applies_in = None)", fe.loc(nd["l"]), detail=a_in)
            if gix:
                want = "Some{0: Git}"
                why = "located through git's configuration"
            elif "git" in lits.lower():
                want = "Some{0: Git}"
                why = "at a git location"
            elif "baz" in lits.lower() or "bzr" in lits.lower():
                want = "Some{0: Bazaar}"
                why = "at a bazaar location"
            else:
                want = "None"
                why = "the application's own file"
            kinds[want] = kinds.get(want, 0) + 1
            ctx.require(a_to == want, rule, "env:tag:%s" % why.replace(" ", "-"), "a global ignore file %s is tagged %s" % (why, want), fe.loc(nd["l"]), detail=a_to,
                        fail="the global ignore file %s is tagged %s instead of %s: --no-vcs-ignore / --no-global-ignore no longer remove exactly the sources they name" % (why, a_to, want))
    ctx.floor(rule, "discover_file call sites in from_environment", n, 4)
    ctx.require(kinds.get("Some{0: Git}", 0) >= 2 and kinds.get("None", 0) >= 1, rule, "env:classes", "git-config, git-location and application files are all looked for",
                fe.loc(fe.line), detail=str(kinds))


def origin_table(ctx, rule):
    """from_origin's (applies_in, applies_to, path) rows (shared with C12: --no-vcs-ignore / --no-project-ignore act on these tags)"""
    fo = body_of(ctx, rule, D + "::from_origin")
    root = thir.root(fo)
    # ---- R14.4 tables (all discover_file calls in from_origin)
    rows = []
    for c, n in thir.calls_in(root):
        if strip_generics(c).endswith("discover::discover_file"):
            a = n["a"]
            rows.append((pathx.desc(a[2]), pathx.desc(a[3]), pathx.desc(a[4])))
    want_rows = {
        ("Some{0: dir}", "None", "Path::join(dir, '.ignore')"), ("Some{0: dir}", "Some{0: Git}", "Path::join(dir, '.gitignore')"),
        ("Some{0: dir}", "Some{0: Mercurial}", "Path::join(dir, '.hgignore')"),
        ("Some{0: origin}", "Some{0: Bazaar}", "Path::join(origin, '.bzrignore')"), ("Some{0: origin}", "Some{0: Darcs}", "Path::join(origin, '_darcs/prefs/boring')"),
        ("Some{0: origin}", "Some{0: Fossil}", "Path::join(origin, '.fossil-settings/ignore-glob')"),
        ("Some{0: origin}", "Some{0: Git}", "Path::join(origin, '.git/info/exclude')"),
    }
    import re as _re
    norm = {(_re.sub(r"Clone::clone\(([^()]*)\)", r"\1", a), b, c_) for a, b, c_ in rows}
    for r in sorted(want_rows):
        ctx.require(r in norm, rule, "row:" + r[2], "%s applies in %s for %s" % (r[2], r[0], r[1]), fo.loc(fo.line),
                    fail="the discovery table no longer has the row %s (found %s)" % (r, sorted(x for x in norm if x[2] == r[2])))



def origin_args(ctx, rule):
    """IgnoreFilesFromOriginArgs: constructors keep what they are given, canonicalise() resolves every path through the filesystem in order (shared with C03)"""
    A14 = D + "::IgnoreFilesFromOriginArgs"
    wantc = {
        "new": {"origin": "From::from(AsRef::as_ref(origin))", "explicit_watches": "explicit_watches", "explicit_ignores": "explicit_ignores"},
        "new_unchecked": {"origin": "Into::into(AsRef::as_ref(origin))", "explicit_watches": "Iterator::collect(Iterator::map(IntoIterator::into_iter(explicit_watches), Into::into))",
                          "explicit_ignores": "Iterator::collect(Iterator::map(IntoIterator::into_iter(explicit_ignores), Into::into))"},
    }
    for nm_, want_ in wantc.items():
        fa = ctx.anchor_fn(rule, A14 + "::" + nm_)
        lit_ = [x for x in thir.find(thir.root(fa), "adt") if x.get("adt", "").endswith("IgnoreFilesFromOriginArgs")]
        got_ = [{k: pathx.desc(v) for k, v in x["f"]} for x in lit_]
        muts_ = sorted({strip_generics(c).split("::")[-1] for c, nd in thir.calls_in(thir.root(fa)) if nd["a"] and pathx.desc(nd["a"][0]) in ("explicit_watches", "explicit_ignores", "this.explicit_watches", "this.explicit_ignores")
                        and strip_generics(c).split("::")[-1] in ("retain", "sort", "sort_unstable", "dedup", "dedup_by", "truncate", "clear", "drain", "reverse")})
        ctx.require(got_ == [want_] and not muts_, rule, "args:" + nm_, "IgnoreFilesFromOriginArgs::%s keeps the origin, the watch list and the explicit ignore files as given" % nm_, fa.loc(fa.line),
                    detail=(str(got_) + " " + str(muts_))[:300], fail="IgnoreFilesFromOriginArgs::%s alters what it is given (%s %s): a thinned-out watch list reads as `no restriction`, reordered explicit files change precedence" % (nm_, str(got_)[:160], muts_))
    ca = body_of(ctx, rule, A14 + "::canonicalise")
    lit_ = [x for x in thir.find(thir.root(ca), "adt") if x.get("adt", "").endswith("IgnoreFilesFromOriginArgs")]
    with pathx.reading_through(thir.root(ca)):       # `let Self { origin, .. } = self; let origin = canonicalize(&origin).await?; Self { origin, .. }` is the same literal
        got_ = [{k: pathx.desc(v).replace("^", "") for k, v in x["f"]} for x in lit_]
    wantk = {"origin": "await canonicalize::canonicalize(self.origin)?",
             "explicit_watches": "await try_join_all::try_join_all(Iterator::map(IntoIterator::into_iter(self.explicit_watches), canonicalize::canonicalize))?",
             "explicit_ignores": "await try_join_all::try_join_all(Iterator::map(IntoIterator::into_iter(self.explicit_ignores), canonicalize::canonicalize))?"}
    canon = sorted({c for c, _ in thir.calls_in(thir.root(ca)) if c.split("::")[-1] == "canonicalize"})
    reord_ = sorted({strip_generics(c).split("::")[-1] for c, _ in thir.calls_in(thir.root(ca)) if strip_generics(c).split("::")[-1] in ("sort", "sort_unstable", "dedup", "sort_by", "dedup_by", "reverse", "retain")})
    ctx.require(got_ == [wantk] and canon == ["tokio::fs::canonicalize::canonicalize"] and not reord_, rule, "args:canonicalise",
                "canonicalise() resolves the origin and every listed path with tokio::fs::canonicalize, in order", ca.loc(ca.line), detail=(str(got_) + str(canon) + str(reord_))[:300],
                fail="canonicalise() no longer resolves every path through the filesystem in the given order (%s %s %s): origin-level files are keyed under a different spelling than the walk uses, or explicit files are reordered" % (str(got_)[:120], canon, reord_))



def no_string_prefix(ctx, rule):
    """no string-level prefix test on a rendered path anywhere in the ignore crates (shared with C03: component-exact ancestry)"""
    facts = ctx.facts
    # ---- R14.5 no string-prefix path comparison; set iteration only through order-independent combinators
    STR_CMP = ("core::str::<impl str>::starts_with", "core::str::<impl str>::ends_with", "core::str::<impl str>::strip_prefix", "core::str::<impl str>::contains",
               "core::str::<impl str>::find")
    TO_STR = ("std::path::Path::to_string_lossy", "std::path::Path::to_str", "std::path::Path::display", "std::ffi::os_str::OsStr::to_string_lossy",
              "std::ffi::os_str::OsStr::to_str", "std::ffi::OsStr::to_string_lossy", "std::ffi::OsStr::to_str")
    n_fn = 0
    for crate in ("ignore_files", "watchexec_filterer_ignore", "watchexec_filterer_globset"):
        for fn in facts.crate_fns(crate):
            if fn.error or not fn.blocks:
                continue
            n_fn += 1
            for bi, t in fn.calls():
                if t.callee.is_(*STR_CMP) and not fn.macro(t.mac):
                    tainted = False
                    for a in t.args[:2]:
                        for o in origins(fn, a, VALUE_CALLS + ("alloc::borrow::Cow::into_owned", "alloc::string::ToString::to_string", "alloc::string::String::as_str",
                                                              "core::ops::deref::Deref::deref")):
                            if o.kind == "call" and fn.blocks[o.data].term.callee.is_(*TO_STR):
                                tainted = True
                    ctx.require(not tainted, rule, "string-prefix-on-path:" + fn.def_, "no string-level prefix test on a rendered path in %s" % fn.def_.split("::")[-1],
                                fn.loc(t.line),
                                fail="%s compares paths as strings (%s on a rendered path): a sibling whose name extends another's (test / tests) is treated as "
                                     "being inside it" % (fn.def_, strip_generics(t.callee.def_).split("::")[-1]))
    ctx.floor(rule, "functions scanned for string-prefix path tests", n_fn, 100)


def run(ctx):
    ctx.level = "other"
    facts = ctx.facts
    ctx.undecided = ("exactness over all directory trees inherits the glob matcher (C03/`ignore` crate) and the OS directory listing; decided are the "
                     "gates, the pruning conditions (as an exact table of outcomes per directory entry), the order 'filter grows before descent', "
                     "the file-name tables and the absence of string-prefix path comparisons.")
    ctx.rule("R14.1", "gate: an IgnoreFile is recorded only by discover_file on the Ok(Some) outcome of find_file, which yields Some only for a "
                      "regular, non-empty file; discover_file reports `true` exactly then")
    ctx.rule("R14.2", "pruning: visit_path returns Find only after must_skip = false, check_dir = true and the explicit-watch relation (empty list, or "
                      "path under a watch, or a watch under path); per directory entry the outcomes are exactly: skipped-listed -> nothing; "
                      "type error -> error + skip; not a dir -> nothing; dir rejected by check_dir -> skip; dir accepted -> queued. No other pruning.")
    ctx.rule("R14.3", "filter grows before descent: in from_origin every per-directory discover_file that found a file is immediately followed by "
                      "add_last_file_to_filter, before the next lookup or the next directory")
    ctx.rule("R14.4", "tables: per-directory names .ignore (no VCS), .gitignore (Git), .hgignore (Mercurial) with applies_in = that directory; "
                      "origin-level files per VCS; the VCS metadata directories skipped by the walk cover every VCS marker directory known to project-origins")
    ctx.rule("R14.5", "paths are compared component-wise: no string-prefix comparison on rendered paths anywhere in the ignore-files crate and the "
                      "filterers, and set iteration is only consumed by order-independent combinators")

    # ---- R14.1
    try:
        ff = body_of(ctx, "R14.1", D + "::find_file")
        # the file's type and size are those of what the path resolves to: an ignore file that is a symlink to a regular file counts
        mds = sorted({(t.callee.def_ or "").split("::")[-1] for g_ in [ff] + ctx.facts.descendants(ff) for _, t in g_.calls() if (t.callee.def_ or "").split("::")[-1] in ("metadata", "symlink_metadata", "symlink_metadata_sync")
                      or (t.callee.def_ or "").endswith(("DirEntry::metadata", "DirEntry::file_type"))})
        ctx.require(mds == ["metadata"], "R14.1", "find-file-follows-symlinks", "find_file stats the path with metadata() (following symlinks)", ff.loc(ff.line), detail=str(mds),
                    fail="find_file no longer stats the path with metadata() (%s): a symlinked ignore file is not a `regular file` to lstat, so it is not reported and "
                         "the directories it ignores are searched for ignore files" % mds)
        ms = [m for m in thir.find(thir.root(ff), "match") if m["src"] == "Normal" and "Result<std::fs::Metadata" in m["sty"]]
        if len(ms) != 1:
            ctx.violation("R14.1", "floor:find-file-match", "find_file no longer matches on the metadata result once", ff.loc(ff.line))
        else:
            n_some = 0
            for arm in ms[0]["arms"]:
                v = thir.expr_value(arm["b"])
                is_some = v[0] == "v" and v[2] == "Ok" and list(v[3].values())[0][0] == "v" and list(v[3].values())[0][2] == "Some"
                if is_some:
                    n_some += 1
                    g = pathx.desc(arm["g"]) if arm.get("g") is not None else ""
                    ok = "Metadata::is_file(meta)" in g and "Metadata::len(meta) Gt 0" in g.replace("> 0", "Gt 0") and "&&" in g and thir.pat_str(arm["p"]).startswith("Ok")
                    ctx.require(ok, "R14.1", "some-needs-regular-nonempty", "find_file yields Some only for a regular file of non-zero length", ff.loc(arm["l"]),
                                detail=g, fail="find_file reports a path as an ignore file without requiring a regular, non-empty file (guard: %s)" % (g or "none"))
            if n_some == 0:
                # the other spelling: the metadata is bound first (`let meta = match .. { Ok(meta) => meta, .. => return .. }`) and the test is an `if`
                from ..throttle import implies as _imp14
                bad14 = []
                for q in paths_of(ff):
                    if "Some{" not in (q.val or ""):
                        continue
                    n_some += 1
                    okm = any(e[0] == "arm" and "metadata(path)" in e[1] and str(e[2][0]).startswith("Ok") for e in q.ev)
                    isf = any(e[0] == "branch" and _imp14(e[1], e[2], "Metadata::is_file(meta)", True) for e in q.ev)
                    nonempty = any(e[0] == "branch" and _imp14(e[1], e[2], "Metadata::len(meta) Gt 0", True) for e in q.ev)
                    if not (okm and isf and nonempty and q.val == "Ok{0: Some{0: path}}"):
                        bad14.append(pathx.show_events(q.ev)[-200:])
                ctx.require(not bad14, "R14.1", "some-needs-regular-nonempty", "find_file yields Some only for a regular file of non-zero length", ff.loc(ff.line),
                            detail="; ".join(bad14)[:300], fail="find_file reports a path as an ignore file without requiring a regular, non-empty file")
            ctx.floor("R14.1", "Some(..) arms in find_file", n_some, 1)
        df = body_of(ctx, "R14.1", D + "::discover_file")
        for p in paths_of(df):
            arm = [e for e in p.ev if e[0] == "arm" and "find_file(" in e[1]]
            pushes = [c for c in callnames(p.ev) if c[0] == "Vec::push" and c[1][0].lstrip("^") == "files"]
            val = p.val
            if not arm:
                continue
            found = arm[0][2][0].startswith("Ok(Some")
            ctx.require((len(pushes) == 1) == found and (val == "True") == found, "R14.1", "discover-file:" + arm[0][2][0],
                        "discover_file records the file and returns true exactly when find_file found one", df.loc(df.line), detail="%s push=%d" % (val, len(pushes)))
    except Skip:
        pass

    # ---- R14.2
    try:
        vp = body_of(ctx, "R14.2", D + "::DirTourist::visit_path")
        ps = paths_of(vp)
        loc = vp.loc(vp.line)
        n_find = 0
        iter_classes = {}
        for p in ps:
            top = [e for e in p.ev if e[0] != "loop"]
            brs = [e for e in top if e[0] == "branch"]
            ms = [b for b in brs if "DirTourist::must_skip(^self, ^path)" in b[1]]
            cd = [b for b in brs if "IgnoreFilter::check_dir(^self.filter, ^path)" in b[1]]
            wt = [b for b in brs if "to_explicitly_watch" in b[1]]
            for e in p.ev:
                if e[0] == "loop":
                    for it in e[1]:
                        iter_classes[classify_iter(it)] = it
            if p.out == "val" and (p.val or "").startswith("Find{0: ^path}"):
                n_find += 1
                # the explicit-watch relation R = `no explicit watches, or some watch is related to the path`, in whichever polarity it is tested:
                # the branch taken must hold exactly when R does
                from ..throttle import eval_cond as _ev14
                E14, A14 = "HashSet::is_empty(^self.to_explicitly_watch)", "Iterator::any(HashSet::iter(^self.to_explicitly_watch), closure)"
                rel_ok = bool(wt) and all((_ev14(wt[0][1], {E14: e_, A14: a_}) is bool(wt[0][2])) == (e_ or a_) for e_ in (True, False) for a_ in (True, False))
                ok = bool(ms) and implies(ms[0][1], ms[0][2], "DirTourist::must_skip(^self, ^path)", False) and \
                    bool(cd) and implies(cd[0][1], cd[0][2], "IgnoreFilter::check_dir(^self.filter, ^path)", True) and rel_ok
                ctx.require(ok, "R14.2", "find-gates", "Find is reached only past the skip list, check_dir and the explicit-watch relation", loc,
                            fail="visit_path can return a directory for ignore-file lookup without passing the skip list, the ignore filter or the explicit-watch relation")
                if wt:
                    ctx.require(rel_ok, "R14.2", "watch-relation-shape", "the watch relation is `no explicit watches, or any watch related to the path`", loc, detail=wt[0][1])
            elif p.out == "ret" and p.val == "Skip":
                pass
            else:
                ctx.violation("R14.2", "unexpected-outcome:%s" % p.val, "visit_path has an unexpected outcome %s %s" % (p.out, p.val), loc)
        ctx.floor("R14.2", "Find outcomes", n_find, 1)
        want = {"listed-in-skip": "nothing", "type-error": "error+skip", "not-dir": "nothing", "dir-rejected": "skip", "dir-accepted": "queue"}
        got = {k[0]: k[1] for k in iter_classes}
        for cls, eff in want.items():
            ctx.require(got.get(cls) == eff, "R14.2", "entry:" + cls, "directory entry %s -> %s" % (cls, eff), loc, detail=str(got.get(cls)),
                        fail="for a directory entry that is %s the walk does `%s`, expected `%s`" % (cls, got.get(cls), eff))
        for k in iter_classes:
            if k[0] not in want:
                ctx.violation("R14.2", "entry-extra:" + k[0], "the child-directory loop has an extra pruning/queueing case (%s -> %s): directories can be "
                              "dropped or queued under an undocumented condition" % k, loc, detail=pathx.show_events(iter_classes[k])[:400])
        # the watch relation closure has both directions
        wcl = [c for c in facts.descendants(vp) if c.kind == "closure" and sum(1 for _, t in c.calls() if t.callee.is_("std::path::Path::starts_with")) >= 1]
        okw = False
        for c in wcl:
            d = pathx.desc(thir.root(c))
            if re.search(r"Path::starts_with\(\^?path, p\)", d) and re.search(r"Path::starts_with\(p, \^?path\)", d) and "||" in d:
                okw = True
        ctx.require(okw, "R14.2", "watch-relation-both-ways", "a directory is kept when it is under a watched path or above one", loc,
                    fail="the explicit-watch relation lost one of its two directions (path under watch / watch under path)")
    except Skip:
        pass

    # must_skip: true exactly when the path or one of its ancestors below the base is on the skip list
    try:
        msf = ctx.anchor_fn("R14.2", D + "::DirTourist::must_skip")
        badm = []
        n_t = n_f = 0
        for q in pathx.Enum().paths(thir.root(msf)):
            last_c = None
            base = None
            for e in q.ev:      # top-level events only: what decided the exit
                if e[0] == "branch":
                    core, neg = pathx.split_not(e[1])
                    tr = (e[2] != neg)
                    if core.startswith("HashSet::contains(self.to_skip, "):
                        last_c = tr
                    elif core in ("PartialEq::eq(parent, self.base)", "PartialEq::eq(self.base, parent)"):
                        base = tr
                    elif core in ("PartialEq::ne(parent, self.base)", "PartialEq::ne(self.base, parent)"):
                        base = not tr
            res = q.val if q.out in ("ret", "val") else q.out
            sh = pathx.show_events([e for e in q.ev if e[0] != "loop"])[-200:]
            if res == "True":
                n_t += 1
                if last_c is not True:
                    badm.append("returns true without a hit in the skip list: " + sh)
            elif res == "False":
                n_f += 1
                if last_c is not False and not (base is True):
                    badm.append("returns false right after a hit: " + sh)
                none_parent = any(e[0] == "iflet" and e[1] == "Path::parent(path)" and not (e[3] if "Some" in e[2] else not e[3]) for e in q.ev)
                if not (base is True or none_parent):
                    badm.append("gives up before reaching the base or the root: " + sh)
            else:
                badm.append("unexpected result %s" % res)
            for e in q.ev:
                if e[0] == "loop":
                    for it in e[1]:
                        adv = [x for x in it if x[0] == "assign" and x[1] == "path" and x[2] == "parent"]
                        hit = [x for x in it if x[0] == "branch" and pathx.split_not(x[1])[0] == "HashSet::contains(self.to_skip, parent)"]
                        if not adv or not hit or ("loop-break",) in it:
                            badm.append("an iteration that goes on does not test the parent and move up to it: " + pathx.show_events(it)[-160:])
        ctx.require(not badm and n_t >= 2 and n_f >= 2, "R14.2", "must-skip-summary",
                    "must_skip(path) is true exactly when path or an ancestor below the base is on the skip list (walks parent by parent)", msf.loc(msf.line),
                    detail="; ".join(badm)[:500], fail="DirTourist::must_skip no longer answers `the path or an ancestor is on the skip list`: " + "; ".join(badm)[:300])
        nxf = body_of(ctx, "R14.2", D + "::DirTourist::next")
        rows = set()
        for q in pathx.Enum(interesting=interesting).paths(thir.root(nxf)):
            popped = [e for e in q.ev if e[0] == "iflet" and e[1].replace("^", "") == "Vec::pop(self.to_visit)"]
            some = popped and (popped[0][3] if "Some" in popped[0][2] else not popped[0][3])
            visits = [e for e in q.ev if e[0] == "call" and strip_generics(e[1]).endswith("DirTourist::visit_path")]
            rows.add(("some" if some else "none", bool(visits), q.val if not visits else "visit"))
        ctx.require(rows == {("some", True, "visit"), ("none", False, "Done")}, "R14.2", "next-table", "next(): a queued directory is visited; Done only when the queue is empty",
                    nxf.loc(nxf.line), detail=str(sorted(rows)), fail="DirTourist::next no longer visits every queued directory before reporting Done: %s" % sorted(rows))
    except Skip:
        pass
    # the walk starts from exactly what it was given: the whole watch list (an empty set means "no watches were given" in visit_path,
    # so it must not become empty by filtering), an empty skip list
    try:
        dn0 = body_of(ctx, "R14.2", D + "::DirTourist::new")
        lit = [n for n in thir.find(thir.root(dn0), "adt") if n.get("adt", "").endswith("DirTourist")]
        fl = {k: pathx.desc(v) for k, v in lit[0]["f"]} if len(lit) == 1 else {}
        import re as _re2
        w = fl.get("to_explicitly_watch", "")
        pure = bool(_re2.fullmatch(r"(?:(?:Iterator::collect|Iterator::cloned|Iterator::copied|slice::iter|IntoIterator::into_iter|slice::to_vec|Clone::clone|ToOwned::to_owned|HashSet::from_iter|FromIterator::from_iter)\()+watch_files\)+", w))
        ctx.require(pure, "R14.2", "watch-set-is-argument", "the walk's explicit-watch set is the given watch list, unfiltered", dn0.loc(dn0.line), detail=w,
                    fail="DirTourist::new derives the explicit-watch set through %s: if that leaves it empty, visit_path reads `no watches given` and searches every directory" % w)
        ctx.require(fl.get("to_skip") == "HashSet::new()" and fl.get("base") == "base" and fl.get("filter") == "filter", "R14.2", "walk-initial-state",
                    "the walk starts with an empty skip list, the canonical base and the prepared filter", dn0.loc(dn0.line), detail=str({k: fl.get(k) for k in ("to_skip", "base", "filter")}))
    except Skip:
        pass
    # a directory's builder survives a failed add_file: otherwise the ignore files found later in that directory are silently not compiled and stop pruning
    try:
        from . import c03 as _c03b
        _c03b.builders_stay(ctx, "R14.3")
    except Skip:
        pass
    try:
        origin_args(ctx, "R14.2")
    except Skip:
        pass
    # the CLI hands its watch list to the discovery unfiltered (an empty list means `no restriction`, so nothing may thin it out)
    try:
        from . import c12 as _c12w
        igw = _c12w.body_of(ctx, "R14.2", "watchexec_cli::dirs::ignores")
        na = [[pathx.desc(a) for a in nd["a"]] for c, nd in thir.calls_in(thir.root(igw)) if strip_generics(c).endswith("IgnoreFilesFromOriginArgs::new_unchecked")]
        ctx.require(na == [["origin", "Iterator::map(slice::iter(args.filtering.paths), From::from)", "ignore_files"]], "R14.2", "cli-watch-list-unfiltered",
                    "dirs::ignores passes (origin, every watched path, the explicit ignore files) to from_origin", igw.loc(igw.line), detail=str(na)[:300],
                    fail="the CLI no longer passes the complete watch list to the ignore-file discovery (%s): with the list thinned out (or emptied) directories unrelated to the "
                         "watches are searched, or a watched file's directory is skipped" % str(na)[:200])
    except Skip:
        pass
    # the C03 normalisation rule: the origin / applies_in spelling must not matter for pruning
    try:
        from . import c03 as _c03n
        _c03n.simplify_rule(ctx, "R14.5")
    except Skip:
        pass
    # check_dir's own verdict table (shared with C03 R03.4): pruning is only as good as what check_dir answers
    from . import c03 as _c03
    _c03.consumers(ctx, "R14.2", only="check_dir")

    # ---- R14.3
    try:
        fo = body_of(ctx, "R14.3", D + "::from_origin")
        root = thir.root(fo)
        # the walk's pruning filter is built from the files found so far: it must be built after every origin-level probe, on every path
        ctx.also("R14.3", "the walker (DirTourist::new, which compiles the pruning filter from the files found so far) is created after every origin-level discover_file")
        late, n_new = [], 0
        for p_ in pathx.Enum(interesting=lambda d: strip_generics(d).endswith(("discover::discover_file", "DirTourist::new"))).paths(root):
            seq_ = [strip_generics(e[1]).split("::")[-1] for e in p_.ev if e[0] == "call"]
            if "new" in seq_:
                n_new += 1
                if "discover_file" in seq_[seq_.index("new") + 1:]:
                    late.append(seq_)
        ctx.require(n_new > 0 and not late, "R14.3", "walker-after-origin-probes", "DirTourist::new comes after every origin-level discover_file on every path (%d paths)" % n_new, fo.loc(fo.line),
                    detail=str(late[:1])[:200], fail="the directory walker is set up before some origin-level ignore files are looked up: those files (e.g. .git/info/exclude, "
                                                     ".bzrignore, core.excludesFile) are returned but do not prune the walk, so ignore files inside directories they ignore are returned too")
        ms = [m for m in thir.find(root, "match") if m["src"] == "Normal" and m["sty"].endswith("discover::Visit")]
        if len(ms) != 1:
            ctx.violation("R14.3", "floor:visit-match", "from_origin no longer matches on Visit once", fo.loc(fo.line))
        else:
            arm = [a for a in ms[0]["arms"] if "Find" in thir.pattern_variants(a["p"])]
            pathx.SUBST = pathx.let_substitutions(root)
            try:
                ps = pathx.Enum(interesting=interesting).paths(arm[0]["b"])
            finally:
                pathx.SUBST = {}
            ctx.floor("R14.3", "paths through the Find arm", len(ps), 8)
            nfound = 0
            names = set()
            for p in ps:
                evs = [e for e in p.ev if e[0] in ("call", "branch")]
                for i, e in enumerate(evs):
                    if e[0] == "call" and strip_generics(e[1]).endswith("discover::discover_file"):
                        fname = pathx.desc(e[2]["a"][4])
                        names.add(fname)
                        nxt = evs[i + 1] if i + 1 < len(evs) else None
                        if nxt is None or nxt[0] != "branch" or "discover_file(" not in nxt[1]:
                            ctx.violation("R14.3", "result-not-tested:" + fname, "the result of discover_file(%s) is not tested directly" % fname, fo.loc(e[2].get("l")),
                                          detail=pathx.show_events(p.ev)[:300])
                            continue
                        if nxt[2] is True:
                            nfound += 1
                            nn = evs[i + 2] if i + 2 < len(evs) else None
                            ok = nn is not None and nn[0] == "call" and strip_generics(nn[1]).endswith("DirTourist::add_last_file_to_filter")
                            ctx.require(ok, "R14.3", "found-then-filter:" + fname, "a found %s is added to the walk's filter before anything else" % fname,
                                        fo.loc(e[2].get("l")),
                                        fail="after finding %s the walk's filter is not updated before the next lookup: only some of a directory's ignore "
                                             "files prune the traversal" % fname)
            ctx.floor("R14.3", "found-file obligations", nfound, 3)
            ctx.require(names == {"Path::join(dir, '.ignore')", "Path::join(dir, '.gitignore')", "Path::join(dir, '.hgignore')"}, "R14.4", "per-dir-names",
                        "each visited directory is probed for .ignore, .gitignore and .hgignore", fo.loc(fo.line), detail=str(sorted(names)))
        origin_table(ctx, "R14.4")
        env_table(ctx, "R14.4")
        # VCS metadata dirs vs project-origins
        dn = body_of(ctx, "R14.4", D + "::DirTourist::new")
        globs = set()
        for n in thir.find(thir.root(dn), "array"):
            for x in n["f"]:
                v = thir.expr_value(x)
                if v[0] == "s" and v[1].startswith("/"):
                    globs.add(v[1][1:])
        tf = [c for c in facts.fns_matching(r"^project_origins::types::\{closure#\d+\}$") if c.kind == "coroutine"]
        if tf:
            ctx.saw_fn(tf[0])
            vcs_dirs = set()
            isv = facts.find_fn("project_origins::ProjectType::is_vcs")
            vcs_names = set()
            if isv is not None:
                m = thir.find(thir.root(isv), "match")
                if m:
                    vcs_names = set(thir.pattern_variants(m[0]["arms"][0]["p"]))
            for arr in thir.find(thir.root(tf[0]), "array"):
                for el in arr["f"]:
                    v = thir.expr_value(el)
                    if v[0] == "call" and v[1].endswith("if_has_dir") and v[2][2][0] == "v" and v[2][2][2] in vcs_names:
                        vcs_dirs.add(v[2][1][1])
            ctx.floor("R14.4", "VCS marker directories known to project-origins", len(vcs_dirs), 6)
            for d_ in sorted(vcs_dirs):
                ctx.require(d_ in globs, "R14.4", "vcs-dir-skipped:" + d_, "the VCS metadata directory %s is never descended into" % d_, dn.loc(dn.line),
                            fail="the walk descends into the VCS metadata directory %s (known to project-origins as a VCS marker)" % d_)
    except Skip:
        pass

    no_string_prefix(ctx, "R14.5")
    try:
        ms = ctx.anchor_fn("R14.5", D + "::DirTourist::must_skip")
        names = {strip_generics(t.callee.def_) for _, t in ms.calls() if not ms.macro(t.mac)}
        allowed = {"std::collections::hash::set::HashSet::contains", "std::path::Path::parent", "core::cmp::PartialEq::eq", "core::cmp::PartialEq::ne"}
        extra = {n for n in names if n not in allowed and not n.startswith("core::ops::deref") and not n.startswith("core::convert")}
        ctx.require(not extra, "R14.5", "must-skip-componentwise", "must_skip walks Path::parent and tests set membership only", ms.loc(ms.line), detail=str(sorted(extra)),
                    fail="must_skip uses %s: the skip test is no longer a component-wise ancestor walk" % sorted(extra))
    except Skip:
        pass

    # ---- R14.6 pruning consults every ancestor's ignore file (walk owned by C03)
    ctx.rule("R14.6", "check_dir's verdict for a directory takes every ancestor ignore file into account (a string-prefix sibling node does not end the search)")
    ctx.borrow("C03", ["R03.2"], "R14.6", "match_path walks to the parent whenever the node found does not decide")


    ctx.rule("R14.7", "the patterns of a nested ignore file are rooted at that file's own directory when they join the walk's filter (anchored patterns prune the right directories)")
    ctx.borrow("C03", ["R03.5"], "R14.7", "per-directory grouping of add_file")



def classify_iter(it):
    """(class, effect) of one iteration of the directory-entry loop in visit_path"""
    evs = list(it)
    brs = [e for e in evs if e[0] == "branch"]
    arms = [e for e in evs if e[0] == "arm"]
    calls = [(strip_generics(e[1]).split("::")[-2] + "::" + strip_generics(e[1]).split("::")[-1], [pathx.desc(a) for a in e[2]["a"]]) for e in evs if e[0] == "call"]
    eff = []
    for n, a in calls:
        if n == "Vec::push" and a[0].endswith("to_visit"):
            eff.append("queue")
        elif n == "Vec::push" and a[0].endswith("errors"):
            eff.append("error")
        elif n == "DirTourist::skip":
            eff.append("skip")
    effect = "+".join(eff) or "nothing"
    ms = [b for b in brs if "DirTourist::must_skip(" in b[1]]
    if ms and ms[0][2] is True and not ms[0][1].startswith("Not "):
        cls = "listed-in-skip"
    elif any(a[0] == "arm" and "file_type(entry)" in a[1] and a[2][0].startswith("Err") for a in arms):
        cls = "type-error"
    else:
        isd = [b for b in brs if "FileType::is_dir(ft)" in b[1]]
        cd = [b for b in brs if "IgnoreFilter::check_dir(" in b[1]]
        if isd and isd[0][2] is False:
            cls = "not-dir"
        elif isd and cd and implies(cd[0][1], cd[0][2], cd[0][1][4:] if cd[0][1].startswith("Not ") else cd[0][1], True):
            cls = "dir-accepted"
        elif isd and cd:
            cls = "dir-rejected"
        else:
            cls = "other:" + ";".join("%s=%s" % (b[1][:60], b[2]) for b in brs)
    # extra conditions make it a different class
    known = ("DirTourist::must_skip(", "FileType::is_dir(ft)", "IgnoreFilter::check_dir(", "match")
    extra = [b for b in brs if not any(k in b[1] for k in known)]
    if extra:
        cls = cls + "+cond(" + ";".join("%s=%s" % (b[1][:80], b[2]) for b in extra) + ")"
    return (cls, effect)
