"""C01 - accepted events reach the action handler exactly once; rejected ones never; no empty batch."""
from .. import thir, pathx, throttle
from ..cfg import CFG, call_sites
from ..facts import strip_generics
from ..origin import origins, origin_calls, VALUE_CALLS, IDENTITY_CALLS
from ..report import Skip

LIB = "watchexec"


def desc_arg(e, i):
    return pathx.desc(e[2]["a"][i]) if i < len(e[2]["a"]) else "?"


def batch_only_moved(ctx, rule):
    """the action worker hands the collected set on with mem::take and does not otherwise touch it (shared with C02)"""
    facts = ctx.facts
    aw = ctx.anchor_one(rule, "action worker coroutine", [c for c in facts.children(ctx.anchor_fn(rule, "watchexec::action::worker::worker")) if c.kind == "coroutine"])
    touch = []
    for c, nd in thir.calls_in(thir.root(aw)):
        if pathx.is_tracing(nd) or not nd["a"]:
            continue
        a0 = pathx.desc(nd["a"][0]).lstrip("^")
        if a0 == "set":
            touch.append(strip_generics(c).split("::")[-2] + "::" + strip_generics(c).split("::")[-1])
    ctx.require(touch == ["mem::take"], rule, "batch-only-moved", "the collected set is handed on with mem::take and not otherwise touched", aw.loc(aw.line), detail=str(touch),
                fail="the action worker edits the collected batch before handing it to the handler (%s): accepted events are dropped, merged or reordered" % touch)



def source_priorities(ctx, rule):
    """priority each source queues its events at: Interrupt/Terminate Urgent, other signals High, keyboard and filesystem Normal (shared with C02, C08)"""
    facts = ctx.facts
    sig = ctx.anchor_fn(rule, "watchexec::sources::signal::send_event") if facts.find_fn("watchexec::sources::signal::send_event") else None
    cands = facts.fns_matching(r"^watchexec::sources::signal::.*send_event(::\{closure#\d+\})?$")
    body = [c for c in cands if c.kind == "coroutine"] or cands
    sigf = ctx.anchor_one(rule, "signal source send_event", body[:1] if body else [])
    # the priority argument of the one send, as a function of the signal: decided per variant with pattern semantics (match, matches!, ==,
    # through single-use locals and spliced helpers), whatever shape the mapping is written in
    rs = thir.root(sigf)
    sends_ = [nd for c, nd in thir.calls_in(rs) if strip_generics(c).endswith("Sender::send") and len(nd["a"]) == 3 and "Priority" in str(thir.peel(nd["a"][2]).get("ty", "Priority"))]
    sends_ = [nd for nd in sends_ if pathx.desc(nd["a"][0]).lstrip("^").startswith("events")]
    if len(sends_) != 1:
        ctx.violation(rule, "floor:signal-priority-match", "signal source no longer queues its event with exactly one events.send(event, priority)", sigf.loc(sigf.line), detail=str(len(sends_)))
    else:
        S = "watchexec_signals::Signal"
        want = {"Interrupt": "Urgent", "Terminate": "Urgent", "Hangup": "High", "Quit": "High", "User1": "High", "User2": "High",
                "ForceStop": "High", "Custom": "High"}
        sub_ = pathx.let_substitutions(rs, deep=True)
        signame = "sig"
        for owner in (sigf, facts.find_fn(getattr(sigf, "parent", None) or "")):
            for pr_ in ((owner.thir or {}).get("params", []) if owner is not None else []):
                if str(pr_.get("ty", "")).endswith("watchexec_signals::Signal") and isinstance(pr_.get("pat"), dict) and pr_["pat"].get("k") == "bind":
                    signame = pr_["pat"]["n"]
        for v, pr in sorted(want.items()):
            val = ("v", S, v, {"0": thir.ANY} if v == "Custom" else {})
            ev = thir.decide(sends_[0]["a"][2], signame, val, sub_)
            got = ev[2] if ev and ev[0] == "v" else None
            ctx.require(got == pr, rule, "signal-priority:" + v, "signal %s is queued at %s priority" % (v, pr), sigf.loc(sends_[0]["l"]),
                        fail="signal %s is queued at %s priority, documented %s" % (v, got if ev else "an undecidable", pr))
    kb = [c for c in facts.fns_matching(r"^watchexec::sources::keyboard::.*send_event") if c.kind == "coroutine"]
    kbf = ctx.anchor_one(rule, "keyboard source send_event", kb[:1])
    sends = [t for _, t in kbf.calls() if t.callee.is_("async_priority_channel::Sender::send", "async_priority_channel::Sender::try_send")]
    ok = False
    for t in sends:
        for a in origins(kbf, t.args[2] if len(t.args) > 2 else t.args[-1]):
            if a.kind == "agg":
                st = kbf.blocks[a.data[0]].stmts[a.data[1]]
                ad = st.rv.agg_adt()
                if ad and ad[0].endswith("Priority") and ad[1] == "Normal":
                    ok = True
    ctx.require(ok, rule, "keyboard-priority", "keyboard EOF is queued at Normal priority", kbf.loc(kbf.line),
                fail="keyboard events are not queued at Normal priority")
    pe = ctx.anchor_fn(rule, "watchexec::sources::fs::process_event")
    sends = [t for _, t in pe.calls() if t.callee.is_("async_priority_channel::Sender::try_send", "async_priority_channel::Sender::send")]
    ok = False
    for t in sends:
        for a in origins(pe, t.args[-1]):
            if a.kind == "agg":
                st = pe.blocks[a.data[0]].stmts[a.data[1]]
                ad = st.rv.agg_adt()
                if ad and ad[0].endswith("Priority") and ad[1] == "Normal":
                    ok = True
    ctx.require(len(sends) == 1 and ok, rule, "fs-priority", "filesystem events are queued once each at Normal priority", pe.loc(pe.line),
                fail="filesystem events are not queued exactly once at Normal priority")


def source_send_paths(ctx, rule):
    """signal and keyboard sources: blocking send, a failed send is reported (shared with C08)"""
    facts = ctx.facts
    for name, regex in (("signal", r"^watchexec::sources::signal::.*send_event"), ("keyboard", r"^watchexec::sources::keyboard::.*send_event")):
        fn = [c for c in facts.fns_matching(regex) if c.kind == "coroutine"][:1]
        fnn = ctx.anchor_one(rule, name + " send_event", fn)
        en = pathx.Enum(interesting=throttle.interesting)
        ps = en.paths(thir.root(fnn))
        nerr = 0
        for p in ps:
            evs = p.ev
            send_i = [i for i, e in enumerate(evs) if e[0] == "call" and strip_generics(e[1]).endswith("async_priority_channel::Sender::send")]
            if not send_i:
                continue
            errarm = [i for i, e in enumerate(evs) if i > send_i[0] and e[0] in ("iflet", "arm") and "Err" in str(e[2]) and
                      (e[3] is True if e[0] == "iflet" else True) and "Sender::send(events" in e[1]]
            if errarm:
                nerr += 1
                rep = [e for e in evs[errarm[0]:] if e[0] == "call" and strip_generics(e[1]).endswith("mpsc::bounded::Sender::send")]
                ctx.require(len(rep) == 1, rule, "%s-send-failure-reported" % name, "a failed event send is reported on the error channel", fnn.loc(fnn.line),
                            fail="the %s source drops an event silently when the queue send fails" % name)
        ctx.floor(rule, name + " send-failure paths", nerr, 1)


def synthetic_send(ctx, rule):
    """Watchexec::send_event queues the given event at the given priority on the worker's queue, unmodified (shared with C02)"""
    facts = ctx.facts
    se = ctx.anchor_one(rule, "send_event coroutine", [c for c in facts.children(ctx.anchor_fn(rule, "watchexec::watchexec::Watchexec::send_event")) if c.kind == "coroutine"])
    sends = [[pathx.desc(a) for a in nd["a"]] for c, nd in thir.calls_in(thir.root(se)) if strip_generics(c).endswith("async_priority_channel::Sender::send")]
    ctx.require(len(sends) == 1 and sends[0][0].lstrip("^") == "self.event_input" and [x.lstrip("^") for x in sends[0][1:]] == ["event", "priority"], rule, "send-event",
                "send_event() queues the given event at the given priority", se.loc(se.line), detail=str(sends))
    # (the async desugaring itself moves the parameters in with `let event = event;` - only a binding to something else counts)
    rebinds = [st["p"].get("n") for st in thir.walk(thir.root(se)) if isinstance(st, dict) and st.get("k") == "let" and st["p"].get("k") == "bind" and st["p"].get("n") in ("event", "priority")
               and isinstance(st.get("i"), dict) and pathx.desc(st["i"]).lstrip("^") != st["p"].get("n")]
    reass = [pathx.desc(a["a"]) for a in thir.find(thir.root(se), "assign") if pathx.desc(a["a"]).lstrip("^") in ("event", "priority")]
    ctx.require(not rebinds and not reass, rule, "send-event-verbatim", "send_event() does not rewrite the event or its priority", se.loc(se.line), detail=str(rebinds + reass),
                fail="Watchexec::send_event re-binds %s before queueing: the event is not queued as given (e.g. its priority is changed, which changes whether it is filtered and debounced)" % (rebinds + reass))


def signal_listeners(ctx, rule):
    """unix signal source: each OS listener of the select! produces the Signal variant of the same name (shared with C19)"""
    facts = ctx.facts
    sw = ctx.anchor_one(rule, "unix signal worker coroutine", [c for c in facts.fns_matching(r"^watchexec::sources::signal::imp_worker::\{closure#\d+\}$") if c.kind == "coroutine"])
    cfgw = CFG(sw)
    tuples = [(b.idx, st) for b in sw.blocks for st in b.stmts if st.kind == "=" and st.rv.kind == "agg" and st.rv.extra[0] == "tuple" and len(st.rv.ops) >= 2
              and all(any(a.kind == "call" and sw.blocks[a.data].term.callee.is_("tokio::signal::unix::Signal::recv") for a in origins(sw, op)) for op in st.rv.ops)]
    tuples = [x for x in tuples if all(cfgw.dominates(x[0], y[0]) for y in tuples)]
    if len(tuples) != 1:
        ctx.violation(rule, "floor:select-tuple", "the select! over the signal listeners was not found", sw.loc(sw.line))
    else:
        tb, tst = tuples[0]
        kinds = []
        for op in tst.rv.ops:
            k = None
            for a in origins(sw, op):
                if a.kind == "call" and sw.blocks[a.data].term.callee.is_("tokio::signal::unix::Signal::recv"):
                    for b2 in origins(sw, sw.blocks[a.data].term.args[0], VALUE_CALLS + ("core::ops::try_trait::Try::branch", "core::result::Result::map_err")):
                        if b2.kind != "call":
                            continue
                        lt = sw.blocks[b2.data].term
                        kind_arg = None
                        if lt.callee.is_("tokio::signal::unix::signal"):
                            kind_arg = lt.args[0]
                        elif (lt.callee.def_ or "").startswith("watchexec::"):
                            # a helper of this crate that registers the listener: the parameter it hands to tokio's signal() is the kind
                            hf = facts.find_fn(strip_generics(lt.callee.def_)) or facts.find_fn(lt.callee.def_)
                            if hf is not None:
                                for _, ht in hf.calls():
                                    if ht.callee.is_("tokio::signal::unix::signal"):
                                        for ho in origins(hf, ht.args[0]):
                                            if ho.kind == "arg" and not ho.proj and 1 <= ho.data <= len(lt.args):
                                                kind_arg = lt.args[ho.data - 1]
                        if kind_arg is not None:
                            for c3 in origins(sw, kind_arg):
                                if c3.kind == "call":
                                    k = strip_generics(sw.blocks[c3.data].term.callee.def_).split("::")[-1]
            kinds.append(k)
        # the switch on the select output: value i -> Signal aggregate
        S = "watchexec_signals::Signal"
        aggs = {}
        for b in sw.blocks:
            for st in b.stmts:
                if st.kind == "=" and st.rv.kind == "agg" and st.rv.agg_adt() and st.rv.agg_adt()[0] == S and not st.rv.ops:
                    aggs[b.idx] = st.rv.agg_adt()[1]
        outsw = None
        for b in sw.blocks:
            t = b.term
            if t.kind == "switch" and len(t.cases) >= len(kinds) and cfgw.dominates(tb, b.idx):
                reach = [set(cfgw.reachable_from(tt, avoid=[x for _, x in t.cases if x != tt] + [t.otherwise])) & set(aggs) for _, tt in t.cases]
                if sum(1 for r in reach if len(r) == 1) >= len(kinds):
                    outsw = (t, reach)
                    break
        want = {"hangup": "Hangup", "interrupt": "Interrupt", "quit": "Quit", "terminate": "Terminate", "user_defined1": "User1", "user_defined2": "User2"}
        if outsw is None:
            ctx.violation(rule, "floor:select-output", "the dispatch on the select! output was not found", sw.loc(sw.line))
        else:
            t, reach = outsw
            ctx.floor(rule, "signal listeners", len([k for k in kinds if k]), 6)
            for (v, tt), r in zip(t.cases, reach):
                if v >= len(kinds) or len(r) != 1:
                    continue
                got = aggs[next(iter(r))]
                k = kinds[v]
                ctx.require(want.get(k) == got, rule, "signal-source:%s" % k, "the %s listener produces Signal::%s" % (k, got), sw.loc(sw.line),
                            fail="the OS signal listener for `%s` produces Signal::%s (expected %s): signals are reported as the wrong kind" % (k, got, want.get(k)))


def run(ctx):
    ctx.level = "other"
    ctx.undecided = ("exactly-once delivery and FIFO/priority order inside async_priority_channel; fairness between concurrent producers; "
                     "what the notify back-ends report for real filesystem operations (native and poll watchers).")
    ctx.rule("R01.1", "batch conservation: on every feasible path of one throttle_collect iteration that received an event, the event is "
                      "pushed exactly once when it is urgent, empty or the filter passed it, and never when the filter rejected it or errored; "
                      "a filter error is sent to the error channel exactly once and the loop continues")
    ctx.rule("R01.2", "non-empty batch: every `return Ok(Some(..))` returns the accumulated `set`, on a path where the set is known non-empty")
    ctx.rule("R01.3", "one consumer, one hand-over: the event queue is read only in throttle_collect; the action handler is called only in "
                      "worker(), once per collected batch, with the batch taken from the returned set; an async handler is awaited")
    ctx.also("R01.3", "the handler slot's lock is not held while the handler runs (shared with R13.5)")
    ctx.rule("R01.4", "source priority table: Interrupt/Terminate -> Urgent, other signals -> High, keyboard EOF -> Normal (as documented on Priority), fs events -> Normal")
    ctx.rule("R01.6", "signal source table: each OS signal listener (SignalKind::x) is paired, through its position in the select!, with the "
                      "Signal variant of the same meaning (hangup->Hangup, interrupt->Interrupt, quit->Quit, terminate->Terminate, usr1->User1, usr2->User2)")
    ctx.rule("R01.7", "the collector gives up (Ok(None), which ends the action worker) only when the event queue is closed: every such return "
                      "follows a true events.is_closed() test or a recv() error")
    ctx.rule("R01.9", "fs event shape: every event built by process_event carries the notify kind as Tag::FileEventKind(nev.kind) and one "
                      "Tag::Path{path: normalize(path)} per path of the notify event, and exactly that event is queued")
    ctx.rule("R01.8", "wiring: the main task starts when Watchexec::main() notifies the start lock it waits on, and spawns the action worker on the "
                      "receiving end of the event queue, the fs / signal / keyboard sources on its sending end, and error_hook on the error queue")
    ctx.rule("R01.5", "no silent loss at the sources: a failed send/try_send of an event is reported on the error channel")
    facts = ctx.facts
    try:
        f, loop, its, nraw = throttle.model(ctx, "R01.1")
        ctx.floor("R01.1", "feasible iteration paths of throttle_collect", len(its), 24)
        nrecv = 0
        for it in its:
            cls = throttle.classify(it)
            if cls is None:
                continue
            nrecv += 1
            i0 = throttle.recv_arm(it)
            pushes = [e for e in it.ev[i0:] if e[0] == "call" and strip_generics(e[1]).endswith("Vec::push")]
            pushes_ok = [e for e in pushes if desc_arg(e, 0) == "set" and desc_arg(e, 1) == "event"]
            sends = [e for e in it.ev[i0:] if e[0] == "call" and strip_generics(e[1]).endswith("mpsc::bounded::Sender::send")]
            first = it.ev[0][0] == "call" and it.branches("Vec::is_empty(set)")[0][1][2]
            key = "%s:%s:%s" % (cls, "first" if first else "later", it.out + ("!" if it.out == "ret" and "Some" in (it.val or "") else ""))
            loc = f.loc(f.line)
            if cls in ("urgent", "empty", "bypass", "pass"):
                ctx.require(len(pushes) == 1 and len(pushes_ok) == 1, "R01.1", "accepted-pushed:" + key,
                            "%s event is pushed onto the batch exactly once" % cls, loc,
                            detail=it.show(),
                            fail="an event that is %s is pushed %d time(s) onto the batch" % (cls, len(pushes_ok)))
                ctx.require(not sends, "R01.1", "accepted-no-error:" + key, "no runtime error is raised for an accepted event", loc)
            elif cls in ("reject", "error"):
                ctx.require(not pushes and it.out in ("cont", "ret") and not (it.out == "ret" and "Some" in (it.val or "")), "R01.1",
                            "rejected-dropped:" + key, "an event the filter %ss is not added to the batch" % cls, loc,
                            detail=it.show(),
                            fail="an event the filter %sed reaches the batch handed to the action handler" % cls)
                if cls == "error":
                    ok = len(sends) == 1 and desc_arg(sends[0], 0) == "errors" and desc_arg(sends[0], 1) == "err"
                    ctx.require(ok, "R01.1", "filter-error-reported:" + key, "the filter error is sent to the error channel exactly once", loc,
                                fail="a filter error is sent %d times to the error channel" % len(sends))
                else:
                    ctx.require(not sends, "R01.1", "reject-silent:" + key, "a rejection raises no runtime error", loc)
            else:
                ctx.incomplete("R01.1", "unclassified:" + key, "cannot classify the verdict on path: " + it.show(), loc)
            # urgent events are not filtered
            if cls == "urgent":
                ctx.require(not it.calls("Filterer::check_event"), "R01.1", "urgent-unfiltered:" + key, "urgent events by-pass the filter", loc,
                            fail="an urgent event is passed through the filter")
        ctx.floor("R01.1", "paths that received an event", nrecv, 16)
        # R01.2
        nsome = 0
        for it in its:
            if it.out == "ret" and "Some" in (it.val or ""):
                nsome += 1
                key = "%s" % (throttle.classify(it) or "expiry")
                ctx.require(it.val == "Ok{0: Some{0: set}}", "R01.2", "returns-set:" + key, "the batch returned is the accumulated set", f.loc(f.line),
                            fail="throttle_collect returns %s instead of the accumulated set: events collected earlier in the window are lost" % it.val)
                # non-empty evidence: a push on this path, or the last is_empty(set) test was False
                pushes = it.calls("Vec::push")
                brs = it.branches("Vec::is_empty(set)")
                nonempty = bool(pushes) or (brs and brs[-1][1][2] is False)
                ctx.require(nonempty, "R01.2", "nonempty:" + key + ":" + ("first" if brs and brs[0][1][2] else "later"),
                            "a returned batch is known to be non-empty", f.loc(f.line),
                            fail="throttle_collect can return an empty batch: the action handler would be invoked with no events")
        ctx.floor("R01.2", "Some(set) return paths", nsome, 6)
        # R01.7 over whole-function paths (prelude + escapes of the loop)
        en = pathx.Enum(interesting=throttle.interesting)
        n_none = 0
        for q in en.paths(thir.root(f)):
            if q.out in ("ret", "val") and (q.val or "").replace(" ", "") in ("Ok{0:None}",):
                n_none += 1
                closed = None
                for e in q.ev:
                    if e[0] == "branch":
                        if throttle.implies(e[1], e[2], "Receiver::is_closed(events)", True):
                            closed = True
                        elif throttle.implies(e[1], e[2], "Receiver::is_closed(events)", False):
                            closed = False
                    elif e[0] == "arm" and e[1] == "maybe_event" and e[2][0].startswith("Ok(Err("):
                        closed = True
                ctx.require(closed is True, "R01.7", "gives-up-only-when-closed:" + ("prelude" if not any(e[0] == "loop" for e in q.ev) and not q.ev[-1][0] == "arm" and len(q.ev) < 4 else "loop"),
                            "Ok(None) is returned only after the queue was seen closed", f.loc(f.line), detail=pathx.show_events(q.ev)[-300:],
                            fail="throttle_collect returns Ok(None) - which ends the action worker and with it event delivery - while the event queue is open")
        ctx.floor("R01.7", "Ok(None) return paths of throttle_collect", n_none, 3)
    except Skip:
        pass

    # ---- the meaning of "empty" used by the filter bypass (R01.1): an event is empty iff it has no tag at all
    try:
        ie = ctx.anchor_fn("R01.1", "watchexec_events::event::Event::is_empty")
        d = pathx.desc(thir.peel(thir.root(ie)))
        ctx.require(d in ("Vec::is_empty(self.tags)", "self.tags.len() Eq 0", "Vec::len(self.tags) Eq 0"), "R01.1", "empty-means-no-tags", "Event::is_empty() <=> the event has no tags",
                    ie.loc(ie.line), detail=d, fail="Event::is_empty() is no longer `no tags at all` (%s): tagged events by-pass the filter in throttle_collect, so events the "
                    "filter would reject or fail on reach the action handler" % d)
    except Skip:
        pass

    # ---- the configured filter is the one consulted: the default `()` passes everything, Arc<T> and ChangeableFilterer forward, replace() stores
    try:
        unit = ctx.anchor_one("R01.1", "<() as Filterer>::check_event", [f for f in facts.fns_matching(r"^<\(\) as watchexec::filter::Filterer>::check_event$")])
        ctx.require(pathx.desc(thir.peel(thir.root(unit))) == "Ok{0: True}", "R01.1", "default-filter-passes", "the default filterer `()` accepts every event", unit.loc(unit.line),
                    detail=pathx.desc(thir.peel(thir.root(unit))), fail="the default filterer no longer returns Ok(true): without a configured filter every event is rejected")
        cf = ctx.anchor_one("R01.1", "<ChangeableFilterer as Filterer>::check_event", facts.trait_methods("watchexec::filter::ChangeableFilterer", "Filterer", "check_event"))
        d1 = pathx.desc(thir.peel(thir.root(cf)))
        if d1 == "{..}":
            # the same forwarding with named temporaries (`let f = self.current(); let v = f.check_event(..); drop(f); v`): locals read through,
            # statements that only bind or drop a local skipped, helpers spliced by the normaliser
            rt_ = thir.peel(thir.root(cf))
            with pathx.reading_through(rt_):
                e_ = rt_
                while isinstance(e_, dict) and e_.get("k") == "block" and e_.get("e") is not None and all(
                        isinstance(x_, dict) and ((x_.get("k") == "let" and x_.get("else") is None) or
                                                  pathx.desc(x_.get("e") if x_.get("k") in ("expr", "stmt") and isinstance(x_.get("e"), dict) else x_).startswith(("mem::drop(", "drop(")))
                        for x_ in e_.get("s", [])):
                    e_ = thir.peel(e_["e"])
                d1 = pathx.desc(e_).replace("^", "")
        ctx.require(d1 in ("Filterer::check_event(Arc::as_ref(Changeable::get(self.0)), event, priority)", "Filterer::check_event(AsRef::as_ref(Changeable::get(self.0)), event, priority)"), "R01.1", "changeable-filter-forwards",
                    "the configuration's filterer forwards (event, priority) to the filterer currently stored and returns its verdict", cf.loc(cf.line), detail=d1)
        ar = [f for f in facts.fns_matching(r"^<alloc::sync::Arc<T> as watchexec::filter::Filterer>::check_event$")]
        if ar:
            d2 = pathx.desc(thir.peel(thir.root(ar[0])))
            ctx.require(d2 in ("Filterer::check_event(Arc::as_ref(self), event, priority)", "Filterer::check_event(AsRef::as_ref(self), event, priority)"), "R01.1", "arc-filter-forwards", "Arc<T> forwards to T", ar[0].loc(ar[0].line), detail=d2)
        rp = ctx.anchor_fn("R01.1", "watchexec::filter::ChangeableFilterer::replace")
        rc = [[pathx.desc(a) for a in nd["a"]] for c, nd in thir.calls_in(thir.root(rp)) if strip_generics(c).endswith("Changeable::replace")]
        ctx.require(rc == [["self.0", "Arc::new(new)"]], "R01.1", "filter-replace-stores", "ChangeableFilterer::replace stores the new filterer", rp.loc(rp.line), detail=str(rc),
                    fail="Config::filterer(..) has no effect: ChangeableFilterer::replace does not store the new filterer (%s)" % rc)
    except Skip:
        pass

    # ---- what the action handler sees is the collected batch itself
    try:
        hn = ctx.anchor_fn("R01.3", "watchexec::action::handler::Handler::new")
        lit = [n for n in thir.find(thir.root(hn), "adt") if n.get("adt", "").endswith("handler::Handler")]
        fl = {k: pathx.desc(v) for k, v in lit[0]["f"]} if len(lit) == 1 else {}
        ctx.require(fl.get("events") == "events" and fl.get("extant") == "jobs" and fl.get("quit") == "None", "R01.3", "handler-holds-batch",
                    "Handler::new stores the given batch and job map unchanged and starts without a quit request", hn.loc(hn.line), detail=str(fl),
                    fail="Handler::new does not hand the batch through unchanged (%s): events taken from the queue are missing from (or altered in) what the action handler sees" % fl.get("events"))
    except Skip:
        pass

    # ---- between the collector and the handler the batch is only moved
    try:
        batch_only_moved(ctx, "R01.3")
    except Skip:
        pass

    # ---- R01.9 shape of filesystem events
    try:
        pe = ctx.anchor_fn("R01.9", "watchexec::sources::fs::process_event")
        want_calls = ("Vec::push", "Sender::try_send", "Sender::send")
        ps = pathx.Enum(interesting=lambda d: any(strip_generics(d).endswith(x) for x in want_calls)).paths(thir.root(pe))
        n_ok = 0
        for q in ps:
            sends = [e for e in q.ev if e[0] == "call" and strip_generics(e[1]).split("::")[-1] in ("try_send", "send")]
            if not sends:
                continue        # the notify error path (returns before an event exists)
            n_ok += 1
            top = [[pathx.desc(a) for a in e[2]["a"]] for e in q.ev if e[0] == "call" and strip_generics(e[1]).endswith("Vec::push")]
            loops = [e for e in q.ev if e[0] == "loop"]
            inloop = [[pathx.desc(a) for a in x[2]["a"]] for e in loops for it in e[1] for x in it if x[0] == "call" and strip_generics(x[1]).endswith("Vec::push")]
            has_kind = ["tags", "FileEventKind{0: nev.kind}"] in top
            path_ok = len(loops) == 1 and loops[0][2] == "for nev.paths" and len(inloop) == 1 and inloop[0][0] == "tags" and inloop[0][1].startswith("Path{") \
                and "path: NormalizePath::normalize(path)" in inloop[0][1]
            sent = [pathx.desc(a) for a in sends[0][2]["a"]]
            ctx.require(has_kind, "R01.9", "kind-tag", "the event carries the notify kind", pe.loc(pe.line), detail=str(top)[:300],
                        fail="process_event no longer tags the event with FileEventKind(nev.kind): kind filters, the path summary and the action see a kind-less event")
            ctx.require(path_ok, "R01.9", "path-tags", "one normalised Path tag per notify path", pe.loc(pe.line), detail=str(inloop)[:300],
                        fail="process_event no longer adds exactly one Tag::Path (normalised) per path of the notify event")
            ctx.require(len(sends) == 1 and sent[1] == "ev", "R01.9", "sends-built-event", "the event built from the tags is the one queued", pe.loc(pe.line), detail=str(sent))
        ctx.floor("R01.9", "event-producing paths of process_event", n_ok, 4)
        evs = [n for n in thir.find(thir.root(pe), "adt") if n.get("adt", "").endswith("event::Event")]
        okv = len(evs) == 1 and sorted((k, pathx.desc(v)) for k, v in evs[0]["f"]) == [("metadata", "metadata"), ("tags", "tags")] if evs else False
        ctx.require(okv, "R01.9", "event-from-tags", "ev = Event { tags, metadata }", pe.loc(pe.line))
    except Skip:
        pass

    # ---- R01.8 wiring of the main task
    try:
        wc = ctx.anchor_fn("R01.8", "watchexec::watchexec::Watchexec::with_config")
        mt = ctx.anchor_one("R01.8", "main task coroutine", [c for c in facts.children(wc) if c.kind == "coroutine"])
        spawned = {}
        first_await = None
        q0 = None
        for q in pathx.Enum().paths(thir.root(mt)):
            q0 = q
            break
        for e in (q0.ev if q0 else ()):
            if e[0] == "await" and first_await is None:
                first_await = e[1]
        for c, nd in thir.calls_in(thir.root(mt)):
            if strip_generics(c).endswith("JoinSet::spawn") and pathx.desc(nd["a"][0]) == "tasks":
                for c2, n2 in thir.calls_in(nd["a"][1]):
                    s2 = strip_generics(c2)
                    if s2.startswith("watchexec::") and (s2.endswith("::worker") or s2.endswith("::error_hook")):
                        spawned[s2] = [pathx.desc(a) for a in n2["a"]]
        want = {
            "watchexec::action::worker::worker": ["Clone::clone(^config)", "Clone::clone(er_s)", "^ev_r"],
            "watchexec::sources::fs::worker": ["Clone::clone(^config)", "Clone::clone(er_s)", "Clone::clone(^ev_s)"],
            "watchexec::sources::signal::worker": ["Clone::clone(^config)", "Clone::clone(er_s)", "Clone::clone(^ev_s)"],
            "watchexec::sources::keyboard::worker": ["Clone::clone(^config)", "Clone::clone(er_s)", "Clone::clone(^ev_s)"],
            "watchexec::watchexec::error_hook": ["er_r", "Clone::clone(^config.error_handler)"],
        }
        for k, v in want.items():
            ctx.require(spawned.get(k) == v, "R01.8", "spawned:" + k.split("::")[-2] + "::" + k.split("::")[-1], "%s is spawned on the main task's set with %s" % (k, v),
                        mt.loc(mt.line), detail=str(spawned.get(k)),
                        fail="%s is %s: events or errors from/to it never flow" % (k, "spawned with %s" % spawned.get(k) if k in spawned else "not spawned by the main task"))
        ctx.require(first_await == "Notify::notified(^notify)", "R01.8", "waits-for-start", "the main task first waits on the start lock", mt.loc(mt.line), detail=str(first_await))
        # the two ends of the queues
        lets = {}
        for st in thir.walk(thir.root(wc)):
            if isinstance(st, dict) and st.get("k") == "let" and st["p"].get("k") == "bind" and isinstance(st.get("i"), dict):
                lets[st["p"]["n"]] = pathx.desc(st["i"])
        ctx.require(lets.get("start_lock") == "Clone::clone(notify)", "R01.8", "start-lock-shared", "Watchexec keeps a clone of the Notify the main task waits on",
                    wc.loc(wc.line), detail=str(lets.get("start_lock")))
        ctx.require(lets.get("event_input") == "Clone::clone(ev_s)", "R01.8", "event-input-shared", "send_event() feeds the same queue the action worker reads",
                    wc.loc(wc.line), detail=str(lets.get("event_input")))
        mn = ctx.anchor_fn("R01.8", "watchexec::watchexec::Watchexec::main")
        calls = [(strip_generics(c), [pathx.desc(a) for a in nd["a"]]) for c, nd in thir.calls_in(thir.root(mn)) if not pathx.is_tracing(nd)]
        n1 = [a for c, a in calls if c.endswith("Notify::notify_one")]
        ctx.require(n1 == [["self.start_lock"]], "R01.8", "main-notifies", "Watchexec::main() releases the start lock", mn.loc(mn.line), detail=str(n1),
                    fail="Watchexec::main() no longer notifies the start lock: the main task never starts")
        synthetic_send(ctx, "R01.8")
    except Skip:
        pass

    # the handler is called without the handler slot's lock held (a handler that replaces itself must not deadlock the worker) - rule owned by C13
    try:
        from . import c13 as _c13l
        _c13l.lock_scope(ctx, "R01.3")
    except Skip:
        pass

    # ---- R01.3
    try:
        w = ctx.anchor_one("R01.3", "action worker coroutine",
                           [c for c in facts.children(ctx.anchor_fn("R01.3", "watchexec::action::worker::worker")) if c.kind == "coroutine"])
        tcf = ctx.anchor_one("R01.3", "throttle_collect coroutine",
                             [c for c in facts.children(ctx.anchor_fn("R01.3", "watchexec::action::worker::throttle_collect")) if c.kind == "coroutine"])
        readers = []
        handlers = []
        for fn in facts.crate_fns(LIB):
            if fn.error:
                continue
            for bi, t in fn.calls():
                if t.callee.is_("async_priority_channel::Receiver::recv", "async_priority_channel::Receiver::try_recv"):
                    readers.append((fn, t))
                if t.callee.is_("ChangeableFn::call") and "ActionReturn" in (t.callee.full or ""):
                    handlers.append((fn, bi, t))
        ctx.require(len(readers) >= 1 and all(fn is tcf for fn, _ in readers), "R01.3", "single-reader",
                    "the event queue is read only in throttle_collect", tcf.loc(tcf.line),
                    fail="the event queue has readers outside throttle_collect: %s" % sorted({fn.def_ for fn, _ in readers if fn is not tcf}))
        ctx.require(len(handlers) == 1 and handlers[0][0] is w, "R01.3", "single-handler-call",
                    "the action handler is invoked at exactly one site, in worker()", w.loc(w.line),
                    fail="the action handler is invoked at %d sites" % len(handlers))
        if len(handlers) == 1 and handlers[0][0] is w:
            cfg = CFG(w)
            _, hb, ht = handlers[0]
            tcc = call_sites(w, "action::worker::throttle_collect")
            backs = cfg.back_edges()
            ctx.require(len(tcc) == 1 and cfg.dominates(tcc[0][0], hb), "R01.3", "collect-then-call", "each handler call follows a throttle_collect", w.loc(ht.line))
            # handler argument derives from the set via take -> into_boxed_slice -> Arc::from -> Handler::new
            hn = [c for c, _ in origin_calls(w, ht.args[1], IDENTITY_CALLS)]
            okchain = any(c.callee.is_("Handler::new") for c in hn)
            ev_src = False
            for c in hn:
                if c.callee.is_("Handler::new"):
                    chain = origin_calls(w, c.args[0], VALUE_CALLS + ("alloc::vec::Vec::into_boxed_slice", "alloc::sync::Arc::from"))
                    for c2, proj in chain:
                        if c2.callee.is_("core::future::future::Future::poll") or "throttle_collect" in (c2.callee.res or "") or c2.callee.is_("throttle_collect"):
                            ev_src = True
                    for a in origins(w, c.args[0], VALUE_CALLS + ("alloc::vec::Vec::into_boxed_slice", "alloc::sync::Arc::from")):
                        if a.kind == "call" and w.blocks[a.data].term.callee.is_("throttle_collect"):
                            ev_src = True
                        if "await" in a.proj and a.kind == "call" and w.blocks[a.data].term.callee.is_("throttle_collect"):
                            ev_src = True
            ctx.require(okchain and ev_src, "R01.3", "batch-is-collected-set", "the handler receives the batch returned by throttle_collect", w.loc(ht.line),
                        fail="the action handler's events no longer derive from the batch returned by throttle_collect")
            # once per batch: the call is not inside an inner loop (only the main while-let loop contains it)
            heads = cfg.loops_containing(hb)
            ctx.require(len(heads) == 1, "R01.3", "once-per-batch", "the handler call sits directly in the batch loop (one call per batch)", w.loc(ht.line),
                        detail=str(sorted(heads)), fail="the handler call is nested in %d loops" % len(heads))
            # async result awaited: a poll whose future originates from the call's Async payload exists and dominates the next read of `action`
            rootw = thir.root(w)
            ms = [m for m in thir.find(rootw, "match") if "ActionReturn" in m["sty"]]
            okaw = False
            if len(ms) == 1:
                for a in ms[0]["arms"]:
                    if "Async" in thir.pattern_variants(a["p"]):
                        okaw = any(n.get("src") == "AwaitDesugar" for n in thir.find(a["b"], "match")) or \
                            (a["b"].get("k") == "match" and a["b"].get("src") == "AwaitDesugar")
            ctx.require(okaw, "R01.3", "async-handler-awaited", "an asynchronous action handler is awaited before its result is used", w.loc(w.line),
                        fail="the future returned by an async action handler is not awaited")
    except Skip:
        pass

    # ---- R01.4 priorities at the sources
    try:
        source_priorities(ctx, "R01.4")
    except Skip:
        pass

    # ---- R01.6 signal listeners <-> Signal variants
    try:
        signal_listeners(ctx, "R01.6")
    except Skip:
        pass

    # ---- R01.5 failed sends reported
    try:
        source_send_paths(ctx, "R01.5")
    except Skip:
        pass

    # ---- R01.10 the source side of "a filesystem change under a watched path": registration rules owned by C13
    ctx.rule("R01.10", "a filesystem change under a watched path can only become an event if the path is registered with the watcher")
    ctx.borrow("C13", ["R13.1", "R13.2", "R13.3", "R13.9"], "R01.10",
               "configuration changes are not lost, the shadow set is reset with the watcher, and the round's diff registers every configured path")

    ctx.rule("R01.11", "the action worker cannot be brought down by a duration: no run-time duration (the throttle may be Duration::MAX, `only act on urgent "
                       "events`) is added to an Instant with the panicking operator - a panic there loses the pending batch and closes the queue (shared with R06.11)")
    try:
        from .. import jobrules as _jr
        _jr.no_panicking_instant_arith(ctx, "R01.11")
    except Skip:
        pass
