"""C17 - path summaries handed to commands (kind tables, sort/dedup, skip rules).

The path algebra (common prefix, strip/join round trip over all paths) is value-level and NOT decided.
"""
import re

from .. import thir, pathx
from ..cfg import CFG, call_sites
from ..facts import strip_generics
from ..throttle import implies
from ..origin import origins, VALUE_CALLS
from ..report import Skip

ALT_CONFIGS = []


def doc_table(doc):
    """- `VAR` -> `Pat`, `Pat` lines of summarise_events_to_env's doc comment"""
    rows = {}
    other = None
    for line in doc.splitlines():
        m = re.match(r"\s*-\s*`([A-Z_]+)`\s*->\s*(.*)$", line)
        if not m:
            continue
        var, rest = m.group(1), m.group(2)
        pats = re.findall(r"`([^`]+)`", rest)
        if pats:
            rows[var] = pats
        elif "anything else" in rest:
            other = var
    return rows, other


def doc_pat_matches(pat, val):
    """`Modify(Data(_))` style pattern against an enumerated value"""
    pat = pat.strip()
    if pat == "_":
        return True
    m = re.match(r"^(\w+)(?:\((.*)\))?$", pat)
    if not m or val[0] != "v":
        return False
    if m.group(1) != val[2]:
        return False
    inner = m.group(2)
    fs = list(val[3].values())
    if inner is None:
        return not fs
    if not fs:
        return False
    return doc_pat_matches(inner, fs[0])


def kebab(name):
    return re.sub(r"(?<!^)(?=[A-Z])", "-", name).lower()


def emission_plumbing(ctx, rule):
    """emit_events_to_command: per mode, what is produced (and the user's -E variables) is what the command receives (shared with C18)"""
    facts = ctx.facts
    ec = ctx.anchor_fn(rule, "watchexec_cli::config::emit_events_to_command")
    want8 = {"Environment": ("emits_to_environment", "env"), "Stdio": ("emits_to_file", "stdin"), "File": ("emits_to_file", "envfile"),
             "JsonStdio": ("emits_to_json_file", "stdin"), "JsonFile": ("emits_to_json_file", "envfile"), "None": (None, None)}
    en8 = pathx.Enum(interesting=lambda d_: strip_generics(d_).endswith(("emits_to_environment", "emits_to_file", "emits_to_json_file", "Command::env", "Command::stdin",
                                                                        "Iterator::chain", "Option::replace")))
    seen8 = {}
    bad8 = []
    for q in en8.paths(thir.root(ec)):
        mode = [e[2][0] for e in q.ev if e[0] == "arm" and e[1] == "emit_events_to"]
        if len(mode) != 1 or mode[0] not in want8:
            bad8.append("a path does not dispatch on the emission mode (%s)" % mode)
            continue
        m = mode[0]
        prod = [strip_generics(e[1]).split("::")[-1] for e in q.ev if e[0] == "call" and strip_generics(e[1]).split("::")[-1].startswith("emits_to_")]
        failed = any(e[0] == "arm" and e[2][0].startswith("Err") for e in q.ev)
        asg = [e[2] for e in q.ev if e[0] == "assign" and e[1] == "envs"]
        rep = [pathx.desc(e[2]["a"][0]) for e in q.ev if e[0] == "call" and strip_generics(e[1]).endswith("Option::replace")]
        envloop = [e for e in q.ev if e[0] == "loop" and e[2] == "for envs"]
        applied = bool(envloop) and all([[pathx.desc(a) for a in x[2]["a"]] for x in it if x[0] == "call" and strip_generics(x[1]).endswith("Command::env")] == [["command", "var.key", "var.value"]]
                                        and ("loop-break",) not in it for it in envloop[0][1])
        stdin_ev = None
        for e in q.ev:
            if e[0] == "iflet" and e[1] == "stdin":
                stdin_ev = e[3] if "Some" in e[2] else (not e[3])
        sets_stdin = any(e[0] == "call" and strip_generics(e[1]).endswith("Command::stdin") and [pathx.desc(a) for a in e[2]["a"]] == ["command", "stdin"] for e in q.ev)
        if not applied:
            bad8.append("%s: the collected variables are not all applied with command.env(key, value)" % m)
        if sets_stdin != bool(stdin_ev):
            bad8.append("%s: command.stdin is %s although stdin is %s" % (m, "set" if sets_stdin else "not set", "Some" if stdin_ev else "None"))
        wprod, wkind = want8[m]
        if prod != ([wprod] if wprod else []):
            bad8.append("%s: produces with %s, expected %s" % (m, prod, wprod))
        if failed:
            if asg or rep:
                bad8.append("%s: something is handed over although producing the file failed" % m)
            continue
        if wkind == "env":
            ok8 = asg == ["Box::new(Iterator::chain(envs, emits::emits_to_environment(events)))"] and not rep
        elif wkind == "envfile":
            ok8 = len(asg) == 1 and asg[0].startswith("Box::new(Iterator::chain(envs, once::once(EnvVar{key: Into::into('WATCHEXEC_EVENTS_FILE'), value: Into::into(path)}") and not rep
        elif wkind == "stdin":
            ok8 = not asg and rep == ["stdin"]
        else:
            ok8 = not asg and not rep
        seen8[m] = seen8.get(m, True) and ok8
        if not ok8:
            bad8.append("%s: hands over %s / %s" % (m, asg, rep))
    ctx.require(not bad8 and set(seen8) == set(want8), rule, "emission-plumbing", "each emission mode hands its product to the command (environment / events file variable / stdin)",
                ec.loc(ec.line), detail="; ".join(sorted(set(bad8)))[:500], fail="what is produced for the command is not what it receives: " + "; ".join(sorted(set(bad8)))[:300])
    ee = ctx.anchor_fn(rule, "watchexec_cli::emits::emits_to_environment")
    sc = [[pathx.desc(a) for a in nd["a"]] for c, nd in thir.calls_in(thir.root(ee)) if strip_generics(c).endswith("paths::summarise_events_to_env")]
    ctx.require(sc in ([["slice::iter(events)"]], [["events"]]), rule, "environment-is-summary", "the environment variables are the summary of the batch's events", ee.loc(ee.line), detail=str(sc))



def json_lines(ctx, rule):
    f = ctx.anchor_fn(rule, "watchexec_cli::emits::emits_to_json_file")
    pathx.SUBST = pathx.let_substitutions(thir.root(f), deep=True)      # `let line = to_vec(event)..?; write(&line)` reads as write(to_vec(event)..?)
    try:
        _json_lines(ctx, rule)
    finally:
        pathx.SUBST = {}


def _json_lines(ctx, rule):
    """emits_to_json_file: every non-empty event becomes exactly one line - its complete serde_json serialisation, then a newline - and a serialisation
    failure leaves the function instead of leaving a fragment behind (shared with C16: each line parses back to the event)"""
    facts = ctx.facts
    f = ctx.anchor_fn(rule, "watchexec_cli::emits::emits_to_json_file")
    keep = ("RotatingTempFile::write", "serde_json::ser::to_vec", "serde_json::ser::to_string", "serde_json::ser::to_writer", "serde_json::ser::to_vec_pretty",
            "serde_json::ser::to_string_pretty", "serde_json::ser::to_writer_pretty", "Event::is_empty", "Vec::push", "Vec::extend_from_slice", "Write::write_all", "String::push_str")
    ps = pathx.Enum(interesting=lambda d_: strip_generics(d_).endswith(keep)).paths(thir.root(f))
    iters = set()
    for q in ps:
        for e in q.ev:
            if e[0] == "loop" and e[2].replace("^", "") == "for events":
                iters |= set(e[1])
    n_full = 0
    bad = []
    for it in iters:
        empt = [e for e in it if e[0] == "branch" and pathx.split_not(e[1])[0] == "Event::is_empty(event)"]
        if not empt:
            bad.append("an iteration does not test Event::is_empty(event)")
            continue
        d, neg = pathx.split_not(empt[0][1])
        is_empty = bool(empt[0][2]) != neg
        calls = [(strip_generics(e[1]), e[2]) for e in it if e[0] == "call"]
        ser = [c for c in calls if c[0].startswith("serde_json::ser::")]
        wr = [[pathx.desc(a).replace("^", "") for a in c[1]["a"]] for c in calls if c[0].endswith("RotatingTempFile::write")]
        other = [c[0] for c in calls if not c[0].startswith("serde_json::ser::") and not c[0].endswith(("RotatingTempFile::write", "Event::is_empty"))]
        failed = [e for e in it if e[0] in ("iflet", "arm") and "serde_json" in str(e[1]).replace("ser::to_", "serde_json::to_") and ("Err" in str(e[2]) or "Break" in str(e[2])) and (e[3] if e[0] == "iflet" else True)]
        if is_empty:
            if ser or wr or other:
                bad.append("an empty event writes something")
            continue
        n_full += 1
        if failed:
            bad.append("an iteration goes on after a failed serialisation")
        if other:
            bad.append("output is staged through %s instead of being written" % sorted(set(other)))
        if not (len(ser) == 1 and ser[0][0] == "serde_json::ser::to_vec" and len(wr) == 2 and "ser::to_vec(event)" in wr[0][1] and wr[1][1] in ("lit", "'\\n'", "b'\\n'")):
            bad.append("a non-empty event is not written as to_vec(event) followed by a newline: %s / %s" % ([c[0].split("::")[-1] for c in ser], [w[1][:50] for w in wr]))
    ctx.require(n_full >= 1 and not bad, rule, "json-lines", "each non-empty event is written as one complete JSON line; a serialisation failure ends the emission (%d iteration shapes)" % len(iters),
                f.loc(f.line), detail=str(sorted(set(bad)))[:400],
                fail="emits_to_json_file no longer writes one complete JSON document per line (%s)" % "; ".join(sorted(set(bad)))[:300])


def run(ctx):
    facts = ctx.facts
    ctx.level = "other"
    ctx.undecided = ("the path algebra - common_prefix being the longest common directory, strip_prefix/join giving back the "
                     "original path for all path shapes, a path equal to the prefix - is value-level and not decided statically; "
                     "HashSet/sort semantics are trusted.")
    ctx.rule("R17.1", "for every value of FileEventKind (41, enumerated) the variable chosen by summarise_events_to_env equals the "
                      "row of the table in its own doc comment; the simple-format label of every kind equals the kebab-case name of "
                      "its FsEventKind (the JSON `simple` name) - sibling tables agree")
    ctx.rule("R17.2", "each variable's entries are collected in a HashSet (de-duplicated) and sorted (slice::sort) before the join; "
                      "the sort dominates the join loop")
    ctx.rule("R17.3", "an event without paths contributes nothing (the is_empty edge reaches the next loop iteration without touching "
                      "any accumulator); kinds are taken only from Tag::FileEventKind")
    ctx.rule("R17.5", "COMMON is inserted exactly when common_prefix() returned a path, with that path")
    ctx.rule("R17.6", "file emission starts from a fresh file: RotatingTempFile::rotate returns Ok only after a newly created temp file replaced the old one, and "
                      "both file emitters rotate (propagating the error) before they write")
    ctx.rule("R17.7", "common_prefix, structural part: for every further path the running prefix is cut to the number of leading components it "
                      "shares with that path (a counter started at 0, incremented once per equal pair, stopped at the first unequal pair) unless that "
                      "number is known to equal the prefix's length; the counting shape itself is what is decided, not path arithmetic in general")
    ctx.rule("R17.8", "plumbing: per emission mode, what is produced is what the command receives - Environment: the summary's variables are chained into the "
                      "environment that is applied with command.env for every variable; File / JsonFile: the written file's path as WATCHEXEC_EVENTS_FILE; "
                      "Stdio / JsonStdio: that file opened as the command's stdin; None: nothing")
    ctx.also("R17.8", 'emits_to_json_file writes each non-empty event as to_vec(event) followed by a newline; a serialisation failure leaves the function')
    ctx.rule("R17.4", "the line format writes one line per (event, path, kind) in nested loop order events > paths > kinds, and a "
                      "pathed event without kind yields exactly one `other:` line per path")

    try:
        f = ctx.anchor_fn("R17.1", "watchexec::paths::summarise_events_to_env")
    except Skip:
        return
    root = thir.root(f)
    # ---- R17.1 env variable table
    ms = [m for m in thir.find(root, "match") if m["src"] == "Normal" and "EventKind" in m["sty"]]
    if not ms:
        # the table moved into a private helper of the module (`fn summary_category(kind) -> &'static str`): read it there
        for c_, n_ in thir.calls_in(root):
            g_ = facts.find_fn(strip_generics(c_)) if strip_generics(c_).startswith("watchexec::paths::") else None
            if g_ is not None and getattr(g_, "thir", None):
                b_ = thir.peel(thir.root(g_))
                if isinstance(b_, dict) and b_.get("k") == "match" and b_.get("src") == "Normal" and "EventKind" in b_["sty"]:
                    ctx.saw_fn(g_)
                    ms.append(b_)
    if len(ms) != 1:
        ctx.violation("R17.1", "floor:shape:kind-match", "expected one match over the event kind, found %d" % len(ms), f.loc(f.line))
    else:
        m = ms[0]
        fek = m["sty"].lstrip("&")
        vals = thir.enum_values(facts, fek, depth=4)
        ctx.floor("R17.1", "FileEventKind values", len(vals), 41)
        rows, other = doc_table(f.doc)
        ctx.floor("R17.1", "doc table rows", len(rows) + (1 if other else 0), 6)
        for v in vals:
            name = thir.debug_render(v)
            i = thir.first_arm(m, v)
            if i is None:
                ctx.incomplete("R17.1", "env-var:" + name, "undetermined arm", f.loc(m["l"]))
                continue
            got = thir.expr_value(m["arms"][i]["b"])
            got = got[1] if got[0] == "s" else None
            want = [var for var, pats in rows.items() if any(doc_pat_matches(p, v) for p in pats)]
            want = want[0] if len(want) == 1 else (other if not want else None)
            ctx.require(got is not None and got == want, "R17.1", "env-var:" + name,
                        "%s is reported in %s as documented" % (name, got), f.loc(m["arms"][i]["l"]),
                        fail="%s is reported in %s but the documented variable is %s" % (name, got, want))
    # simple-format labels vs FsEventKind names
    try:
        sf = ctx.anchor_fn("R17.1", "watchexec_cli::emits::events_to_simple_format")
        conv = ctx.anchor_one("R17.1", "<FsEventKind as From<EventKind>>::from",
                              [x for x in facts.fns_matching(r"From<.*EventKind> for watchexec_events::serde_formats::FsEventKind>::from$|FsEventKind as core::convert::From<.*EventKind>>::from$")])
        ms2 = [m for m in thir.find(thir.root(sf), "match") if m["src"] == "Normal" and "EventKind" in m["sty"]]
        lab = [m for m in ms2 if all(thir.expr_value(a["b"])[0] == "s" for a in m["arms"])]
        cm = [m for m in thir.find(thir.root(conv), "match") if m["src"] == "Normal"]
        if len(lab) != 1 or len(cm) != 1:
            ctx.violation("R17.1", "floor:shape:simple-format", "label table or FsEventKind conversion table not found", sf.loc(sf.line))
        else:
            lab, cm = lab[0], cm[0]
            fek = cm["sty"].lstrip("&")
            for v in thir.enum_values(facts, fek, depth=4):
                name = thir.debug_render(v)
                i, j = thir.first_arm(lab, v), thir.first_arm(cm, v)
                if i is None or j is None:
                    ctx.incomplete("R17.1", "label:" + name, "undetermined arm", sf.loc(lab["l"]))
                    continue
                label = thir.expr_value(lab["arms"][i]["b"])[1]
                simple = thir.expr_value(cm["arms"][j]["b"])
                simple = kebab(simple[2]) if simple[0] == "v" else None
                ctx.require(label == simple, "R17.1", "label:" + name,
                            "line-format label %r equals the JSON simple kind %r" % (label, simple), sf.loc(lab["arms"][i]["l"]),
                            fail="line-format label for %s is %r but the JSON `simple` kind is %r" % (name, label, simple))
    except Skip:
        pass

    # ---- R17.2 sort + dedup
    subs = facts.descendants(f)
    sorters = []
    for c in subs:
        ctx.saw_fn(c)
        ss = call_sites(c, "slice::<impl [T]>::sort", "<impl [T]>::sort")
        if ss:
            sorters.append((c, ss))
    if len(sorters) != 1:
        ctx.violation("R17.2", "floor:sort", "expected exactly one closure sorting the entries, found %d: entries are no longer byte-sorted" % len(sorters), f.loc(f.line))
    else:
        c, ss = sorters[0]
        cfg = CFG(c)
        ptys = [p["ty"] for p in c.thir["params"][1:]]
        ctx.require(any("HashSet<std::ffi::os_str::OsString>" in t for t in ptys), "R17.2", "dedup-hashset",
                    "the entries of one variable arrive as a HashSet<OsString>", c.loc(c.line), detail=str(ptys),
                    fail="entries are no longer collected in a set: duplicates can appear in a variable")
        joins = call_sites(c, "core::iter::traits::iterator::Iterator::for_each")
        ctx.floor("R17.2", "join loop (for_each)", len(joins), 1)
        for bi, t in joins:
            ctx.require(cfg.dominates(ss[0][0], bi), "R17.2", "sort-before-join", "sort() dominates the join loop", c.loc(t.line),
                        fail="the join can run on unsorted entries")
            # the iterated vec is the sorted vec
            sort_src = {a.key() for a in origins(c, ss[0][1].args[0], VALUE_CALLS + ("core::ops::deref::DerefMut::deref_mut",))}
            it_src = set()
            for a in origins(c, t.args[0], VALUE_CALLS + ("core::iter::traits::iterator::Iterator::enumerate",)):
                it_src.add(a.key())
            ctx.require(bool(sort_src & it_src), "R17.2", "sort-same-vec", "the joined sequence is the sorted vector", c.loc(t.line),
                        detail="%s vs %s" % (sorted(map(str, sort_src)), sorted(map(str, it_src))))
        # entries pushed with the separator only between elements: path rule over the for_each closure
        inner = [x for x in facts.children(c) if any(t.callee.is_("std::ffi::os_str::OsString::push", "std::ffi::OsString::push") for _, t in x.calls())]
        if len(inner) != 1:
            ctx.violation("R17.2", "floor:join-closure", "the closure appending entries to the joined string was not found (found %d)" % len(inner), c.loc(c.line))
        else:
            x = inner[0]
            bad = []
            n_first = n_later = 0
            for q in pathx.Enum().paths(thir.root(x)):
                pushes = [pathx.desc(e[2]["a"][1]) for e in q.ev if e[0] == "call" and strip_generics(e[1]).endswith("OsString::push")]
                later = None
                for e in q.ev:
                    if e[0] == "branch":
                        if implies(e[1], e[2], "i Gt 0", True) or implies(e[1], e[2], "i Ne 0", True) or implies(e[1], e[2], "i Eq 0", False):
                            later = True
                        elif implies(e[1], e[2], "i Gt 0", False) or implies(e[1], e[2], "i Ne 0", False) or implies(e[1], e[2], "i Eq 0", True):
                            later = False
                if later is True:
                    n_later += 1
                    if pushes != ["PATH_SEPARATOR", "path"]:
                        bad.append("a later entry appends %s" % pushes)
                elif later is False:
                    n_first += 1
                    if pushes != ["path"]:
                        bad.append("the first entry appends %s" % pushes)
                else:
                    bad.append("position not tested: appends %s" % pushes)
            ctx.require(not bad and n_first >= 1 and n_later >= 1, "R17.2", "separator-between",
                        "each entry is appended exactly once, preceded by the separator for every entry but the first", x.loc(x.line),
                        detail="; ".join(bad), fail="the join of a variable's entries is wrong: " + "; ".join(bad))

    try:
        from .. import evrules
        evrules.accessor(ctx, "R17.3", "paths")     # "every path of every event" = exactly its Tag::Path tags
    except Skip:
        pass
    # ---- R17.3 skip rules (THIR paths of the per-event loop)
    en = pathx.Enum(interesting=lambda d: not any(strip_generics(d).startswith(x) for x in ("core::clone::Clone::clone", "core::convert::", "core::ops::deref", "core::fmt", "alloc::borrow::ToOwned")))
    fps = en.paths(thir.root(f))
    ev_iters = set()
    for q in fps:
        for e in q.ev:
            if e[0] == "loop" and e[2] == "for events":
                ev_iters |= set(e[1])
    ctx.floor("R17.3", "per-event iteration paths", len(ev_iters), 2)
    n_skip = n_take = 0
    for it in ev_iters:
        empty = None
        for e in it:
            if e[0] == "branch":
                if implies(e[1], e[2], "Vec::is_empty(paths)", True):
                    empty = True
                elif implies(e[1], e[2], "Vec::is_empty(paths)", False):
                    empty = False
        ext = [pathx.desc(e[2]["a"][0]) for e in it if e[0] == "call" and strip_generics(e[1]).endswith("Extend::extend")]
        inner = [e for e in it if e[0] == "loop"]
        inner_ext = [strip_generics(x[1]).split("::")[-1] for e in inner for itx in e[1] for x in itx if x[0] == "call"]
        brk = any(e == ("loop-break",) for e in it)
        ctx.require(not brk, "R17.3", "no-early-stop:" + str(empty), "no event ends the summary loop early", f.loc(f.line),
                    fail="the per-event loop of summarise_events_to_env stops at %s: later events are not summarised" % ("an event without paths" if empty else "an event"))
        if empty is True:
            n_skip += 1
            ctx.require(not ext and not inner, "R17.3", "no-path-skip", "an event without paths reaches the next iteration without extending any accumulator", f.loc(f.line),
                        fail="an event without paths contributes to the summary")
        elif empty is False:
            n_take += 1
            ctx.require(ext == ["all_trunks"] and len(inner) == 1 and inner_ext == ["entry", "or_insert_with", "extend"], "R17.3", "pathed-contributes",
                        "a pathed event adds its trunks to the common-prefix input and its paths to the bucket of each of its kinds", f.loc(f.line),
                        detail="%s / %s" % (ext, inner_ext), fail="a pathed event no longer feeds both the common-prefix input and its kinds' buckets (%s / %s)" % (ext, inner_ext))
        else:
            ctx.violation("R17.3", "paths-tested", "an iteration does not test whether the event has paths", f.loc(f.line))
    ctx.require(n_skip >= 1 and n_take >= 1, "R17.3", "both-classes", "both event classes (with / without paths) occur", f.loc(f.line))
    # COMMON is set exactly when a common prefix exists
    n_c = 0
    for q in fps:
        some = None
        for e in q.ev:
            if e[0] == "iflet" and e[1] == "common_path":
                some = e[3] if "Some" in e[2] else (not e[3])
        ins = [[pathx.desc(a) for a in e[2]["a"]] for e in q.ev if e[0] == "call" and strip_generics(e[1]).endswith("HashMap::insert")]
        if some is None:
            continue
        n_c += 1
        if some:
            ctx.require(ins == [["res", "'COMMON'", "PathBuf::into_os_string(common_path)"]], "R17.5", "common-set", "COMMON is set to the common path when there is one",
                        f.loc(f.line), detail=str(ins), fail="COMMON is not set to the common prefix (%s)" % ins)
        else:
            ctx.require(not ins, "R17.5", "common-absent", "no COMMON without a common path", f.loc(f.line), detail=str(ins))
    ctx.floor("R17.5", "paths deciding COMMON", n_c, 2)
    # kinds only from Tag::FileEventKind
    fm = [c for c in facts.children(f) if c.thir and c.thir["params"][1:] and c.thir["params"][1]["ty"].endswith("event::Tag")]
    if len(fm) != 1:
        ctx.violation("R17.3", "floor:kind-filter", "the closure selecting kinds from tags was not found", f.loc(f.line))
    else:
        c = fm[0]
        somes = [n for n in thir.find(thir.root(c), "adt") if n["adt"] == "core::option::Option" and n["v"] == "Some"]
        pats = []
        for n in thir.walk(thir.root(c)):
            if n.get("k") == "letx":
                pats += thir.pattern_variants(n["p"])
            if n.get("k") == "match":
                for a in n["arms"]:
                    if thir.expr_value(a["b"])[0] == "v" and thir.expr_value(a["b"])[2] == "Some":
                        pats += thir.pattern_variants(a["p"])
        ctx.require(len(somes) == 1 and pats == ["FileEventKind"], "R17.3", "kinds-from-fek-tag",
                    "a kind is produced only for Tag::FileEventKind", c.loc(c.line), detail=str(pats),
                    fail="kinds are taken from tags other than FileEventKind (%s)" % pats)

    # ---- R17.7 common_prefix shortens the running prefix on every path that can need it
    try:
        cp = ctx.anchor_fn("R17.7", "watchexec::paths::common_prefix")
        enp = pathx.Enum(interesting=lambda d_: strip_generics(d_).endswith(("Vec::truncate", "Vec::len", "Iterator::zip")))
        outer = set()
        for q in enp.paths(thir.root(cp)):
            for e in q.ev:
                if e[0] == "loop" and e[2] == "for paths":
                    outer |= set(e[1])
        ctx.floor("R17.7", "per-path iterations of common_prefix", len(outer), 2)
        bad7 = []
        for it in outer:
            inner = [e for e in it if e[0] == "loop"]
            trunc = [[pathx.desc(a) for a in e[2]["a"]] for e in it if e[0] == "call" and strip_generics(e[1]).endswith("Vec::truncate")]
            counters = set()
            okin = len(inner) == 1
            for l in inner:
                for x in l[1]:
                    eq = None
                    for y in x:
                        if y[0] == "branch":
                            core, neg = pathx.split_not(y[1])
                            if core.startswith("PartialEq::ne(component_pair.0"):
                                eq = not (y[2] != neg)
                            elif core.startswith("PartialEq::eq(component_pair.0"):
                                eq = (y[2] != neg)
                    incs = [y for y in x if y[0] == "assign" and y[3].get("k") == "assignop" and y[3].get("op") == "AddAssign" and y[2] == "1"]
                    brk = ("loop-break",) in x
                    if eq is True:
                        okin = okin and len(incs) == 1 and not brk
                        counters |= {y[1] for y in incs}
                    elif eq is False:
                        okin = okin and not incs and brk
                    else:
                        okin = False
            cnt = list(counters)[0] if len(counters) == 1 else None
            if not okin or cnt is None:
                bad7.append("the shared-prefix count is not `0, +1 per equal pair, stop at the first unequal pair`: " + pathx.show_events(it)[:200])
                continue
            same_len = any(e[0] == "branch" and (implies(e[1], e[2], "%s Ne Vec::len(longest_path)" % cnt, False) or implies(e[1], e[2], "%s Eq Vec::len(longest_path)" % cnt, True)) for e in it)
            if trunc:
                if trunc != [["longest_path", cnt]]:
                    bad7.append("the prefix is cut to %s, not to the shared-prefix count" % trunc)
            elif not same_len:
                bad7.append("the prefix is kept although nothing establishes that the whole of it is shared with this path: " + pathx.show_events([e for e in it if e[0] == "branch"])[:160])
        inits = [pathx.desc(st["i"]) for st in thir.walk(thir.root(cp)) if isinstance(st, dict) and st.get("k") == "let" and st["p"].get("k") == "bind" and st["p"].get("n") == "greatest_distance"
                 and isinstance(st.get("i"), dict)]
        ctx.require(not bad7 and inits == ["0"], "R17.7", "prefix-cut-on-every-path", "each further path cuts the running prefix to their shared leading components", cp.loc(cp.line),
                    detail="; ".join(bad7)[:400] + " init=%s" % inits,
                    fail="common_prefix can keep a prefix that a later path does not share (e.g. when that path is a strict ancestor): COMMON is then deeper than some reported "
                         "path - " + "; ".join(bad7)[:240])
    except Skip:
        pass

    # ---- R17.8 emission plumbing
    try:
        emission_plumbing(ctx, "R17.8")
    except Skip:
        pass
    try:
        json_lines(ctx, "R17.8")
    except Skip:
        pass

    # every batch installs its own hook before anything of it can spawn: a start / busy decision never runs with the previous batch's hook
    try:
        hh17 = ctx.anchor_one("R17.8", "CLI action handler coroutine", [f_ for f_ in facts.fns_matching(r"^watchexec_cli::config::make_config::") if f_.kind == "coroutine"
                                                                        and any(t.callee.is_("Handler::get_or_create_job") for _, t in f_.calls())])
        en17 = pathx.Enum(interesting=lambda d_: strip_generics(d_).endswith(("Job::set_spawn_hook", "Job::run_async", "Job::start", "Job::restart", "Job::restart_with_signal", "Job::run")), max_paths=200000)
        bad17 = []
        n17 = 0
        for q in en17.paths(thir.root(hh17)):
            names = [strip_generics(e[1]).split("::")[-1] for e in q.ev if e[0] == "call"]
            if not names:
                continue
            n17 += 1
            if names[0] != "set_spawn_hook" or names.count("set_spawn_hook") != 1:
                bad17.append(str(names))
        ctx.require(n17 >= 10 and not bad17, "R17.8", "hook-per-batch", "on every handler path the batch's spawn hook is installed, unconditionally, before the job is started or asked to decide",
                    hh17.loc(hh17.line), detail=str(sorted(set(bad17)))[:300],
                    fail="the CLI handler can start or restart the command for a batch without having installed that batch's spawn hook (%s): the command is handed the previous batch's paths" % str(sorted(set(bad17)))[:200])
    except Skip:
        pass

    # the CLI hands the summary over from its spawn hook: every spawn must have run the hook (rule shared with C09 R09.2 / C18 R18.4)
    try:
        from .. import jobtask as _jt17, jobrules as _jr17
        B17 = _jt17.Bodies(ctx, "R17.8")
        _jr17.hook_discipline(ctx, B17, rule="R17.8")
        _jr17.check_api_table(ctx, "R17.8")     # set_spawn_hook is queued in order with the Start it precedes
    except Skip:
        pass

    # ---- R17.6 rotate-before-write
    try:
        rt = ctx.anchor_fn("R17.6", "watchexec_cli::state::RotatingTempFile::rotate")
        n_ok = 0
        badr = []
        for q in pathx.Enum().paths(thir.root(rt)):
            if q.out in ("val", "ret") and (q.val or "").startswith("Ok"):
                n_ok += 1
                stores = [e for e in q.ev if e[0] == "assign" and "self.0" in e[1] and e[2].startswith("Some{0: ") and ("NamedTempFile::new" in e[2] or "IntoDiagnostic::into_diagnostic(if)?" in e[2] or "file" in e[2])]
                fresh = any(e[0] == "call" and strip_generics(e[1]).endswith(("NamedTempFile::new", "NamedTempFile::new_in")) for e in q.ev)
                if not (stores and fresh):
                    badr.append(pathx.show_events([e for e in q.ev if e[0] != "call"])[-200:])
        ctx.require(n_ok >= 1 and not badr, "R17.6", "rotate-ok-means-fresh", "rotate() returns Ok only on paths that created a temp file and stored it in place of the old one",
                    rt.loc(rt.line), detail="; ".join(badr)[:300],
                    fail="RotatingTempFile::rotate can return Ok while the previous batch's file is still in place: the next batch is appended after stale lines (" + "; ".join(badr)[:160] + ")")
        for em in ("emit_events_to_file", "emits_to_file", "emits_to_json_file"):
            fn_ = facts.find_fn("watchexec_cli::emits::" + em)
            if fn_ is None:
                continue
            names_ = [(strip_generics(c).split("::")[-1], nd.get("l")) for c, nd in thir.calls_in(thir.root(fn_)) if strip_generics(c).endswith(("RotatingTempFile::rotate", "RotatingTempFile::write"))]
            ok_ = [n for n, _ in names_][:1] == ["rotate"] and "write" in [n for n, _ in names_]
            ctx.require(ok_, "R17.6", "rotate-then-write:" + em, "%s rotates before it writes" % em, fn_.loc(fn_.line), detail=str(names_))
    except Skip:
        pass

    # ---- R17.4 line format loop nest (THIR paths: events > paths > kinds, one line per pair, nothing ends a loop early)
    try:
        sf = ctx.anchor_fn("R17.4", "watchexec_cli::emits::events_to_simple_format")
        en4 = pathx.Enum(interesting=lambda d_: strip_generics(d_).endswith(("Write::write_fmt", "Vec::is_empty")))
        evl = set()
        for q in en4.paths(thir.root(sf)):
            for e in q.ev:
                if e[0] == "loop" and e[2] == "for events":
                    evl |= set(e[1])
        ctx.floor("R17.4", "per-event iterations of events_to_simple_format", len(evl), 1)
        bad4 = []
        n_kind = n_other = 0
        for it in evl:
            if ("loop-break",) in it:
                bad4.append("the event loop stops early")
            pl = [e for e in it if e[0] == "loop"]
            if len(pl) != 1 or not pl[0][2].startswith("for Iterator::map(Event::paths(event)"):
                bad4.append("no single loop over the event's paths (%s)" % [e[2] for e in pl])
                continue
            top_w = [e for e in it if e[0] == "call" and strip_generics(e[1]).endswith("Write::write_fmt")]
            if top_w:
                bad4.append("a line is written outside the per-path loop")
            for pit in pl[0][1]:
                nokind = None
                for e in pit:
                    if e[0] == "branch":
                        if implies(e[1], e[2], "Vec::is_empty(feks)", True):
                            nokind = True
                        elif implies(e[1], e[2], "Vec::is_empty(feks)", False):
                            nokind = False
                w_here = [e for e in pit if e[0] == "call" and strip_generics(e[1]).endswith("Write::write_fmt")]
                kl = [e for e in pit if e[0] == "loop"]
                brk = ("loop-break",) in pit
                if brk:
                    bad4.append("the path loop stops at a path (%s): the remaining paths of the event get no line" % ("kind-less event" if nokind else "event with kinds"))
                if nokind is True:
                    n_other += 1
                    if len(w_here) != 1 or kl:
                        bad4.append("a kind-less pathed event writes %d line(s) per path and %s the kinds loop" % (len(w_here), "enters" if kl else "skips"))
                elif nokind is False:
                    n_kind += 1
                    okk = len(kl) == 1 and kl[0][2] == "for feks" and not w_here
                    if okk:
                        for kit in kl[0][1]:
                            wk = [e for e in kit if e[0] == "call" and strip_generics(e[1]).endswith("Write::write_fmt")]
                            if len(wk) != 1 or ("loop-break",) in kit:
                                okk = False
                    if not okk:
                        bad4.append("an event with kinds does not write exactly one line per (path, kind)")
                else:
                    bad4.append("a path iteration does not test whether the event has kinds")
        ctx.require(not bad4 and n_kind >= 1 and n_other >= 1, "R17.4", "line-per-path-and-kind", "one line per (event, path, kind); one `other:` line per path of a kind-less event; "
                    "loops nest events > paths > kinds and none is left early", sf.loc(sf.line), detail="; ".join(sorted(set(bad4)))[:400],
                    fail="the line format no longer writes one line per (event, path, kind): " + "; ".join(sorted(set(bad4)))[:300])
    except Skip:
        pass
