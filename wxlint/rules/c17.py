"""C17 - path summaries handed to commands (kind tables, sort/dedup, skip rules).

The path algebra (common prefix, strip/join round trip over all paths) is value-level and NOT decided.
"""
import re

from .. import thir
from ..cfg import CFG, call_sites
from ..origin import origins, VALUE_CALLS
from ..report import Skip

ALT_CONFIGS = []


def doc_table(doc):
    """- `VAR` -> `Pat`, `Pat` lines of summarise_events_to_env's doc comment"""
    rows = {}
    other = None
    for line in doc.splitlines():
        m = re.match(r"\s*-\s*`([A-Z_]+)`\s*->\s*(.*)$", line)
        if not m:
            continue
        var, rest = m.group(1), m.group(2)
        pats = re.findall(r"`([^`]+)`", rest)
        if pats:
            rows[var] = pats
        elif "anything else" in rest:
            other = var
    return rows, other


def doc_pat_matches(pat, val):
    """`Modify(Data(_))` style pattern against an enumerated value"""
    pat = pat.strip()
    if pat == "_":
        return True
    m = re.match(r"^(\w+)(?:\((.*)\))?$", pat)
    if not m or val[0] != "v":
        return False
    if m.group(1) != val[2]:
        return False
    inner = m.group(2)
    fs = list(val[3].values())
    if inner is None:
        return not fs
    if not fs:
        return False
    return doc_pat_matches(inner, fs[0])


def kebab(name):
    return re.sub(r"(?<!^)(?=[A-Z])", "-", name).lower()


def run(ctx):
    facts = ctx.facts
    ctx.level = "other"
    ctx.undecided = ("the path algebra - common_prefix being the longest common directory, strip_prefix/join giving back the "
                     "original path for all path shapes, a path equal to the prefix - is value-level and not decided statically; "
                     "HashSet/sort semantics are trusted.")
    ctx.rule("R17.1", "for every value of FileEventKind (41, enumerated) the variable chosen by summarise_events_to_env equals the "
                      "row of the table in its own doc comment; the simple-format label of every kind equals the kebab-case name of "
                      "its FsEventKind (the JSON `simple` name) - sibling tables agree")
    ctx.rule("R17.2", "each variable's entries are collected in a HashSet (de-duplicated) and sorted (slice::sort) before the join; "
                      "the sort dominates the join loop")
    ctx.rule("R17.3", "an event without paths contributes nothing (the is_empty edge reaches the next loop iteration without touching "
                      "any accumulator); kinds are taken only from Tag::FileEventKind")
    ctx.rule("R17.4", "the line format writes one line per (event, path, kind) in nested loop order events > paths > kinds, and a "
                      "pathed event without kind yields exactly one `other:` line per path")

    try:
        f = ctx.anchor_fn("R17.1", "watchexec::paths::summarise_events_to_env")
    except Skip:
        return
    root = thir.root(f)
    # ---- R17.1 env variable table
    ms = [m for m in thir.find(root, "match") if m["src"] == "Normal" and "EventKind" in m["sty"]]
    if len(ms) != 1:
        ctx.violation("R17.1", "floor:shape:kind-match", "expected one match over the event kind, found %d" % len(ms), f.loc(f.line))
    else:
        m = ms[0]
        fek = m["sty"].lstrip("&")
        vals = thir.enum_values(facts, fek, depth=4)
        ctx.floor("R17.1", "FileEventKind values", len(vals), 41)
        rows, other = doc_table(f.doc)
        ctx.floor("R17.1", "doc table rows", len(rows) + (1 if other else 0), 6)
        for v in vals:
            name = thir.debug_render(v)
            i = thir.first_arm(m, v)
            if i is None:
                ctx.incomplete("R17.1", "env-var:" + name, "undetermined arm", f.loc(m["l"]))
                continue
            got = thir.expr_value(m["arms"][i]["b"])
            got = got[1] if got[0] == "s" else None
            want = [var for var, pats in rows.items() if any(doc_pat_matches(p, v) for p in pats)]
            want = want[0] if len(want) == 1 else (other if not want else None)
            ctx.require(got is not None and got == want, "R17.1", "env-var:" + name,
                        "%s is reported in %s as documented" % (name, got), f.loc(m["arms"][i]["l"]),
                        fail="%s is reported in %s but the documented variable is %s" % (name, got, want))
    # simple-format labels vs FsEventKind names
    try:
        sf = ctx.anchor_fn("R17.1", "watchexec_cli::emits::events_to_simple_format")
        conv = ctx.anchor_one("R17.1", "<FsEventKind as From<EventKind>>::from",
                              [x for x in facts.fns_matching(r"From<.*EventKind> for watchexec_events::serde_formats::FsEventKind>::from$|FsEventKind as core::convert::From<.*EventKind>>::from$")])
        ms2 = [m for m in thir.find(thir.root(sf), "match") if m["src"] == "Normal" and "EventKind" in m["sty"]]
        lab = [m for m in ms2 if all(thir.expr_value(a["b"])[0] == "s" for a in m["arms"])]
        cm = [m for m in thir.find(thir.root(conv), "match") if m["src"] == "Normal"]
        if len(lab) != 1 or len(cm) != 1:
            ctx.violation("R17.1", "floor:shape:simple-format", "label table or FsEventKind conversion table not found", sf.loc(sf.line))
        else:
            lab, cm = lab[0], cm[0]
            fek = cm["sty"].lstrip("&")
            for v in thir.enum_values(facts, fek, depth=4):
                name = thir.debug_render(v)
                i, j = thir.first_arm(lab, v), thir.first_arm(cm, v)
                if i is None or j is None:
                    ctx.incomplete("R17.1", "label:" + name, "undetermined arm", sf.loc(lab["l"]))
                    continue
                label = thir.expr_value(lab["arms"][i]["b"])[1]
                simple = thir.expr_value(cm["arms"][j]["b"])
                simple = kebab(simple[2]) if simple[0] == "v" else None
                ctx.require(label == simple, "R17.1", "label:" + name,
                            "line-format label %r equals the JSON simple kind %r" % (label, simple), sf.loc(lab["arms"][i]["l"]),
                            fail="line-format label for %s is %r but the JSON `simple` kind is %r" % (name, label, simple))
    except Skip:
        pass

    # ---- R17.2 sort + dedup
    subs = facts.descendants(f)
    sorters = []
    for c in subs:
        ctx.saw_fn(c)
        ss = call_sites(c, "slice::<impl [T]>::sort", "<impl [T]>::sort")
        if ss:
            sorters.append((c, ss))
    if len(sorters) != 1:
        ctx.violation("R17.2", "floor:sort", "expected exactly one closure sorting the entries, found %d: entries are no longer byte-sorted" % len(sorters), f.loc(f.line))
    else:
        c, ss = sorters[0]
        cfg = CFG(c)
        ptys = [p["ty"] for p in c.thir["params"][1:]]
        ctx.require(any("HashSet<std::ffi::os_str::OsString>" in t for t in ptys), "R17.2", "dedup-hashset",
                    "the entries of one variable arrive as a HashSet<OsString>", c.loc(c.line), detail=str(ptys),
                    fail="entries are no longer collected in a set: duplicates can appear in a variable")
        joins = call_sites(c, "core::iter::traits::iterator::Iterator::for_each")
        ctx.floor("R17.2", "join loop (for_each)", len(joins), 1)
        for bi, t in joins:
            ctx.require(cfg.dominates(ss[0][0], bi), "R17.2", "sort-before-join", "sort() dominates the join loop", c.loc(t.line),
                        fail="the join can run on unsorted entries")
            # the iterated vec is the sorted vec
            sort_src = {a.key() for a in origins(c, ss[0][1].args[0], VALUE_CALLS + ("core::ops::deref::DerefMut::deref_mut",))}
            it_src = set()
            for a in origins(c, t.args[0], VALUE_CALLS + ("core::iter::traits::iterator::Iterator::enumerate",)):
                it_src.add(a.key())
            ctx.require(bool(sort_src & it_src), "R17.2", "sort-same-vec", "the joined sequence is the sorted vector", c.loc(t.line),
                        detail="%s vs %s" % (sorted(map(str, sort_src)), sorted(map(str, it_src))))
        # entries pushed with the separator only between elements: i > 0
        inner = [x for x in facts.children(c)]
        sep = False
        for x in inner:
            for n in thir.find(thir.root(x), "bin"):
                if n["op"] == "Gt" and thir.peel(n["b"]).get("i") == 0:
                    sep = True
        ctx.require(sep, "R17.2", "separator-between", "the separator is written only between entries (i > 0)", c.loc(c.line))

    # ---- R17.3 skip rules
    cfg = CFG(f)
    emp = [(bi, t) for bi, t in call_sites(f, "alloc::vec::Vec::is_empty") if "PathBuf" in (t.callee.full or "") or True]
    emp = [(bi, t) for bi, t in emp if t.mac == 0]
    ctx.floor("R17.3", "paths.is_empty() test", len(emp), 1)
    nexts = [bi for bi, t in call_sites(f, "core::iter::traits::iterator::Iterator::next")]
    acc = call_sites(f, "core::iter::traits::collect::Extend::extend")
    ctx.floor("R17.3", "accumulator extend sites", len(acc), 3)
    for bi, t in emp[:1]:
        sw = f.blocks[t.target].term
        if sw.kind != "switch":
            ctx.incomplete("R17.3", "no-path-skip", "is_empty() result is not branched on directly", f.loc(t.line))
            continue
        true_t = sw.otherwise
        reach = cfg.reachable_from(true_t, avoid=nexts)
        touched = [b2 for b2, _ in acc if b2 in reach]
        ctx.require(not touched, "R17.3", "no-path-skip",
                    "an event without paths reaches the next iteration without extending any accumulator", f.loc(t.line),
                    fail="an event without paths contributes to the summary")
        # and the false edge does reach them
        false_t = [tt for v, tt in sw.cases if v == 0]
        ctx.require(bool(false_t) and any(b2 in cfg.reachable_from(false_t[0], avoid=nexts[:1]) for b2, _ in acc), "R17.3",
                    "pathed-contributes", "a pathed event reaches the accumulators", f.loc(t.line))
    # kinds only from Tag::FileEventKind
    fm = [c for c in facts.children(f) if c.thir and c.thir["params"][1:] and c.thir["params"][1]["ty"].endswith("event::Tag")]
    if len(fm) != 1:
        ctx.violation("R17.3", "floor:kind-filter", "the closure selecting kinds from tags was not found", f.loc(f.line))
    else:
        c = fm[0]
        somes = [n for n in thir.find(thir.root(c), "adt") if n["adt"] == "core::option::Option" and n["v"] == "Some"]
        pats = []
        for n in thir.walk(thir.root(c)):
            if n.get("k") == "letx":
                pats += thir.pattern_variants(n["p"])
            if n.get("k") == "match":
                for a in n["arms"]:
                    if thir.expr_value(a["b"])[0] == "v" and thir.expr_value(a["b"])[2] == "Some":
                        pats += thir.pattern_variants(a["p"])
        ctx.require(len(somes) == 1 and pats == ["FileEventKind"], "R17.3", "kinds-from-fek-tag",
                    "a kind is produced only for Tag::FileEventKind", c.loc(c.line), detail=str(pats),
                    fail="kinds are taken from tags other than FileEventKind (%s)" % pats)

    # ---- R17.4 line format loop nest
    try:
        sf = ctx.anchor_fn("R17.4", "watchexec_cli::emits::events_to_simple_format")
        cfg = CFG(sf)
        writes = call_sites(sf, "core::fmt::Write::write_fmt")
        ctx.floor("R17.4", "writeln! sites", len(writes), 2)
        nxt = call_sites(sf, "core::iter::traits::iterator::Iterator::next")
        ctx.floor("R17.4", "loops (events, paths, kinds)", len(nxt), 3)
        if len(nxt) >= 3 and len(writes) >= 2:
            nb = sorted(bi for bi, _ in nxt)
            # nesting by dominance: events.next dominates paths.next dominates kinds.next
            order = sorted(nb, key=lambda b: len(cfg.dominators_of(b)))
            ev, pa, ki = order[0], order[1], order[2]
            tys = {bi: t.callee.full for bi, t in nxt}
            ctx.require("Event" in tys[ev] and cfg.dominates(ev, pa) and cfg.dominates(pa, ki), "R17.4", "loop-nest",
                        "loops nest events > paths > kinds", sf.loc(sf.line), detail=str([tys[ev][:80], tys[pa][:80], tys[ki][:80]]))
            kind_w = [b for b, _ in writes if cfg.dominates(ki, b)]
            other_w = [b for b, _ in writes if not cfg.dominates(ki, b)]
            ctx.require(len(kind_w) == 1 and len(other_w) == 1, "R17.4", "one-write-per-pair",
                        "one write inside the kinds loop, one `other:` write for kind-less events", sf.loc(sf.line))
            if other_w:
                emp = call_sites(sf, "alloc::vec::Vec::is_empty")
                okg = False
                for bi, t in emp:
                    sw = sf.blocks[t.target].term
                    if sw.kind == "switch":
                        false_t = [tt for v, tt in sw.cases if v == 0][0]
                        if not cfg.reaches(false_t, other_w[0], avoid=[pa]) and cfg.reaches(sw.otherwise, other_w[0], avoid=[pa]):
                            okg = True
                        # and after the other-write the kinds loop is skipped for this path
                        if okg:
                            okg = not cfg.reaches(other_w[0], ki, avoid=[pa])
                ctx.require(okg, "R17.4", "other-only-when-no-kind",
                            "the `other:` line is written only when the event has no kind, and then the kinds loop is skipped", sf.loc(sf.line))
    except Skip:
        pass
