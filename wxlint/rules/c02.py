"""C02 - debounce: one action per window, never before the window has elapsed; urgent flushes."""
from .. import thir, pathx, throttle
from ..facts import strip_generics
from ..report import Skip

THROTTLE_GET = ("Changeable::get(config.throttle)", "Changeable::get(^config.throttle)")


def desc_arg(e, i):
    return pathx.desc(e[2]["a"][i]) if i < len(e[2]["a"]) else "?"


def timespan_parse(ctx, rule):
    """TimeSpan::from_str: a bare number n means n * MULTIPLIER nanoseconds, anything else goes to humantime (shared with C06 / C05)"""
    fs_ = ctx.anchor_one(rule, "TimeSpan::from_str", [f for f in ctx.facts.fns_matching(r"watchexec_cli::args::TimeSpan<.*FromStr>::from_str$")])
    cls = [c for c in ctx.facts.children(fs_) if c.kind == "closure"]
    unitful = [c for c in cls if pathx.desc(thir.peel(thir.root(c))).replace("^", "") == "duration::parse_duration(s)"]
    unitless = []
    for c in cls:
        for cd, nd in thir.calls_in(thir.root(c)):
            if strip_generics(cd).endswith("Duration::from_nanos"):
                unitless.append(pathx.desc(nd["a"][0]))
    # `n * MULTIPLIER` wraps around in a release build (and panics in a debug build) for large n: the product has to saturate
    okm = unitless in (["num::saturating_mul(unitless, constparam)"], ["num::saturating_mul(constparam, unitless)"])
    plain = unitless in (["unitless Mul constparam"], ["constparam Mul unitless"])
    ctx.require(len(unitful) == 1 and (okm or plain), rule, "timespan-parse", "TimeSpan parses `n` as n * MULTIPLIER ns and anything else with humantime", fs_.loc(fs_.line),
                detail="%s / %d" % (unitless, len(unitful)), fail="TimeSpan::from_str no longer computes unit-less values as n * MULTIPLIER nanoseconds (%s)" % unitless)
    if len(unitful) == 1 and (okm or plain):
        ctx.require(okm, rule, "timespan-no-wrap", "the product n * MULTIPLIER saturates: a huge unit-less span stays huge", fs_.loc(fs_.line), detail=str(unitless),
                    fail="TimeSpan::from_str multiplies with the wrapping/panicking `*`: `--stop-timeout 18446744074` becomes a grace period of 0.29 s in a release "
                         "build (the command is force-killed almost at once) and `--debounce` wraps the same way")



def run(ctx):
    ctx.level = "other"
    ctx.undecided = ("accuracy of tokio's timer and scheduler latency: 'no earlier than' and 'bounded delay' are decided as guard structure "
                     "(which comparisons release a batch, from which fresh values), not as wall-clock measurements.")
    ctx.rule("R02.1", "window start: `last` is assigned only when the set is empty, and whenever an accepted event finds the set empty the window "
                      "start is (re)set to Instant::now() before the push - later events never move it")
    ctx.rule("R02.2", "release guard: every feasible iteration path that returns a batch crosses (a) the event-is-urgent edge after the push, or "
                      "(b) the false edge of `last.elapsed() < throttle.get()`, or (c) the is_zero edge of `throttle.get().saturating_sub(last.elapsed())` "
                      "with a non-empty set; there is no other way out")
    ctx.rule("R02.3", "urgent bypass: an urgent event is pushed without filtering and the batch returns in the same iteration, without another recv; the priority an event carries is the one its source documents (Interrupt/Terminate urgent, other signals high, keyboard/fs normal) and send_event() queues with the caller's priority")
    ctx.rule("R02.4", "fresh throttle: every comparison that can release or hold a batch reads config.throttle.get() in the same iteration")
    ctx.rule("R02.5", "bounded wait: the recv timeout is the remaining window computed in the same iteration, so a stream of rejected events "
                      "re-enters the loop head with a shrinking bound and leaves through (c)")
    ctx.rule("R02.7", "CLI plumbing of the window: --debounce is a TimeSpan whose unit-less values are milliseconds (multiplier 1_000_000 ns, "
                      "applied as unitless * MULTIPLIER nanoseconds; values with a unit go through humantime), and make_config passes exactly that "
                      "duration to Config::throttle")
    ctx.rule("R02.6", "Priority is declared Low < Normal < High < Urgent with derived PartialOrd/Ord")
    try:
        f, loop, its, nraw = throttle.model(ctx, "R02.2")
    except Skip:
        its = None
    if its is not None:
        loc = f.loc(f.line)
        ctx.floor("R02.2", "feasible iteration paths", len(its), 24)
        n_rel = 0
        for it in its:
            cls = throttle.classify(it) or "no-event"
            first = bool(it.branches("Vec::is_empty(set)")) and it.branches("Vec::is_empty(set)")[0][1][2]
            key = "%s:%s:%s" % (cls, "first" if first else "later", it.out + ("!" if it.out == "ret" and "Some" in (it.val or "") else ""))
            # ---- R02.1
            for i, e in enumerate(it.ev):
                if e[0] == "assign" and e[1] == "last":
                    prev = [b for j, b in enumerate(it.ev) if j < i and b[0] == "branch" and throttle.implies(b[1], b[2], "Vec::is_empty(set)", True)]
                    pushed_before = any(ev[0] == "call" and strip_generics(ev[1]).endswith("Vec::push") for ev in it.ev[:i])
                    ok = bool(prev) and not pushed_before and e[2] == "Instant::now()"
                    ctx.require(ok, "R02.1", "last-only-when-empty:" + key, "`last` is reset to now only while the set is empty", loc,
                                fail="the debounce window start is moved while events are already pending (or to something other than now)", detail=it.show())
            pushes = [i for i, e in enumerate(it.ev) if e[0] == "call" and strip_generics(e[1]).endswith("Vec::push")]
            if pushes:
                pi = pushes[0]
                i0 = throttle.recv_arm(it) or 0
                brs = [(j, e) for j, e in enumerate(it.ev) if e[0] == "branch" and j < pi]
                known_nonempty = any(throttle.implies(e[1], e[2], "Vec::is_empty(set)", False) for j, e in brs)
                reset = [j for j, e in enumerate(it.ev) if i0 < j < pi and e[0] == "assign" and e[1] == "last" and e[2] == "Instant::now()"]
                ctx.require(known_nonempty or bool(reset), "R02.1", "first-event-starts-window:" + key,
                            "an accepted event that may be the first of its batch starts the window (last = now) before it is pushed", loc, detail=it.show(),
                            fail="the first accepted event of a batch does not (always) restart the debounce window: the batch can be released "
                                 "earlier than the throttle after its first event")
            # ---- R02.2 / R02.3 / R02.4
            if it.out == "ret" and "Some" in (it.val or ""):
                n_rel += 1
                urgent_after_push = False
                if pushes:
                    urgent_after_push = any(j > pushes[0] and e[0] == "branch" and throttle.implies(e[1], e[2], throttle.URGENT, True)
                                            for j, e in enumerate(it.ev))
                lt = [(j, b) for j, b in it.branches("PartialOrd::lt(Instant::elapsed(last), ")]
                lt_ok = False
                for j, b in lt:
                    if b[2] is False and any(b[1] == "PartialOrd::lt(Instant::elapsed(last), %s)" % g for g in THROTTLE_GET):
                        # elapsed = last.elapsed() in this iteration, after the push
                        el = [k for k, e in enumerate(it.ev) if k < j and e[0] == "call" and strip_generics(e[1]).endswith("Instant::elapsed") and desc_arg(e, 0) == "last"]
                        lt_ok = bool(el) and (not pushes or el[-1] > pushes[0])
                zero = [(j, b) for j, b in it.branches("Duration::is_zero(maxtime)") if b[2] is True]
                zero_ok = False
                if zero:
                    j = zero[0][0]
                    ss = [e for e in it.ev[:j] if e[0] == "call" and strip_generics(e[1]).endswith("Duration::saturating_sub")]
                    zero_ok = len(ss) == 1 and desc_arg(ss[0], 0) in THROTTLE_GET and desc_arg(ss[0], 1) == "Instant::elapsed(last)" \
                        and not it.branches("Vec::is_empty(set)")[0][1][2]
                ways = [n for n, okk in (("urgent", urgent_after_push), ("window-elapsed", lt_ok), ("window-expired-on-recycle", zero_ok)) if okk]
                ctx.require(bool(ways), "R02.2", "release:" + key, "batch released through %s" % ways, loc, detail=it.show(),
                            fail="a batch can be handed to the action handler without the window having elapsed and without an urgent event")
                if cls == "urgent":
                    recvs = it.calls("Receiver::recv")
                    ctx.require(len(recvs) == 1 and not it.calls("Filterer::check_event"), "R02.3", "urgent-immediate:" + key,
                                "an urgent event flushes the batch in the same iteration, unfiltered", loc)
                if cls in ("empty", "pass", "bypass") and not urgent_after_push:
                    ctx.require(lt_ok or zero_ok, "R02.2", "non-urgent-waits:" + key, "a non-urgent event releases the batch only through a window comparison", loc,
                                detail=it.show(), fail="a non-urgent event flushes the batch immediately")
            # every hold/release decision reads the throttle freshly
            for j, b in it.branches("PartialOrd::lt("):
                ctx.require(any(g in b[1] for g in THROTTLE_GET), "R02.4", "fresh-throttle-compare:" + key,
                            "the in-window comparison reads config.throttle.get() at that moment", loc, detail=b[1],
                            fail="the window comparison uses a throttle value read earlier (%s): a run-time change of the throttle is not honoured" % b[1])
            # a continue after an accepted push must be justified by the in-window comparison
            if it.out == "cont" and pushes:
                lt_true = [b for j, b in it.branches("PartialOrd::lt(Instant::elapsed(last), ") if b[2] is True and j > pushes[0]]
                ctx.require(bool(lt_true), "R02.2", "hold:" + key, "a batch is held back only because the window has not elapsed", loc, detail=it.show(),
                            fail="an accepted event is held back for a reason other than the window comparison")
            # R02.5 timeout argument
            for e in it.calls("tokio::time::timeout::timeout"):
                ctx.require(desc_arg(e, 0) == "maxtime", "R02.5", "timeout-is-remaining-window:" + key, "recv is bounded by `maxtime`", loc,
                            fail="the wait for the next event is bounded by %s, not by the remaining window" % desc_arg(e, 0))
            if it.calls("tokio::time::timeout::timeout") and not it.branches("Vec::is_empty(set)")[0][1][2]:
                ss = it.calls("Duration::saturating_sub")
                ok = len(ss) == 1 and desc_arg(ss[0], 0) in THROTTLE_GET and desc_arg(ss[0], 1) == "Instant::elapsed(last)"
                ctx.require(ok, "R02.5", "remaining-window-fresh:" + key, "with a pending batch the bound is throttle.get() - last.elapsed(), computed in this iteration", loc,
                            detail=it.show(), fail="with events pending, the wait for the next event is not bounded by the remaining window")
        ctx.floor("R02.2", "batch-release paths", n_rel, 7)
        # maxtime is defined once per iteration by the `let` at the loop head
        lets = [s for s in loop["e"].get("s", []) if isinstance(s, dict) and s.get("k") == "let" and s["p"].get("n") == "maxtime"]
        ctx.require(len(lets) == 1, "R02.5", "maxtime-per-iteration", "`maxtime` is (re)computed at the head of every iteration", loc,
                    fail="`maxtime` is not recomputed in every iteration of the collect loop")
    # ---- R02.7
    try:
        ea = ctx.facts.find_adt("watchexec_cli::args::events::EventsArgs")
        fld = [f for f in (ea["variants"][0]["fields"] if ea else []) if f["name"] == "debounce"]
        ctx.require(bool(fld) and fld[0]["ty"] == "watchexec_cli::args::TimeSpan<1000000>", "R02.7", "debounce-unit", "--debounce is TimeSpan<1_000_000>: unit-less = milliseconds",
                    detail=fld[0]["ty"] if fld else "", fail="the --debounce argument no longer reads unit-less values as milliseconds (%s)" % (fld[0]["ty"] if fld else "field missing"))
        timespan_parse(ctx, "R02.7")
        thr = []
        for f2 in ctx.facts.fns_matching(r"^watchexec_cli::config::make_config"):
            for cd, nd in thir.calls_in(thir.root(f2)):
                if strip_generics(cd).endswith("Config::throttle"):
                    thr.append([pathx.desc(a).replace("^", "") for a in nd["a"]])
        ctx.require(thr == [["config", "args.events.debounce.0"]], "R02.7", "debounce-to-throttle", "make_config sets the throttle to the parsed --debounce value",
                    detail=str(thr), fail="the configured debounce does not reach Config::throttle unchanged: %s" % thr)
        # ... in every mode: each way make_config returns a configuration has passed the throttle call
        mk2 = ctx.anchor_fn("R02.7", "watchexec_cli::config::make_config")
        n_ok2 = 0
        missing2 = []
        for q in pathx.Enum(interesting=lambda d_: strip_generics(d_).startswith("watchexec::config::Config::"), max_paths=200000).paths(thir.root(mk2)):
            if q.out in ("ret", "val") and (q.val or "").startswith("Ok{"):
                n_ok2 += 1
                names2 = [strip_generics(e[1]).split("::")[-1] for e in q.ev if e[0] == "call"]
                if "throttle" not in names2:
                    missing2.append(names2)
        ctx.require(n_ok2 >= 2 and not missing2, "R02.7", "throttle-set-in-every-mode", "every configuration make_config returns (command mode and --only-emit-events) has the throttle set",
                    mk2.loc(mk2.line), detail=str(missing2)[:200],
                    fail="make_config can return a configuration without setting the throttle (calls on that path: %s): --debounce is ignored in that mode" % str(missing2)[:160])
    except Skip:
        pass

    # the throttle lives in a Changeable: a run-time change must actually be stored (R02.4 reads it freshly)
    try:
        from . import c13 as _c13p
        _c13p.changeable_primitives(ctx, "R02.4")
    except Skip:
        pass

    # every accepted event of the window is in the batch the handler gets: the worker only moves the collected set (rule shared with C01)
    try:
        from . import c01 as _c01b
        _c01b.batch_only_moved(ctx, "R02.2")
    except Skip:
        pass

    # which events are urgent is decided where they are queued: Interrupt / Terminate only; a synthetic event keeps the caller's priority (rules shared with C01)
    for fn_ in (_c01b.source_priorities, _c01b.synthetic_send):
        try:
            fn_(ctx, "R02.3")
        except Skip:
            pass

    # ---- R02.6
    P = "watchexec_events::event::Priority"
    adt = ctx.facts.find_adt(P)
    if adt is None:
        ctx.violation("R02.6", "floor:anchor:Priority", "Priority enum not found")
    else:
        names = [v["name"] for v in adt["variants"]]
        ctx.require(names == ["Low", "Normal", "High", "Urgent"], "R02.6", "priority-order", "variants are declared Low, Normal, High, Urgent",
                    detail=str(names), fail="Priority variants are declared %s: the derived ordering used by the queue changes" % names)
        for tr in ("PartialOrd", "Ord", "PartialEq"):
            d = ctx.facts.derived(P, tr)
            ctx.require(d is True, "R02.6", "derived:" + tr, "%s for Priority is derived" % tr,
                        fail="%s for Priority is %s" % (tr, "hand-written" if d is False else "missing"))

    # ---- R02.8 "urgent flushes": an urgent event must first be collected - the per-iteration classification owned by C01
    ctx.rule("R02.8", "an urgent event is pushed whatever the filter says about it (so that it can flush the pending batch)")
    ctx.borrow("C01", ["R01.1"], "R02.8", "every iteration of the collect loop is classified: urgent and empty events bypass the filter, a filter error only drops filtered events")

    ctx.rule("R02.9", "the window arithmetic cannot panic: no run-time duration is added to an Instant with the panicking operator (the remaining window is "
                      "computed with saturating_sub on durations; shared with R06.11)")
    try:
        from .. import jobrules as _jr
        _jr.no_panicking_instant_arith(ctx, "R02.9")
    except Skip:
        pass
