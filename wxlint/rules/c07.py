"""C07 - every control completes and every ticket resolves."""
from .. import jobtask, jobrules
from ..report import Skip
from ..facts import strip_generics


def run(ctx):
    ctx.level = "other"
    ctx.undecided = ("'promptly' in scheduler terms; task abortion (JoinHandle::abort) by design skips the job-gone flag; what user hooks do "
                     "(they receive shared references only).")
    ctx.rule("R07.1", "on every path of every Control arm (all try_with_handler error exits included) the message's completion flag is raised "
                      "after the control's effects, or - exactly when the handler defers completion (Loop::Skip) - handed to a holder "
                      "(grace timer, restart marker, wait-for-end list)")
    ctx.rule("R07.2", "whenever a holder gives up a flag (process-end handler taking the timer / restart marker / wait-for-end list, controls that end "
                      "the process) that flag is raised on every path; every write to a holder anywhere in the job task is of a modelled form")
    ctx.rule("R07.3", "every normal exit of the job task raises the job-gone flag, the main select! cannot panic with all branches disabled, and the exit-status conversion it runs on every process end has no failing unwrap")
    ctx.rule("R07.4", "Flag::raise stores then wakes; Flag::poll registers its waker and re-checks the flag before returning Pending")
    ctx.also("R07.4", "Flag::poll answers Ready only after loading the flag as set and never removes another task's waker")
    ctx.rule("R07.5", "no Clone future of the supervisor parks its waiter in a single-slot AtomicWaker shared between clones")
    ctx.rule("R07.7", "timer expiry re-injects the control through Timer::to_control (Stop / ContinueTryGracefulRestart with the timer's own flag) on both "
                      "expiry paths of recv, with the timer cleared (shared with R06.2 / R06.3)")
    ctx.rule("R07.6", "a Ticket selects over job-gone and control-done, shares the control's own flag, and is pre-resolved for a dead job")
    try:
        B = jobtask.Bodies(ctx, "R07.1")
        jobrules.message_flag(ctx, B)
        jobrules.holder_discipline(ctx, B)
        jobrules.flag_identity(ctx, B, "R07.2")     # `done` in a handler is the control's flag, never the same-named job-gone flag
        jobrules.task_exit(ctx, B)
        jobrules.recv_gating(ctx, B, "R07.7")
    except Skip:
        pass
    try:
        jobrules.timer_summaries(ctx, "R07.7")
    except Skip:
        pass
    try:
        # the job task converts every exit status it sees (CommandState::wait): that conversion has no failing unwrap
        facts = ctx.facts
        fns = [("<ProcessEnd as From<ExitStatus>>::from", r"watchexec_events::process::ProcessEnd as core::convert::From<std::process::ExitStatus>>::from$"),
               ("<Signal as From<i32>>::from", r"watchexec_signals::Signal as core::convert::From<i32>>::from$")]
        for label, rx in fns:
            f = ctx.anchor_one("R07.3", label, facts.fns_matching(rx))
            bad = sorted({strip_generics(t.callee.def_ or repr(t.callee)) for g in [f] + facts.descendants(f) for _, t in g.calls()
                          if t.callee.is_("Option::unwrap", "Option::expect", "Result::unwrap", "Result::expect", "Result::unwrap_err", "Result::expect_err")})
            ctx.require(not bad, "R07.3", "status-conversion-total:" + label, "%s has no unwrap/expect that can fail for some exit status" % label, f.loc(f.line), detail=str(bad),
                        fail="%s can panic inside the job task (%s): the task dies mid-control and its tickets are left to the drop path" % (label, bad))
    except Skip:
        pass
    for fn in (jobrules.wake_protocol, jobrules.multi_waiter, jobrules.ticket_shape, lambda c: jobrules.signal_child_rule(c, "R07.7"), lambda c: jobrules.callbox_table(c, "R07.7")):
        try:
            fn(ctx)
        except Skip:
            pass

    # ---- R07.8 to_wait() tickets: NextEnding resolves at once whenever nothing runs (effect table owned by C09)
    ctx.rule("R07.8", "a to_wait() ticket is either resolved immediately (nothing running) or queued for the process end - never queued with nothing to end")
    ctx.borrow("C09", ["R09.1"], "R07.8", "documented effect of every control in every state class", keys=["NextEnding"])

    ctx.rule("R07.9", "a control taken from its queue is not lost: PriorityReceiver::recv has no suspension point between receiving and returning it (shared with R10.7)")
    try:
        jobrules.recv_cancel_safe(ctx, "R07.9")
    except Skip:
        pass

    ctx.rule("R07.10", "the job task cannot be brought down by a duration: no run-time duration is added to an Instant with the panicking operator "
                       "(a panic in the job task skips the job-gone flag, so no outstanding ticket would ever resolve; shared with R06.11)")
    try:
        jobrules.no_panicking_instant_arith(ctx, "R07.10")
    except Skip:
        pass

    ctx.rule("R07.11", "each public Job method sends the documented controls at the documented priority: delete_now()'s Delete travels on the urgent queue, so it is read while a grace timer is armed")
    ctx.borrow("C10", ["R10.3"], "R07.11", "API priority table")
