"""C13 - watcher registration converges to the configured path set."""
from .. import thir, pathx
from ..cfg import CFG, call_sites
from ..facts import strip_generics
from ..origin import origins, VALUE_CALLS
from ..report import Skip

LIB = "watchexec"


def interesting(d):
    p = strip_generics(d)
    return not any(p.startswith(x) for x in ("core::clone::Clone::clone", "core::convert::", "core::ops::deref", "core::fmt",
                                             "core::pin::Pin::", "core::future::get_context", "core::future::into_future",
                                             "core::ops::try_trait", "core::convert::AsRef"))


def changeable_primitives(ctx, rule):
    """Changeable / ChangeableFn: replace stores (blocking write lock), get reads, new wraps (shared with C02: the throttle is a Changeable)"""
    facts = ctx.facts
    CH = "watchexec::changeable::"
    def _f(pat):
        return ctx.anchor_one(rule, pat, facts.fns_matching(pat))
    rp = _f(r"^watchexec::changeable::Changeable::<T>::replace$")
    with pathx.reading_through(thir.root(rp)):
        asg = [(pathx.desc(a["a"]), pathx.desc(a["b"])) for a in thir.find(thir.root(rp), "assign")]
    ctx.require(len(asg) == 1 and "RwLock::write(self.0)" in asg[0][0] and asg[0][1] == "new", rule, "changeable-replace-stores", "Changeable::replace stores the new value under the write lock",
                rp.loc(rp.line), detail=str(asg), fail="Changeable::replace no longer stores the new value (%s): configuration changes are signalled but never visible" % asg)
    gt = _f(r"^watchexec::changeable::Changeable::<T>::get$")
    with pathx.reading_through(thir.root(gt)):
        dg = pathx.desc(pathx.value_of(thir.root(gt)))
    ctx.require(dg.startswith("Clone::clone(") and "RwLock::read(self.0)" in dg, rule, "changeable-get-reads", "Changeable::get returns a clone of the stored value", gt.loc(gt.line), detail=dg)
    nw = _f(r"^watchexec::changeable::Changeable::<T>::new$")
    ctx.require(pathx.desc(thir.peel(thir.root(nw))) == "Changeable{0: Arc::new(RwLock::new(value))}", rule, "changeable-new", "Changeable::new wraps the given value", nw.loc(nw.line))
    fr = _f(r"^watchexec::changeable::ChangeableFn::<T, U>::replace$")
    rc = [[pathx.desc(a) for a in nd["a"]] for c, nd in thir.calls_in(thir.root(fr)) if strip_generics(c).endswith("Changeable::replace")]
    ctx.require(rc == [["self.0", "Arc::new(new)"]], rule, "changeablefn-replace-stores", "ChangeableFn::replace stores the new handler", fr.loc(fr.line), detail=str(rc),
                fail="ChangeableFn::replace does not store the new handler (%s): on_action / on_error / filterer replacements have no effect" % rc)
    fnw = _f(r"^watchexec::changeable::ChangeableFn::<T, U>::new$")
    ctx.require(pathx.desc(thir.peel(thir.root(fnw))) == "ChangeableFn{0: Changeable::new(Arc::new(f))}", rule, "changeablefn-new", "ChangeableFn::new wraps the given handler", fnw.loc(fnw.line))
    # clones share the cell: Changeable is an Arc (cloned as such), and cloning a ChangeableFn clones that Arc rather than snapshotting the current fn
    ad = facts.adts.get("watchexec::changeable::Changeable")
    fty = ad["variants"][0]["fields"][0]["ty"] if ad and ad.get("variants") and ad["variants"][0]["fields"] else ""
    ccl = [pathx.desc(thir.peel(thir.root(f))) for f in facts.fns_matching(r"^<watchexec::changeable::Changeable<T> as core::clone::Clone>::clone$")]
    fcl = [pathx.desc(thir.peel(thir.root(f))) for f in facts.fns_matching(r"^<watchexec::changeable::ChangeableFn<T, U> as core::clone::Clone>::clone$")]
    ok = fty.startswith("alloc::sync::Arc<") and (facts.derived("watchexec::changeable::Changeable", "Clone") or ccl == ["Changeable{0: Clone::clone(self.0)}"]) \
        and (facts.derived("watchexec::changeable::ChangeableFn", "Clone") or fcl == ["ChangeableFn{0: Clone::clone(self.0)}"])
    ctx.require(ok, rule, "changeable-clones-share", "a clone of a Changeable / ChangeableFn shares the cell with the original (replace through one is seen through the other)",
                fnw.loc(fnw.line), detail="%s / %s / %s" % (fty, ccl, fcl),
                fail="cloning a Changeable(Fn) no longer shares the cell (%s / %s): a handler replaced after the clone was taken is never seen by the holder of the clone" % (ccl, fcl))
    cl = _f(r"^watchexec::changeable::ChangeableFn::<T, U>::call$")
    with pathx.reading_through(thir.root(cl)):
        dcl = pathx.desc(pathx.value_of(thir.root(cl)))
    ctx.require(dcl == "Fn::call(Changeable::get(self.0), (data))", rule, "changeablefn-call-reads", "ChangeableFn::call reads the current fn at every call and passes its argument on", cl.loc(cl.line), detail=dcl)



def subscription(ctx, rule):
    """no lost wake-up between Config::signal_change and ConfigWatched::next (shared with C15: a path set changed while the worker is busy is still applied, so its registration errors are still reported)"""
    facts = ctx.facts
    sc = ctx.anchor_fn(rule, "watchexec::config::Config::signal_change")
    nx = ctx.anchor_one(rule, "ConfigWatched::next coroutine",
                        [c for c in facts.children(ctx.anchor_fn(rule, "watchexec::config::ConfigWatched::next")) if c.kind == "coroutine"])
    sig = [strip_generics(t.callee.path) for _, t in sc.calls() if not sc.macro(t.mac)]
    waits = []
    for fn in [nx] + facts.descendants(nx):
        for _, t in fn.calls():
            waits.append((strip_generics(t.callee.path), t))
    notifier = [s for s in sig if s.startswith("tokio::sync::")]
    ctx.require(len(notifier) == 1, rule, "notifier-found", "signal_change uses one tokio::sync primitive", sc.loc(sc.line), detail=str(notifier))
    n = notifier[0] if notifier else ""
    wnames = {w for w, _ in waits}
    fresh_notified = "tokio::sync::notify::Notify::notified" in wnames
    changed = "tokio::sync::watch::Receiver::changed" in wnames
    if n.endswith("Notify::notify_waiters"):
        ctx.require(not fresh_notified and not changed and False, rule, "protocol",
                    "notify_waiters is paired with a waiter that cannot miss it", nx.loc(nx.line),
                    fail="Config::signal_change uses Notify::notify_waiters (no permit is stored) while ConfigWatched::next creates a fresh Notified on "
                         "every call: a change signalled while the worker is busy applying the previous one wakes nobody and is lost")
    elif n.startswith("tokio::sync::watch::Sender::send"):
        ctx.require(changed and not fresh_notified, rule, "protocol",
                    "watch::Sender::send* is paired with watch::Receiver::changed (the receiver remembers the last version seen)", nx.loc(nx.line),
                    fail="the change signal is a watch channel but ConfigWatched::next does not wait with Receiver::changed()")
        # the receiver lives in the struct (state kept across calls), not created per call
        percall = "tokio::sync::watch::Sender::subscribe" in wnames or "tokio::sync::watch::Receiver::mark_unchanged" in wnames \
            or "tokio::sync::watch::Receiver::mark_changed" in wnames or "tokio::sync::watch::Receiver::borrow_and_update" in wnames
        ctx.require(not percall, rule, "receiver-persistent", "the receiver's seen-version is not reset inside next()", nx.loc(nx.line),
                    fail="ConfigWatched::next re-subscribes / resets the seen version on every call: changes signalled between calls are lost")
    elif n.endswith("Notify::notify_one"):
        ctx.violation(rule, "protocol", "notify_one stores a single permit but two workers (fs, keyboard) wait for config changes", sc.loc(sc.line))
    else:
        ctx.incomplete(rule, "protocol", "unknown change-signal primitive %s" % n, sc.loc(sc.line))
    # the subscription's own table: the first call returns at once (so the initial configuration is applied), later calls
    # return exactly when a change was seen; a closed channel parks the worker for good
    cn = ctx.anchor_fn(rule, "watchexec::config::ConfigWatched::new")
    v = thir.expr_value(thir.root(cn))
    ctx.require(v[0] == "v" and v[3].get("first_run") == ("b", True) and v[3].get("changes") == ("var", "changes"), rule, "subscription-new",
                "a new subscription has first_run = true and the given receiver", cn.loc(cn.line), detail=str(v)[:200],
                fail="a new ConfigWatched does not start in the first-run state: the configuration present at start-up is never applied")
    if n.startswith("tokio::sync::watch::Sender::send"):
        from ..throttle import implies
        FR = "self.first_run"
        ERR = "Result::is_err(await Receiver::changed(self.changes))"
        rows = {"first": 0, "changed": 0, "closed": 0}
        badp = []
        for q in pathx.Enum().paths(thir.root(nx)):
            fr = err = None
            for e in q.ev:
                if e[0] == "branch":
                    for atom, tgt in ((FR, "fr"), (ERR, "err")):
                        if implies(e[1].replace("Result::is_ok(", "Not Result::is_err("), e[2], atom, True):
                            fr, err = (True, err) if tgt == "fr" else (fr, True)
                        elif implies(e[1].replace("Result::is_ok(", "Not Result::is_err("), e[2], atom, False):
                            fr, err = (False, err) if tgt == "fr" else (fr, False)
            waits = [e for e in q.ev if e[0] == "call" and strip_generics(e[1]).endswith("watch::Receiver::changed")]
            parks = [e for e in q.ev if e[0] == "call" and strip_generics(e[1]).endswith("pending::pending")]
            clr = [e for e in q.ev if e[0] == "assign" and e[1] == FR and e[2] == "False"]
            sh = pathx.show_events(q.ev)
            if fr is True:
                rows["first"] += 1
                if waits or parks or not clr:
                    badp.append("first call: " + sh)
            elif fr is False and err is False:
                rows["changed"] += 1
                if len(waits) != 1 or parks:
                    badp.append("after a change: " + sh)
            elif fr is False and err is True:
                rows["closed"] += 1
                if len(waits) != 1 or len(parks) != 1:
                    badp.append("config gone: " + sh)
            else:
                badp.append("undetermined: " + sh)
        ctx.require(not badp and all(rows.values()), rule, "subscription-table",
                    "next(): first call -> returns at once and clears first_run; later -> awaits changed() once and returns; closed -> parks forever",
                    nx.loc(nx.line), detail="; ".join(badp)[:500],
                    fail="ConfigWatched::next no longer follows its table: " + "; ".join(badp)[:300])
    # both workers wait through ConfigWatched
    users = []
    for fn in facts.crate_fns(LIB):
        for _, t in fn.calls():
            if t.callee.is_("config::Config::watch"):
                users.append(fn.def_)
    ctx.floor(rule, "workers waiting through Config::watch", len(users), 2)


def run(ctx):
    ctx.level = "other"
    facts = ctx.facts
    ctx.undecided = ("behaviour of notify's watchers (what watch()/unwatch() register), the poll watcher's timing; convergence is decided as "
                     "'no change signal can be lost' + 'the shadow set is reset whenever the watcher is replaced' + 'the apply loops keep the shadow "
                     "set equal to what was successfully (un)registered', not by exploring change sequences.")
    ctx.rule("R13.1", "no lost wake-up: the primitive used by Config::signal_change and the one awaited by ConfigWatched::next form a pair that "
                      "cannot lose a signal sent while the waiter is busy (stateful receiver such as watch::Receiver::changed; not a fresh "
                      "Notified per call against notify_waiters)")
    ctx.rule("R13.2", "replace => reset: on every path from a write to `watcher` (take / new watcher assigned) to the next use of the shadow set "
                      "`pathset`, the shadow set is cleared")
    ctx.rule("R13.3", "application loops: the shadow set is updated (remove / insert) exactly on the success edge of unwatch / watch; on failure every "
                      "produced RuntimeError is sent and the loop goes on with the next path; unwatching precedes watching")
    ctx.also("R13.3", 'every error sent on the error channel reaches the handler exactly once (shared with R15.3)')
    ctx.rule("R13.7", "frame condition: the fs worker carries no state from one round to the next other than watcher, watcher_type, the shadow set "
                      "and the change subscription (so nothing read from the configuration can go stale across rounds)")
    ctx.rule("R13.8", "keyboard source: (enabled, not watching) -> spawn the stdin watcher and keep its close handle; (disabled, watching) -> take the handle "
                      "and send the close signal; otherwise nothing")
    ctx.rule("R13.9", "round transfer function of the fs worker, over all syntactic paths of one loop iteration: await-first; empty => release; "
                      "create => record kind + watcher + cleared shadow set; keep => evidence that the watcher exists and has the configured kind; "
                      "diff = (C \\ S, S \\ C) with the shortcut only under S = {}")
    ctx.rule("R13.4", "WatchedPath.recursive selects RecursiveMode::Recursive / NonRecursive")
    ctx.rule("R13.5", "lock scope: in the watchexec crate no RwLock/Mutex guard is live across an await or a call through a user-supplied Fn")
    ctx.rule("R13.10", "CLI plumbing: make_config hands the command line's watch paths to Config::pathset unchanged and selects the poll watcher with the given interval exactly when --poll is given")
    ctx.rule("R13.6", "every public Config setter replaces the value and then calls signal_change")

    # ---- R13.1
    try:
        subscription(ctx, "R13.1")
    except Skip:
        pass

    # ---- fs worker
    try:
        w = ctx.anchor_one("R13.2", "fs worker coroutine",
                           [c for c in facts.children(ctx.anchor_fn("R13.2", "watchexec::sources::fs::worker")) if c.kind == "coroutine"])
    except Skip:
        w = None
    if w is not None:
        cfg = CFG(w)
        pl = [p for p in w.debug_place("pathset") if p.is_local()]
        wl = [p for p in w.debug_place("watcher") if p.is_local()]
        if len(pl) != 1 or not wl:
            ctx.violation("R13.2", "floor:anchor:locals", "fs worker no longer has the locals `pathset` and `watcher`", w.loc(w.line))
        else:
            P = pl[0].local
            W = {p.local for p in wl if "Option<" in w.locals[p.local]}

            def touches(t, local):
                for a in t.args:
                    for o in origins(w, a):
                        if o.kind == "var" and o.data == local:
                            return True
                    if a.place is not None and a.place.local == local:
                        return True
                return False

            def arg_is_local(op, local):
                if op.place is None:
                    return False
                if op.place.local == local:
                    return True
                # through a fresh reference temp
                for b in w.blocks:
                    for s in b.stmts:
                        if s.kind == "=" and s.place.is_local() and s.place.local == op.place.local and s.rv.kind in ("ref", "use", "cfd") \
                                and ((s.rv.place is not None and s.rv.place.local == local) or (s.rv.ops and s.rv.ops[0].place is not None and s.rv.ops[0].place.local == local)):
                            return True
                return False

            def refers(op, local, depth=0):
                if op.place is None or depth > 4:
                    return False
                if op.place.local == local:
                    return True
                for b in w.blocks:
                    for s in b.stmts:
                        if s.kind == "=" and s.place.is_local() and s.place.local == op.place.local:
                            if s.rv.kind in ("ref", "raw", "cfd") and s.rv.place.local == local:
                                return True
                            if s.rv.kind in ("ref", "raw", "cfd"):
                                from ..facts import Operand
                                if refers(Operand(["c", [s.rv.place.local]]), local, depth + 1):
                                    return True
                            if s.rv.kind == "use" and refers(s.rv.ops[0], local, depth + 1):
                                return True
                return False

            clears = [bi for bi, t in w.calls() if t.callee.is_("std::collections::hash::set::HashSet::clear") and t.args and refers(t.args[0], P)]
            uses = [bi for bi, t in w.calls() if not t.callee.is_("std::collections::hash::set::HashSet::clear") and not w.macro(t.mac)
                    and any(refers(a, P) for a in t.args)]
            ctx.floor("R13.2", "uses of the shadow set `pathset`", len(uses), 5)
            writes = []
            for bi, t in w.calls():
                if t.callee.is_("core::option::Option::take") and t.args and any(refers(t.args[0], x) for x in W):
                    writes.append((bi, t.target, "watcher.take()", t.line))
            for b in w.blocks:
                for si, s in enumerate(b.stmts):
                    if s.kind == "=" and s.place.is_local() and s.place.local in W and not (s.rv.kind == "agg" and s.rv.agg_adt() and s.rv.agg_adt()[1] == "None" and b.idx < 3):
                        # skip the initial `let mut watcher = None`
                        init = s.rv.kind == "agg" and s.rv.agg_adt() and s.rv.agg_adt()[1] == "None" and cfg.dominates(b.idx, min(uses) if uses else 0) and not cfg.loops_containing(b.idx)
                        if not init:
                            writes.append((b.idx, b.idx, "watcher = <new watcher>", s.line))
                t = b.term
                if t.kind == "call" and t.dest is not None and t.dest.is_local() and t.dest.local in W:
                    writes.append((b.idx, t.target, "watcher = <call result>", t.line))
            ctx.floor("R13.2", "writes to `watcher`", len(writes), 2)
            for bi, start, what, line in writes:
                reach = cfg.reachable_from(start, avoid=clears)
                # uses in the same block after the write position are ignored only for the take() call itself
                bad = [u for u in uses if u in reach and u != bi]
                ctx.require(not bad, "R13.2", "reset-after:%s" % what, "after `%s` the shadow set is cleared before it is used again" % what, w.loc(line),
                            fail="after `%s` the record of registered paths is kept: the next diff against the configured set skips paths that the "
                                 "new/absent watcher does not actually watch" % what,
                            detail="first use at %s" % (w.loc(w.blocks[bad[0]].term.line) if bad else ""))
        # ---- R13.7 frame condition: the only state carried from one round to the next is the modelled one
        let_names = []
        top = []
        for blk in thir.find(thir.root(w), "block"):
            items = list(blk.get("s", [])) + ([blk["e"]] if blk.get("e") is not None else [])
            if any(isinstance(x, dict) and thir.peel(x).get("k") == "loop" and not thir.peel(x).get("x") for x in items):
                top = blk.get("s", [])
                break
        for st in top:
            if isinstance(st, dict) and st.get("k") == "let":
                for n_ in thir.walk(st["p"]):
                    if n_.get("k") == "bind":
                        let_names.append(n_["n"])
        KNOWN = {"watcher_type", "watcher", "pathset", "config_watch"}
        extra = [n_ for n_ in let_names if n_ not in KNOWN]
        ctx.require(set(let_names) >= KNOWN, "R13.7", "frame:known-state", "the worker keeps watcher_type, watcher, pathset and config_watch across rounds", w.loc(w.line),
                    detail=str(let_names))
        for n_ in extra:
            ctx.incomplete("R13.7", "frame:unmodelled-state:" + n_,
                           "the fs worker carries an additional variable `%s` from one round to the next; the convergence rules only model "
                           "watcher / watcher_type / pathset (a cache of the configuration can go stale when a change lands in the middle of a round)" % n_,
                           w.loc(w.line))
        # ---- R13.3 via THIR paths of the two apply loops
        root = thir.root(w)
        en = pathx.Enum(interesting=interesting)
        loops = {}
        for m in thir.find(root, "match"):
            if m.get("src") == "ForLoopDesugar":
                inner = thir.peel(m["e"])
                if inner.get("k") == "call" and inner.get("a"):
                    d = pathx.desc(inner["a"][0])
                    if d in ("to_drop", "to_watch"):
                        loops[d] = m
        ctx.require(set(loops) == {"to_drop", "to_watch"}, "R13.3", "apply-loops", "the worker has an unwatch loop over to_drop and a watch loop over to_watch",
                    w.loc(w.line), detail=str(sorted(loops)))
        if set(loops) == {"to_drop", "to_watch"}:
            ctx.require(loops["to_drop"]["l"] < loops["to_watch"]["l"], "R13.3", "unwatch-before-watch", "paths are unwatched before new ones are watched", w.loc(loops["to_drop"]["l"]))
            for which, op, upd in (("to_drop", "Watcher::unwatch", "HashSet::remove"), ("to_watch", "Watcher::watch", "HashSet::insert")):
                m = loops[which]
                ps = en.paths(m)
                # the loop is collapsed into one 'loop' event: take its iteration set
                its = set()
                for p in ps:
                    for e in p.ev:
                        if e[0] == "loop" and e[2] == "for " + which:
                            its |= set(e[1])
                ctx.floor("R13.3", "%s iteration paths" % which, len(its), 2)
                n_ok = n_err = 0
                for it in its:
                    evs = list(it)
                    calls = [strip_generics(e[1]) for e in evs if e[0] == "call"]
                    res = [e for e in evs if e[0] == "iflet" and op.split("::")[-1] + "(" in e[1]]
                    if not res:
                        ctx.incomplete("R13.3", "%s:shape" % which, "cannot find the result test of %s in an iteration" % op, w.loc(m["l"]))
                        continue
                    failed = res[0][3] if "Err" in res[0][2] else (not res[0][3])
                    updated = any(c.endswith(upd) for c in calls)
                    sends = [e for e in evs if e[0] == "loop" and any(any(x[0] == "call" and strip_generics(x[1]).endswith("mpsc::bounded::Sender::send") for x in itx) for itx in e[1])]
                    if failed:
                        n_err += 1
                        ctx.require(not updated and bool(sends), "R13.3", "%s:on-failure" % which,
                                    "a failed %s sends its errors and leaves the shadow set untouched" % op.split("::")[-1], w.loc(m["l"]),
                                    fail="when %s fails the shadow set is %s" % (op, "updated anyway" if updated else "left alone but the error is not reported"))
                        brk = any(e == ("loop-break",) for e in evs)
                        ctx.require(not brk, "R13.3", "%s:continues" % which, "a failure does not stop the remaining paths", w.loc(m["l"]))
                    else:
                        n_ok += 1
                        ctx.require(updated and not sends, "R13.3", "%s:on-success" % which,
                                    "a successful %s updates the shadow set" % op.split("::")[-1], w.loc(m["l"]),
                                    fail="a successful %s is not recorded in the shadow set: the path will be (un)registered again or never dropped" % op)
                ctx.require(n_ok >= 1 and n_err >= 1, "R13.3", "%s:both-outcomes" % which, "both outcomes of %s are handled" % op, w.loc(m["l"]))
        from .. import fsround
        fsround.check(ctx, w, interesting)
        # ---- R13.4
        # (the empty-set => release clause is R13.9 `empty-round` / `nonempty-keeps`, decided on the THIR paths)
        rec = [n for n in thir.find(root, "if") if pathx.split_not(pathx.desc(n["c"]))[0] == "path.recursive"]
        ok = False
        if len(rec) == 1:
            tv, evv = thir.expr_value(rec[0]["t"]), thir.expr_value(rec[0]["e"])
            if pathx.split_not(pathx.desc(rec[0]["c"]))[1]:
                tv, evv = evv, tv
            ok = tv[0] == "v" and tv[2] == "Recursive" and evv[0] == "v" and evv[2] == "NonRecursive"
        ctx.require(ok, "R13.4", "recursive-mode", "path.recursive selects Recursive, otherwise NonRecursive", w.loc(w.line),
                    fail="the recursion flag of a watched path is no longer mapped to RecursiveMode::Recursive / NonRecursive")

    lock_scope(ctx, "R13.5")

    # ---- R13.6b
    try:
        changeable_primitives(ctx, "R13.6")
    except Skip:
        pass

    # a path that fails to (un)register is reported, once per path, with the right kind (shared with C15 R15.2)
    try:
        from . import c15 as _c15b
        _c15b.multi_path_errors(ctx, "R13.3")
        _c15b.error_hook_table(ctx, "R13.3")       # ... and each of those errors reaches the handler once (no suppression between the channel and the handler)
    except Skip:
        pass

    # ---- R13.10 CLI plumbing
    try:
        mk = ctx.anchor_fn("R13.10", "watchexec_cli::config::make_config")
        cc = {}
        for c, nd in thir.calls_in(thir.root(mk)):
            sg = strip_generics(c)
            if sg.startswith("watchexec::config::Config::") and not pathx.is_tracing(nd):
                cc.setdefault(sg.split("::")[-1], []).append([pathx.desc(a) for a in nd["a"]])
        ctx.require(cc.get("pathset") == [["config", "Clone::clone(args.filtering.paths)"]], "R13.10", "cli-pathset", "the configured path set is the command line's list of paths", mk.loc(mk.line),
                    detail=str(cc.get("pathset")), fail="make_config does not pass args.filtering.paths to Config::pathset (%s): nothing, or something else, is watched" % cc.get("pathset"))
        miss13 = []
        for q in pathx.Enum(interesting=lambda d_: strip_generics(d_).startswith("watchexec::config::Config::"), max_paths=200000).paths(thir.root(mk)):
            if q.out in ("ret", "val") and (q.val or "").startswith("Ok{"):
                nm = [strip_generics(e[1]).split("::")[-1] for e in q.ev if e[0] == "call"]
                if "pathset" not in nm:
                    miss13.append(nm)
        ctx.require(not miss13, "R13.10", "cli-pathset-every-mode", "every configuration make_config returns has the path set configured", mk.loc(mk.line), detail=str(miss13)[:200])
        pw = [n for n in thir.find(thir.root(mk), "if") if isinstance(n["c"], dict) and n["c"].get("k") == "letx" and pathx.desc(n["c"]["e"]) == "args.events.poll"]
        okw = len(pw) == 1 and cc.get("file_watcher") == [["config", "Poll{0: interval.0}"]] and any(strip_generics(c).endswith("Config::file_watcher") for c, _ in thir.calls_in(pw[0]["t"])) \
            and "Some" in thir.pattern_variants(pw[0]["c"]["p"])
        ea13 = facts.find_adt("watchexec_cli::args::events::EventsArgs")
        pf = [f for f in (ea13["variants"][0]["fields"] if ea13 else []) if f["name"] == "poll"]
        ctx.require(bool(pf) and pf[0]["ty"] == "core::option::Option<watchexec_cli::args::TimeSpan<1000000>>", "R13.10", "cli-poll-unit", "--poll's unit-less values are milliseconds", mk.loc(mk.line),
                    detail=pf[0]["ty"] if pf else "", fail="--poll no longer reads unit-less values as milliseconds (%s): the poll watcher runs with an interval a thousand times the configured one" % (pf[0]["ty"] if pf else "missing"))
        # the watch list is de-duplicated by whole value (path AND recursion mode): `-W dir -w dir` keeps the recursive entry
        nm13 = [f for f in facts.fns_matching(r"^watchexec_cli::args::filtering::FilteringArgs::normalise") if f.kind == "coroutine"]
        if nm13:
            ctx.saw_fn(nm13[0])
            fulls = [(t.callee.full or "") for g in [nm13[0]] + facts.descendants(nm13[0]) for _, t in g.calls()]
            by_value = any("collect" in f_ and "BTreeSet<watchexec::watched_path::WatchedPath>" in f_ for f_ in fulls) or any("collect" in f_ and "HashSet<watchexec::watched_path::WatchedPath" in f_ for f_ in fulls)
            partial = [f_[:80] for f_ in fulls if ("dedup_by" in f_ or "dedup_by_key" in f_) and "WatchedPath" in f_]
            ctx.require(by_value and not partial, "R13.10", "cli-paths-dedup-by-value", "the CLI's watch list is de-duplicated on (path, recursion mode), not on the path alone", nm13[0].loc(nm13[0].line),
                        detail=str(partial), fail="FilteringArgs::normalise drops watch entries that differ only in recursion mode (%s): a path given both recursively and non-recursively loses one of its registrations" % partial)
        else:
            ctx.violation("R13.10", "floor:anchor:normalise", "FilteringArgs::normalise coroutine not found")
        ctx.require(okw, "R13.10", "cli-poll-watcher", "--poll <interval> selects Watcher::Poll(interval), otherwise the default (native) watcher stays", mk.loc(mk.line), detail=str(cc.get("file_watcher")))
    except Skip:
        pass

    # ---- R13.8 keyboard worker table
    try:
        kw = ctx.anchor_one("R13.8", "keyboard worker coroutine",
                            [c for c in facts.children(ctx.anchor_fn("R13.8", "watchexec::sources::keyboard::worker")) if c.kind == "coroutine"])
        rk = thir.root(kw)
        kloops = [n for n in thir.find(rk, "loop") if not n.get("x")]
        firsts = set()
        for q in (pathx.Enum(interesting=interesting).paths(kloops[0]["e"]) if len(kloops) == 1 else []):
            c0 = [e for e in q.ev if e[0] in ("call", "await", "arm", "branch", "assign")][:2]
            firsts.add(tuple((e[0], tuple(strip_generics(e[1]).split("::")[-2:]) if e[0] == "call" else None) for e in c0))
        ctx.require(firsts == {(("call", ("ConfigWatched", "next")), ("await", None))}, "R13.8", "keyboard-await-first",
                    "every round of the keyboard worker first awaits the configuration-change subscription", kw.loc(kw.line), detail=str(firsts)[:200],
                    fail="the keyboard worker loops without awaiting ConfigWatched::next: it spins, starving the runtime thread it runs on")
        # decision table of one round over (enabled, close handle held), whatever shape the decision is written in: the calls the round makes
        # under each combination (match on the pair, if-chain, if-let on take() ...)
        OPT = "core::option::Option"
        EN = "Changeable::get(config.keyboard_events)"
        cases = {"enable": (True, ("v", OPT, "None", {})), "disable": (False, ("v", OPT, "Some", {"0": thir.ANY})),
                 "keep-on": (True, ("v", OPT, "Some", {"0": thir.ANY})), "keep-off": (False, ("v", OPT, "None", {}))}
        body_k = kloops[0]["e"] if len(kloops) == 1 else rk
        reads = [pathx.desc(n).replace("^", "") for c, n in thir.calls_in(body_k) if strip_generics(c).endswith("Changeable::get")]
        ctx.require(reads == [EN], "R13.8", "keyboard-scrutinee", "the decision reads config.keyboard_events (once per round) and the close handle", kw.loc(kw.line), detail=str(reads))
        keeps = [(pathx.desc(a_["a"]).replace("^", ""), pathx.desc(a_["b"])) for a_ in thir.find(body_k, "assign")]
        for name, (en_, st) in cases.items():
            held = st[2] == "Some"
            descs = {EN: en_, "Option::is_none(send_close)": not held, "Option::is_some(send_close)": held}
            vals = {"send_close": st, "Option::take(send_close)": st, "(%s, send_close)" % EN: ("t", [("b", en_), st])}
            with pathx.reading_through(body_k):
                evs_, und = pathx.calls_under(body_k, descs, vals)
            und = [u for u in und if "send_close" in u or "keyboard_events" in u or "enabled" in u]
            if und:
                ctx.incomplete("R13.8", "keyboard:" + name, "undetermined arm", kw.loc(kw.line), detail=str(und)[:200])
                continue
            calls = [strip_generics(thir.peel(n["fn"]).get("def") or "?").split("::")[-2] + "::" + strip_generics(thir.peel(n["fn"]).get("def") or "?").split("::")[-1]
                     for n in evs_ if n.get("k") == "call" and isinstance(thir.peel(n["fn"]), dict) and thir.peel(n["fn"]).get("k") == "fn"]
            eff = [c for c in calls if c in ("spawn::spawn", "keyboard::watch_stdin", "Sender::send", "Option::take")]
            if name == "enable":
                ok = "spawn::spawn" in eff and "keyboard::watch_stdin" in eff and "Sender::send" not in eff and ("send_close", "Some{0: close_s}") in keeps
            elif name == "disable":
                ok = "Option::take" in eff and "Sender::send" in eff and "spawn::spawn" not in eff
            else:
                ok = not [c for c in eff if c != "Option::take" or name == "keep-on"]
            ctx.require(ok, "R13.8", "keyboard:" + name, "keyboard events %s" % name, kw.loc(kw.line), detail="%s %s" % (eff, keeps),
                        fail="keyboard source, case %s: does %s %s" % (name, eff, keeps))
    except Skip:
        pass

    # ---- R13.6 setters
    try:
        setters = [f for f in facts.fn_by_def.values() if f.self_ty == "watchexec::config::Config" and f.kind == "method" and not f.impl_trait
                   and f.vis and "Public" in f.vis and f.def_.split("::")[-1] not in ("signal_change",)]
        ctx.floor("R13.6", "public Config setters", len(setters), 8)
        for f in sorted(setters, key=lambda f: f.def_):
            ctx.saw_fn(f)
            cfg = CFG(f)
            rep = [bi for bi, t in f.calls() if t.callee.is_("Changeable::replace", "ChangeableFn::replace", "ChangeableFilterer::replace")]
            sig = [bi for bi, t in f.calls() if t.callee.is_("Config::signal_change")]
            rets = cfg.exits()
            ok = len(rep) == 1 and len(sig) == 1 and cfg.dominates(rep[0], sig[0]) and all(cfg.must_pass(0, [r], sig) for r in rets)
            if not rep and not sig:
                # replace-then-signal delegated to a private helper of Config (`self.set(&self.pathset, value)`): the helper must do both, in
                # that order, on every path, and the setter must reach it on every path
                for hb, ht in f.calls():
                    hd = ht.callee.def_ or ""
                    hf = facts.find_fn(strip_generics(hd)) or facts.find_fn(hd)
                    if hf is None or hf.crate.name != "watchexec" or hf is f:
                        continue
                    hcfg = CFG(hf)
                    hrep = [bi for bi, t in hf.calls() if t.callee.is_("Changeable::replace", "ChangeableFn::replace", "ChangeableFilterer::replace")]
                    hsig = [bi for bi, t in hf.calls() if t.callee.is_("Config::signal_change")]
                    if len(hrep) == 1 and len(hsig) == 1 and hcfg.dominates(hrep[0], hsig[0]) and all(hcfg.must_pass(0, [r], hsig) for r in hcfg.exits()) \
                            and all(cfg.must_pass(0, [r], [hb]) for r in rets):
                        ok = True
            name = f.def_.split("::")[-1]
            ctx.require(ok, "R13.6", "setter:" + name, "Config::%s replaces the value and then signals the change on every path" % name, f.loc(f.line),
                        fail="Config::%s does not (always) call signal_change after replacing the value: workers never learn about the new setting" % name)
    except Skip:
        pass


def lock_scope(ctx, rule):
    facts = ctx.facts
    # ---- R13.5 lock scope (whole crate)
    n_guards = 0
    for fn in facts.crate_fns(LIB):
        if fn.error or not fn.blocks:
            continue
        gl = [i for i, t in enumerate(fn.locals) if ("RwLockReadGuard<" in t or "RwLockWriteGuard<" in t or "MutexGuard<" in t) and not t.startswith("&")
              and not t.startswith("core::result::Result<") and "PoisonError" not in t[:60]]
        if not gl:
            continue
        ctx.saw_fn(fn)
        cfg = CFG(fn)
        for g in gl:
            defs = [b.idx for b in fn.blocks if b.term.kind == "call" and b.term.dest is not None and b.term.dest.is_local() and b.term.dest.local == g]
            drops = [b.idx for b in fn.blocks if b.term.kind == "drop" and b.term.place.is_local() and b.term.place.local == g]
            if not defs:
                continue
            n_guards += 1
            for d in defs:
                region = cfg.reachable_from(fn.blocks[d].term.target, avoid=drops) if fn.blocks[d].term.target is not None else set()
                bad = []
                for b in region:
                    t = fn.blocks[b].term
                    if t.kind == "yield":
                        bad.append(("await", t.line))
                    if t.kind == "call" and t.callee.is_("core::ops::function::Fn::call", "core::ops::function::FnMut::call_mut", "core::ops::function::FnOnce::call_once"):
                        bad.append(("callback", t.line))
                ctx.require(not bad, rule, "guard-scope:%s:_%d" % (fn.def_, g), "lock guard in %s is released before any await / user callback" % fn.def_.split("::")[-1],
                            fn.loc(fn.blocks[d].term.line),
                            fail="%s holds a lock guard across %s: reconfiguring from inside a handler can deadlock" % (fn.def_, bad[:2]))
    ctx.floor(rule, "lock guards analysed in the watchexec crate", n_guards, 2)
    # ChangeableFn::call clones the handler out before calling it
    try:
        cc = ctx.anchor_fn(rule, "watchexec::changeable::ChangeableFn::<T, U>::call")
        calls = [(bi, t) for bi, t in cc.calls()]
        get = [bi for bi, t in calls if t.callee.is_("Changeable::get")]
        inv = [bi for bi, t in calls if t.callee.is_("core::ops::function::Fn::call")]
        direct = [t for _, t in calls if t.callee.is_("RwLock::read", "RwLock::write")]
        cfg = CFG(cc)
        ctx.require(len(get) == 1 and len(inv) == 1 and cfg.dominates(get[0], inv[0]) and not direct, rule, "handler-cloned-out",
                    "ChangeableFn::call clones the handler out of the lock (Changeable::get) and only then calls it", cc.loc(cc.line),
                    fail="ChangeableFn::call invokes the handler while holding the lock: replacing a handler from inside it deadlocks, or affects the call in progress")
    except Skip:
        pass

