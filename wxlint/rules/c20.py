"""C20 - project origins are exactly the marked ancestors (finite-table part: proof level)."""
import re

from .. import thir
from ..cfg import CFG, call_sites
from ..origin import origins, VALUE_CALLS
from ..report import Skip
from ..facts import strip_generics

PT = "project_origins::ProjectType"


def _bool_table(ctx, rule, fn_path):
    """variant -> bool for a `matches!(self, ...)`-style classifier, via THIR pattern semantics"""
    fn = ctx.anchor_fn(rule, fn_path)
    ms = thir.find(thir.root(fn), "match")
    if len(ms) != 1:
        ctx.violation(rule, "floor:shape:" + fn_path, "%s is no longer a single match over self" % fn_path, fn.loc(fn.line))
        raise Skip()
    m = ms[0]
    table = {}
    for val in thir.enum_values(ctx.facts, PT):
        i = thir.first_arm(m, val)
        if i is None:
            ctx.incomplete(rule, "%s:%s" % (fn_path, val[2]), "cannot decide which arm matches", fn.loc(m["l"]))
            continue
        b = thir.expr_value(m["arms"][i]["b"])
        if b[0] != "b":
            ctx.incomplete(rule, "%s:%s" % (fn_path, val[2]), "arm body is not a boolean literal", fn.loc(m["arms"][i]["l"]))
            continue
        table[val[2]] = b[1]
    return fn, table


def _rows(ctx, rule, fn, want):
    """rows (kind, marker, type?) from array literals of calls to DirList::{has,if_has}_{file,dir}"""
    rows = []
    for arr in thir.find(thir.root(fn), "array"):
        for el in arr["f"]:
            v = thir.expr_value(el)
            if v[0] != "call":
                continue
            m = re.search(r"DirList::(if_has|has)_(file|dir)$", v[1])
            if not m or m.group(1) != want:
                continue
            args = v[2]
            marker = args[1][1] if len(args) > 1 and args[1][0] == "s" else None
            ty = args[2][2] if len(args) > 2 and args[2][0] == "v" else None
            rows.append((m.group(2), marker, ty, el.get("l")))
    return rows


def run(ctx):
    ctx.level = "proof"
    ctx.exhaustive = True
    ctx.undecided = ("behaviour of the filesystem listing (tokio read_dir), symlink handling, and HashMap/HashSet "
                     "semantics are trusted; only the marker tables, the classification and the ancestor-chain "
                     "provenance are decided.")
    ctx.rule("R20.1", "for every ProjectType variant exactly one of is_vcs / is_soft holds (first-match pattern "
                      "semantics over the enumerated enum), and it agrees with the variant's 'VCS:'/'Soft:' doc tag")
    ctx.rule("R20.2", "every (marker, node kind, type) row of types() has the same marker with the same node kind in "
                      "origins()'s list; every variant not documented as 'not detected' has a row; each row's marker is "
                      "named in the variant's doc comment")
    ctx.rule("R20.3", "DirList::has_file tests FileType::is_file, has_dir tests is_dir; if_has_* return Some(project) "
                      "exactly on the true edge of the matching has_*")
    ctx.rule("R20.5", "consumers: a listing is read with tokio's read_dir of exactly the path that is then stripped from the entries; the CLI asks for the "
                      "types of the project origin (not of another directory) and keeps exactly the VCS ones")
    ctx.also("R20.5", "every path through dirs::vcs_types goes through project_origins::types(origin); the CLI's candidate origins are origins(path) and, failing that, the working directory as given")
    ctx.rule("R20.4", "every path inserted into the result of origins() is the argument or Path::parent of such a path, "
                      "inserted only on the true edge of check_list for that same directory; the ancestor loop ends only "
                      "when parent() is None")
    facts = ctx.facts
    adt = facts.find_adt(PT)
    if adt is None:
        ctx.violation("R20.1", "floor:anchor:ProjectType", "enum ProjectType not found")
        return
    variants = [v["name"] for v in adt["variants"]]
    ctx.floor("R20.1", "ProjectType variants", len(variants), 22)

    # ---- R20.1
    try:
        fv, vcs = _bool_table(ctx, "R20.1", "project_origins::ProjectType::is_vcs")
        fs, soft = _bool_table(ctx, "R20.1", "project_origins::ProjectType::is_soft")
        docs = {v["name"]: v.get("doc", "") for v in adt["variants"]}
        for name in variants:
            if name not in vcs or name not in soft:
                continue
            a, b = vcs[name], soft[name]
            loc = fs.loc(fs.line) if not b else fv.loc(fv.line)
            ctx.require(a != b, "R20.1", "partition:" + name,
                        "ProjectType::%s is classified by exactly one of is_vcs/is_soft" % name, loc,
                        fail="ProjectType::%s: is_vcs=%s is_soft=%s (must be exactly one)" % (name, a, b))
            d = docs.get(name, "").strip()
            if d.startswith("VCS:"):
                ctx.require(a and not b, "R20.1", "doc-tag:" + name, "doc says VCS and is_vcs holds", fv.loc(fv.line),
                            fail="ProjectType::%s is documented as VCS but is_vcs=%s is_soft=%s" % (name, a, b))
            elif d.startswith("Soft:"):
                ctx.require(b and not a, "R20.1", "doc-tag:" + name, "doc says Soft and is_soft holds", fs.loc(fs.line),
                            fail="ProjectType::%s is documented as Soft but is_vcs=%s is_soft=%s" % (name, a, b))
    except Skip:
        pass

    # ---- R20.2
    # the listing is complete: nothing cuts the directory stream short or skips entries by position
    try:
        ob = ctx.anchor_fn("R20.3", "project_origins::DirList::obtain")
        cut = sorted({strip_generics(t.callee.def_ or "").split("::")[-1] for g_ in [ob] + ctx.facts.descendants(ob) for _, t in g_.calls()
                      if strip_generics(t.callee.def_ or "").split("::")[-1] in ("take", "take_while", "take_until", "skip", "skip_while", "step_by", "nth", "chunks", "chunks_timeout", "timeout", "filter", "peekable", "next", "try_next")})
        ctx.require(not cut, "R20.3", "listing-complete", "DirList::obtain keeps every entry of the directory (no take / skip / early stop on the stream)", ob.loc(ob.line), detail=str(cut),
                    fail="DirList::obtain cuts the directory listing short (%s): a marker that the directory stream yields late is not seen, so types() and origins() miss it in large directories" % cut)
    except Skip:
        pass

    try:
        types_fn = ctx.anchor_one("R20.2", "coroutine body of project_origins::types",
                                  [f for f in facts.fns_matching(r"^project_origins::types::\{closure#\d+\}$")
                                   if f.kind == "coroutine"])
        check_list = ctx.anchor_one("R20.2", "origins()::check_list", facts.fns_matching(r"^project_origins::origins::.*check_list$"))
        trows = _rows(ctx, "R20.2", types_fn, "if_has")
        orows = _rows(ctx, "R20.2", check_list, "has")
        ctx.floor("R20.2", "types() rows", len(trows), 31)
        ctx.floor("R20.2", "origins() markers", len(orows), 53)
        oset = {(k, m) for k, m, _, _ in orows}
        docs = {v["name"]: v.get("doc", "") for v in adt["variants"]}
        have = {}
        for kind, marker, ty, line in trows:
            loc = types_fn.loc(line)
            if marker is None or ty is None:
                ctx.incomplete("R20.2", "row@%s" % marker, "row is not (literal marker, ProjectType variant)", loc)
                continue
            have.setdefault(ty, []).append((kind, marker))
            ctx.require((kind, marker) in oset, "R20.2", "origin-has:%s:%s" % (kind, marker),
                        "marker %s (%s) of types() is also checked by origins()" % (marker, kind), loc,
                        fail="types() detects %s from %s `%s`, but origins() does not treat that %s as a project marker, "
                             "so such a directory is never reported as an origin" % (ty, kind, marker, kind))
            ticks = set(re.findall(r"`([^`]+)`", docs.get(ty, "")))
            if ticks:
                ctx.require(marker in ticks, "R20.2", "doc-marker:%s:%s" % (ty, marker),
                            "marker `%s` is documented for %s" % (marker, ty), loc,
                            fail="types() maps `%s` to %s but %s's documentation does not name that marker" % (marker, ty, ty))
                # node kind agreement with the doc wording where it is unambiguous
        # reverse direction: a marker that origins() knows and that a variant's doc names must have a types() row for every node kind origins() lists it with
        okinds = {}
        for k, m, _, _ in orows:
            okinds.setdefault(m, set()).add(k)
        trows_set = {(k, m, ty) for k, m, ty, _ in trows}
        for name in variants:
            ticks = set(re.findall(r"`([^`]+)`", docs.get(name, "")))
            for m in sorted(ticks & set(okinds)):
                for k in sorted(okinds[m]):
                    ctx.require((k, m, name) in trows_set, "R20.2", "doc-row:%s:%s:%s" % (name, k, m),
                                "%s `%s` (documented for %s, an origin marker) is reported as %s by types()" % (k, m, name, name), types_fn.loc(types_fn.line),
                                fail="a directory whose marker is the %s `%s` is an origin but types() does not report %s for it although the documentation of "
                                     "%s names that marker: the types reported do not correspond to the markers present" % (k, m, name, name))
        for name in variants:
            d = docs.get(name, "")
            if "not detected" in d:
                ctx.require(name not in have, "R20.2", "undetected:" + name,
                            "%s is documented as not detected and has no row" % name)
            else:
                ctx.require(name in have, "R20.2", "has-row:" + name, "%s has at least one marker row" % name,
                            types_fn.loc(types_fn.line),
                            fail="ProjectType::%s has no marker row in types(): it can never be reported" % name)
    except Skip:
        pass

    # ---- R20.3 (THIR value / path tables; polarity-safe)
    from .. import pathx as _px
    for kind, pred in (("file", "is_file"), ("dir", "is_dir")):
        try:
            f = ctx.anchor_fn("R20.3", "project_origins::DirList::has_" + kind)
            vals = {(q.out, q.val) for q in _px.Enum().paths(thir.root(f))}
            want = {("val", "Option::map_or(HashMap::get(self.0, name), False, FileType::%s)" % pred),
                    ("val", "Option::is_some_and(HashMap::get(self.0, name), FileType::%s)" % pred)}
            ctx.require(len(vals) == 1 and vals <= want, "R20.3", "has_%s:%s" % (kind, pred),
                        "has_%s(name) = the listing has `name` and its type satisfies FileType::%s (absent => false)" % (kind, pred), f.loc(f.line),
                        detail=str(sorted(vals)), fail="has_%s is no longer `entry present and FileType::%s` with absent => false: %s" % (kind, pred, sorted(vals)))
            g = ctx.anchor_fn("R20.3", "project_origins::DirList::if_has_" + kind)
            rows = set()
            for q in _px.Enum().paths(thir.root(g)):
                ev = None
                for e in q.ev:
                    if e[0] == "branch":
                        core, neg = _px.split_not(e[1])
                        if core == "DirList::has_%s(self, name)" % kind:
                            ev = (e[2] != neg)
                rows.add((ev, q.val))
            ctx.require(rows == {(True, "Some{0: project}"), (False, "None")}, "R20.3", "if_has_%s" % kind,
                        "if_has_%s returns Some(project) exactly when has_%s holds" % (kind, kind), g.loc(g.line), detail=str(sorted(rows, key=str)),
                        fail="if_has_%s no longer returns Some(project) exactly when has_%s(name) holds: %s" % (kind, kind, sorted(rows, key=str)))
        except Skip:
            pass

    # ---- R20.3b: the listing is keyed by the entries' own names (relative to the directory), and lookups use the marker as written
    try:
        from .. import pathx as _px4
        ob = ctx.anchor_fn("R20.3", "project_origins::DirList::obtain")
        inner = [c for c in facts.descendants(ob) if c.kind == "coroutine" and c.def_.count("{closure") == 3]
        ent = ctx.anchor_one("R20.3", "DirList::obtain entry closure", inner)
        vals = set()
        for q in _px4.Enum().paths(thir.root(ent)):
            if (q.val or "").startswith("Some"):
                scr = [e[1] for e in q.ev if e[0] == "iflet" and "strip_prefix" in e[1]]
                vals.add((q.val, scr[0] if scr else None))
        ctx.require(vals == {("Some{0: (ToOwned::to_owned(path), file_type)}", "(Path::strip_prefix(DirEntry::path(entry), ^path), await DirEntry::file_type(entry))")},
                    "R20.3", "listing-keys", "a listing maps each entry's own name (its path relative to the directory) to its file type", ent.loc(ent.line), detail=str(sorted(vals))[:300],
                    fail="DirList::obtain no longer keys the listing by the entry's own relative path / type (%s): names are folded, so look-alikes count as markers or "
                         "entries hide each other" % sorted(vals))
        for kind in ("file", "dir"):
            hf = ctx.anchor_fn("R20.3", "project_origins::DirList::has_" + kind)
            ls = [_px4.desc(st["i"]) for st in thir.walk(thir.root(hf)) if isinstance(st, dict) and st.get("k") == "let" and isinstance(st.get("i"), dict)]
            ctx.require(ls in ([], ["AsRef::as_ref(name)"]), "R20.3", "lookup-as-written:has_" + kind, "has_%s looks the marker name up as written" % kind, hf.loc(hf.line), detail=str(ls),
                        fail="has_%s transforms the marker name before the lookup (%s)" % (kind, ls))
    except Skip:
        pass

    # ---- R20.5 consumers
    try:
        from .. import pathx as _px5
        from ..facts import strip_generics as _sg5
        ob5 = ctx.anchor_fn("R20.5", "project_origins::DirList::obtain")
        rd = []
        for g in [ob5] + facts.descendants(ob5):
            for c, nd in thir.calls_in(thir.root(g)):
                if c.split("::")[-1] == "read_dir":
                    rd.append((c, [_px5.desc(a).lstrip("^") for a in nd["a"]]))
        ctx.require(rd == [("tokio::fs::read_dir::read_dir", ["path"])], "R20.5", "listing-of-given-path", "DirList::obtain lists the directory it was given (tokio::fs::read_dir(path))",
                    ob5.loc(ob5.line), detail=str(rd), fail="DirList::obtain no longer lists exactly the given path with tokio's read_dir (%s): the entries are stripped of a different "
                    "prefix than the one that was opened, so a non-canonical directory lists as empty" % rd)
        wn5 = [f for f in facts.fns_matching(r"^watchexec_cli::filterer::WatchexecFilterer::new") if f.kind == "coroutine"]
        vt_args = []
        for g in wn5:
            _px5.SUBST = _px5.let_substitutions(thir.root(g))      # a local bound once is read through to its initialiser
            try:
                vt_args += [[_px5.desc(a).replace("^", "") for a in nd["a"]] for c, nd in thir.calls_in(thir.root(g)) if _sg5(c).endswith("dirs::vcs_types")]
            finally:
                _px5.SUBST = {}
        okvt = len(vt_args) == 1 and len(vt_args[0]) == 1 and "args.filtering.project_origin" in vt_args[0][0] and not any(
            x in vt_args[0][0] for x in ("workdir", "Path::parent", "Path::join", "Path::ancestors"))
        ctx.require(okvt, "R20.5", "cli-types-of-origin", "the CLI asks for the VCS types of the project origin", detail=str(vt_args),
                    fail="the CLI asks for the project types of %s instead of the project origin: the wrong VCS's ignore files are honoured or dropped" % vt_args)
        vt = [f for f in facts.fns_matching(r"^watchexec_cli::dirs::vcs_types") if f.kind == "coroutine"]
        okv = False
        if vt:
            tcalls = [[_px5.desc(a).lstrip("^") for a in nd["a"]] for c, nd in thir.calls_in(thir.root(vt[0])) if _sg5(c).endswith("project_origins::types")]
            cl5 = [_px5.desc(thir.peel(thir.root(c))) for c in facts.children(vt[0]) if c.kind == "closure"]
            okv = tcalls == [["origin"]] and "ProjectType::is_vcs(pt)" in cl5
        ctx.require(okv, "R20.5", "cli-vcs-types", "dirs::vcs_types(origin) = the types of `origin` that are version control", detail=str(vt and (tcalls, cl5))[:200])
        if vt:
            # ... on every path: the answer is always the filtered result of project_origins::types(origin), no shortcut on a single marker
            root5 = thir.root(vt[0])
            _px5.SUBST = _px5.let_substitutions(root5, deep=True)
            try:
                ps5 = _px5.Enum(interesting=lambda d_: "project_origins" in d_).paths(root5)
            finally:
                _px5.SUBST = {}
            vals5 = sorted({"%s %s" % (q.out, (q.val or "").replace("^", "")) for q in ps5})
            ctx.require(vals5 == ["val Iterator::collect(Iterator::filter(IntoIterator::into_iter(await project_origins::types(origin)), closure))"], "R20.5", "cli-vcs-types-every-path",
                        "every path through dirs::vcs_types returns the filtered types of the origin", vt[0].loc(vt[0].line), detail=str(vals5)[:300],
                        fail="dirs::vcs_types has a path that does not go through project_origins::types (%s): the types reported for the origin no longer correspond to the markers present in it" % vals5[:3])
        # the origin falls back to the working directory as given when nothing was found (not to some other directory)
        po5 = [f for f in facts.fns_matching(r"^watchexec_cli::dirs::project_origin") if f.kind == "coroutine"]
        pof = ctx.anchor_one("R20.5", "dirs::project_origin coroutine", po5[:1])
        ins5 = sorted([_px5.desc(a).replace("^", "") for a in nd["a"]][1] for c, nd in thir.calls_in(thir.root(pof))
                      if _sg5(c).endswith(("HashSet::insert", "HashSet::extend", "Extend::extend")) and len(nd["a"]) == 2 and _px5.desc(nd["a"][0]).replace("^", "") == "origins")
        ctx.require(ins5 == ["Option::unwrap(Clone::clone(workdir))", "await project_origins::origins(path)"], "R20.5", "cli-origin-sources",
                    "the CLI's candidate origins are origins(path) of each path and, when there are none, the working directory as given", pof.loc(pof.line), detail=str(ins5),
                    fail="the CLI's candidate project origins come from %s: the project origin (and the VCS types read from it) is a directory other than the marked ancestors / the working directory" % ins5)
    except Skip:
        pass

    # ---- R20.2b: check_list(list) = some marker of the list is present (an empty listing has none)
    try:
        from .. import pathx as _px2
        from ..throttle import implies as _imp
        from ..facts import strip_generics as _sg
        cl = ctx.anchor_one("R20.2", "origins()::check_list", facts.fns_matching(r"^project_origins::origins::.*check_list$"))
        rows = set()
        for q in _px2.Enum(interesting=lambda d: not _sg(d).endswith(("DirList::has_file", "DirList::has_dir"))).paths(thir.root(cl)):
            em = None
            for e in q.ev:
                if e[0] == "branch":
                    if _imp(e[1], e[2], "DirList::is_empty(list)", True):
                        em = True
                    elif _imp(e[1], e[2], "DirList::is_empty(list)", False):
                        em = False
            rows.add((em, q.val))
        okr = rows in ({(True, "False"), (False, "Iterator::any(IntoIterator::into_iter(array), closure)")},
                       {(None, "Iterator::any(IntoIterator::into_iter(array), closure)")})
        idc = [c for c in facts.children(cl) if c.kind == "closure" and _px2.desc(thir.peel(thir.root(c))) == "f"]
        ctx.require(okr and len(idc) == 1, "R20.2", "check-list-is-any", "check_list is `any marker present` (false for an empty listing)", cl.loc(cl.line),
                    detail=str(sorted(rows, key=str)), fail="check_list no longer answers `one of the listed markers is present`: %s" % sorted(rows, key=str))
        ie = ctx.anchor_fn("R20.2", "project_origins::DirList::is_empty")
        ctx.require(_px2.desc(thir.peel(thir.root(ie))) == "HashMap::is_empty(self.0)", "R20.2", "dirlist-is-empty", "DirList::is_empty is the listing's own emptiness",
                    ie.loc(ie.line), detail=_px2.desc(thir.peel(thir.root(ie))))
    except Skip:
        pass

    # ---- R20.4 (path form): every level is looked at once, in order, and the walk moves up every round
    try:
        from .. import pathx as _px3
        from ..facts import strip_generics as _sg3
        o3 = ctx.anchor_one("R20.4", "coroutine body of project_origins::origins",
                            [f for f in facts.fns_matching(r"^project_origins::origins::\{closure#\d+\}$") if f.kind == "coroutine"])
        en3 = _px3.Enum(interesting=lambda d: _sg3(d).endswith(("check_list", "DirList::obtain", "HashSet::insert", "Path::parent", "Path::ancestors")))
        CK = "check_list(await DirList::obtain(current))"
        bad3 = []
        n_it = 0
        ANC = "for Path::ancestors(AsRef::as_ref(path))"
        paths3 = en3.paths(thir.root(o3))
        by_iterator = any(e[0] == "loop" and e[2].replace("^", "") == ANC for q in paths3 for e in q.ev)
        for q in paths3:
            if not (q.out == "val" and q.val == "origins"):
                bad3.append("origins() ends with %s %s" % (q.out, q.val))
            if by_iterator:
                # the other spelling of the same walk: `for current in path.as_ref().ancestors()` (the path itself first, then every parent, to the root);
                # nothing is inserted outside that loop
                outside = [x for x in q.ev if x[0] == "call" and _sg3(x[1]).endswith(("HashSet::insert", "DirList::obtain", "Path::parent"))]
                if outside or sum(1 for x in q.ev if x[0] == "loop") != 1:
                    bad3.append("work outside the single ancestors() loop: %s" % _px3.show_events(outside)[:120])
            for e in q.ev:
                if e[0] != "loop":
                    continue
                for it in e[1]:
                    n_it += 1
                    if by_iterator:
                        names = [_sg3(x[1]).split("::")[-1] for x in it if x[0] == "call"]
                        hit = None
                        for x in it:
                            if x[0] == "branch" and x[1].endswith(CK):
                                hit = x[2] != _px3.split_not(x[1])[1]
                        ins3 = [_px3.desc(x[2]["a"][1]) for x in it if x[0] == "call" and _sg3(x[1]).endswith("HashSet::insert")]
                        ok = e[2].replace("^", "") == ANC and names[:2] == ["obtain", "check_list"] and ("loop-break",) not in it and "parent" not in names \
                            and not any(x[0] == "assign" for x in it) \
                            and ((hit is True and ins3 == ["ToOwned::to_owned(current)"]) or (hit is False and not ins3))
                        if not ok:
                            bad3.append(_px3.show_events(it)[:260])
                        continue
                    seq = [(x[0], _sg3(x[1]).split("::")[-1] if x[0] == "call" else x[1]) for x in it if x[0] in ("call", "assign")]
                    names = [b for a, b in seq]
                    ok = names[:4] == ["parent", "current", "obtain", "check_list"] and any(x[0] == "assign" and x[1] == "current" and x[2] == "parent" for x in it) \
                        and ("loop-break",) not in it
                    hit = None
                    for x in it:
                        if x[0] == "branch" and x[1].endswith(CK):
                            hit = x[2] != _px3.split_not(x[1])[1]
                    ins3 = [_px3.desc(x[2]["a"][1]) for x in it if x[0] == "call" and _sg3(x[1]).endswith("HashSet::insert")]
                    ok = ok and ((hit is True and ins3 == ["ToOwned::to_owned(current)"]) or (hit is False and not ins3))
                    if not ok:
                        bad3.append(_px3.show_events(it)[:260])
        ctx.require(not bad3 and n_it >= 2, "R20.4", "ancestor-walk", "each round moves to the parent, lists it, and inserts it exactly when check_list holds; nothing stops the walk early",
                    o3.loc(o3.line), detail=" || ".join(bad3)[:500], fail="the ancestor walk of origins() is no longer `move up, check, insert on a hit` on every round: " + " || ".join(bad3)[:300])
    except Skip:
        pass

    # ---- R20.4
    try:
        o = ctx.anchor_one("R20.4", "coroutine body of project_origins::origins",
                           [f for f in facts.fns_matching(r"^project_origins::origins::\{closure#\d+\}$") if f.kind == "coroutine"])
        cfg = CFG(o)
        ins = call_sites(o, "std::collections::hash::set::HashSet::insert")
        if call_sites(o, "std::path::Path::ancestors") and not call_sites(o, "std::path::Path::parent"):
            # `for current in path.as_ref().ancestors()`: decided completely by the path form above (std's Ancestors is the argument, then each parent, to the root)
            anc = call_sites(o, "std::path::Path::ancestors")
            okarg = len(anc) == 1 and all(a.kind in ("arg",) or (a.kind == "upvar" and a.data == "path") for a in origins(o, anc[0][1].args[0], passthrough=VALUE_CALLS)) \
                and bool(origins(o, anc[0][1].args[0], passthrough=VALUE_CALLS))
            ctx.require(okarg and len(ins) == 1, "R20.4", "ancestors-of-argument", "the walk iterates Path::ancestors of the argument itself and has one insert site", o.loc(o.line),
                        fail="origins() iterates the ancestors of something other than its argument")
            raise Skip()
        ctx.floor("R20.4", "insert sites in origins()", len(ins), 2)
        allowed_memo = {}

        def chain_ok(op_or_place, depth=0):
            """origin is the argument, or Path::parent(...) of a chain-ok value"""
            if depth > 8:
                return False
            res = True
            atoms = origins(o, op_or_place, passthrough=VALUE_CALLS)
            if not atoms:
                return False
            for a in atoms:
                if a.kind == "upvar" and a.data == "path":
                    continue
                if a.kind == "arg":
                    continue
                if a.kind == "call":
                    t = o.blocks[a.data].term
                    if t.callee.is_("std::path::Path::parent") and t.args:
                        key = a.data
                        if key in allowed_memo:
                            continue
                        allowed_memo[key] = True
                        if not chain_ok(t.args[0], depth + 1):
                            res = False
                        continue
                    res = False
                else:
                    res = False
            return res

        for bi, t in ins:
            loc = o.loc(t.line)
            ctx.require(chain_ok(t.args[1]), "R20.4", "insert-origin@%d" % ins.index((bi, t)),
                        "inserted path is the argument or a parent() of it", loc,
                        fail="a path that is neither the argument nor an ancestor of it is inserted into the origins set")
            # guarded by check_list true edge
            cl = [(b2, t2) for b2, t2 in call_sites(o, "::check_list") if cfg.dominates(b2, bi)]
            guarded = False
            for b2, t2 in cl:
                sw = o.blocks[t2.target].term if t2.target is not None else None
                if sw is not None and sw.kind == "switch":
                    false_t = [tt for v, tt in sw.cases if v == 0]
                    if false_t and not cfg.reaches(false_t[0], bi, avoid=[b2]):
                        guarded = True
            ctx.require(guarded, "R20.4", "insert-guard@%d" % ins.index((bi, t)),
                        "insert happens only when check_list() returned true", loc,
                        fail="a directory is inserted as origin without a positive marker check")
        # loop exit only via parent() == None
        par = call_sites(o, "std::path::Path::parent")
        ctx.floor("R20.4", "Path::parent call in ancestor loop", len(par), 1)
        backs = cfg.back_edges()
        rets = set(cfg.exits())

        def can_return(b):
            return bool(cfg.reachable_from(b) & rets)
        for bi, t in par:
            # the loop containing this call: its exits must be the None edge of the switch on parent()'s result
            loops = [(a, b) for a, b in backs if cfg.dominates(b, bi) and cfg.reaches(bi, a)]
            ctx.require(bool(loops), "R20.4", "parent-in-loop", "parent() is evaluated inside the ancestor loop", o.loc(t.line))
            for a, h in loops:
                body = cfg.reachable_from(h, avoid=()) & {x for x in range(cfg.n) if cfg.reaches(x, a)}
                body.add(a)
                exits = set()
                for x in body:
                    for s in cfg.succ[x]:
                        if s not in body and can_return(s):
                            exits.add((x, s))
                # all exits must originate at the switch that tests parent()'s discriminant
                okx = True
                for x, s in exits:
                    term = o.blocks[x].term
                    if term.kind != "switch":
                        okx = False
                        continue
                    at = origins(o, term.discr)
                    okd = False
                    for aa in at:
                        if aa.kind == "op":
                            st = o.blocks[aa.data[0]].stmts[aa.data[1]]
                            if st.rv.kind == "discr":
                                for a2 in origins(o, st.rv.place):
                                    if a2.kind == "call" and a2.data == bi:
                                        okd = True
                    okx = okx and okd
                # ... and there is no way to return without going through that exit (no early return before / inside the walk)
                exit_targets = [s_ for _, s_ in exits]
                early = [r for r in rets if not cfg.must_pass(0, [r], exit_targets)]
                ctx.require(not early and bool(exits), "R20.4", "no-early-return",
                            "origins() returns only after the ancestor walk has reached the filesystem root", o.loc(t.line),
                            fail="origins() can return before walking the ancestors (an early return, e.g. when the start directory is empty or unreadable): "
                                 "marked ancestors of such a path are not reported")
                ctx.require(okx and bool(exits), "R20.4", "loop-exit",
                            "the ancestor loop is left only when parent() returns None", o.loc(t.line),
                            fail="the ancestor walk can stop before reaching the filesystem root")
    except Skip:
        pass
