"""C06 - graceful stop: signal first, no kill before the grace period, kill at expiry."""
from .. import jobtask, jobrules
from ..report import Skip


def run(ctx):
    ctx.level = "other"
    ctx.undecided = ("actual signal delivery and timer accuracy (tokio sleep_until, the OS); 'immediately' and 'when the grace period "
                     "elapses' are decided as control-flow order and as the arithmetic until = now + grace / until <= now, not in wall-clock terms.")
    ctx.rule("R06.1", "GracefulStop / TryGracefulRestart on a running command: signal_child(signal) succeeds first, then the timer is armed with "
                      "the control's grace and flag, no kill is reachable in the arm, completion is deferred (part of the R09.1 effect table, re-checked here)")
    ctx.rule("R06.2", "Timer::stop/restart set until = Instant::now() + grace; is_past is until <= now; to_sleep sleeps until `until`; "
                      "to_control yields Stop / ContinueTryGracefulRestart with the timer's own flag")
    ctx.rule("R06.3", "PriorityReceiver::recv reads the normal queue only on the branch where no timer is armed; the forced control is produced "
                      "only after is_past() or after the sleep fired, and the timer is cleared on both")
    ctx.rule("R06.5", "coupling invariant I1 (restart marker set <=> restart timer armed) holds at the exit of every handler path from every "
                      "admissible entry state, so the replacement is started exactly once; timer and marker are armed with the same flag")
    ctx.rule("R06.6", "signal_child maps the Signal with to_nix(), falls back to SIGTERM, and sends it to the child; it never kills")
    ctx.rule("R06.8", "the signal delivered is the one requested: Signal::to_nix maps every first-class signal to the nix signal of its POSIX "
                      "number (table shared with C19 R19.1)")
    ctx.rule("R06.7", "restart_with_signal = [GracefulStop, Start] and stop_with_signal = [GracefulStop] on the normal queue")
    api = {}
    try:
        api = jobrules.check_api_table(ctx, "R06.7")
    except Skip:
        pass
    for fn in (jobrules.timer_summaries, jobrules.signal_child_rule):
        try:
            fn(ctx)
        except Skip:
            pass
    try:
        from . import c19
        c19.delivery_table(ctx, "R06.8")
    except Skip:
        pass
    try:
        B = jobtask.Bodies(ctx, "R06.1")
        # arm shape
        by = B.b2_paths("R06.1")
        for name, arm_kind in (("GracefulStop", "arm-stop(grace,done)"), ("TryGracefulRestart", "arm-restart(grace,Clone::clone(done))")):
            rows, unm = jobrules.rows_of(by.get(name, []))
            loc = B.b2.loc(B.b2.line)
            ctx.floor("R06.1", name + " paths", len(rows), 3)
            for conds, eff, out, sy, p in rows:
                key = "%s[%s]" % (name, ",".join(conds))
                ctx.require(not any(e in ("kill", "wait", "set-finished") for e in eff), "R06.1", key + ":no-kill",
                            "no kill in the graceful arm", loc,
                            fail="%s force-kills the process in the arm that only should signal it (before the grace period)" % name)
                if "running" in conds and "signal=Ok" in conds:
                    ok = eff and eff[0] == "signal(signal)" and arm_kind in eff and eff.index("signal(signal)") < eff.index(arm_kind) and out == "continue" and "raise(done)" not in eff
                    ctx.require(ok, "R06.1", key + ":signal-then-arm", "signal is delivered, then the grace timer is armed, completion deferred", loc,
                                fail="%s on a running command does [%s] -> %s instead of signal, arm timer, defer" % (name, " ".join(eff), out))
                if "running" in conds:
                    ctx.require(eff and eff[0] == "signal(signal)", "R06.1", key + ":signal-first", "the requested signal is the first effect", loc,
                                fail="%s does not send the control's signal first (%s)" % (name, " ".join(eff)))
        jobrules.recv_gating(ctx, B)
        jobrules.coupling_invariant(ctx, B, api)
    except Skip:
        pass
