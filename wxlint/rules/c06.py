"""C06 - graceful stop: signal first, no kill before the grace period, kill at expiry."""
from .. import jobtask, jobrules
from ..report import Skip


def stop_plumbing(ctx, rule):
    """--stop-timeout / --stop-signal as parsed are what the CLI's graceful restart and graceful quit use (shared with C05)"""
    from .. import thir, pathx
    from ..facts import strip_generics
    ca = ctx.facts.find_adt("watchexec_cli::args::command::CommandArgs")
    st = [f for f in (ca["variants"][0]["fields"] if ca else []) if f["name"] == "stop_timeout"]
    ts = ctx.facts.find_adt("watchexec_cli::args::TimeSpan")
    ctx.require(bool(st) and st[0]["ty"] == "watchexec_cli::args::TimeSpan", rule, "stop-timeout-unit", "--stop-timeout is TimeSpan with the default multiplier: unit-less = seconds",
                detail=st[0]["ty"] if st else "", fail="--stop-timeout no longer reads unit-less values as seconds (%s): the grace period is a thousand times shorter than asked" % (st[0]["ty"] if st else "field missing"))
    from . import c02 as _c02t
    _c02t.timespan_parse(ctx, rule)
    # --stop-signal is parsed by Signal::from_str, which must hand the text as written to both name tables
    from . import c19 as _c19f
    _c19f.fromstr_table(ctx, rule)
    mk = ctx.anchor_fn(rule, "watchexec_cli::config::make_config")
    lets = {}
    for s_ in thir.walk(thir.root(mk)):
        if isinstance(s_, dict) and s_.get("k") == "let" and s_["p"].get("k") == "bind" and isinstance(s_.get("i"), dict) and s_["p"]["n"] in ("stop_timeout", "stop_signal"):
            lets[s_["p"]["n"]] = pathx.desc(s_["i"])
    ctx.require(lets == {"stop_timeout": "args.command.stop_timeout.0", "stop_signal": "args.command.stop_signal"}, rule, "stop-options-read", "the handler's grace and signal are the parsed options",
                mk.loc(mk.line), detail=str(lets))
    uses = []
    for g in ctx.facts.descendants(mk):
        for c, nd in thir.calls_in(thir.root(g)):
            if strip_generics(c).endswith(("Job::restart_with_signal", "Handler::quit_gracefully")) and not pathx.is_tracing(nd):
                uses.append((strip_generics(c).split("::")[-1], [pathx.desc(a).replace("^", "") for a in nd["a"][1:]]))
    want = {("restart_with_signal", ("Option::unwrap_or(stop_signal, Terminate)", "stop_timeout")), ("quit_gracefully", ("Option::unwrap_or(stop_signal, Terminate)", "stop_timeout")),
            ("quit_gracefully", ("ForceStop", "ZERO"))}
    got = {(n, tuple(a)) for n, a in uses}
    ctx.require(got == want, rule, "stop-options-used", "graceful restart and graceful quit use (stop signal or SIGTERM, stop timeout); only the second quit request forces",
                mk.loc(mk.line), detail=str(sorted(got))[:300], fail="the CLI passes something other than (--stop-signal or SIGTERM, --stop-timeout) as signal and grace: %s" % str(sorted(got - want))[:200])



def run(ctx):
    ctx.level = "other"
    ctx.undecided = ("actual signal delivery and timer accuracy (tokio sleep_until, the OS); 'immediately' and 'when the grace period "
                     "elapses' are decided as control-flow order and as the arithmetic until = now + grace / until <= now, not in wall-clock terms.")
    ctx.rule("R06.1", "GracefulStop / TryGracefulRestart on a running command: signal_child(signal) succeeds first, then the timer is armed with "
                      "the control's grace and flag, no kill is reachable in the arm, completion is deferred (part of the R09.1 effect table, re-checked here)")
    ctx.rule("R06.2", "Timer::stop/restart set until = Instant::now() + grace (checked: a sum that does not fit an Instant becomes a far-future deadline, never a panic); is_past is until <= now; to_sleep sleeps until `until`; "
                      "to_control yields Stop / ContinueTryGracefulRestart with the timer's own flag")
    ctx.rule("R06.3", "PriorityReceiver::recv reads the normal queue only on the branch where no timer is armed; the forced control is produced "
                      "only after is_past() or after the sleep fired, and the timer is cleared on both")
    ctx.rule("R06.5", "coupling invariant I1 (restart marker set <=> restart timer armed) holds at the exit of every handler path from every "
                      "admissible entry state, so the replacement is started exactly once; timer and marker are armed with the same flag")
    ctx.rule("R06.6", "signal_child maps the Signal with to_nix(), falls back to SIGTERM, and sends it to the child; it never kills")
    ctx.rule("R06.8", "the signal delivered is the one requested: Signal::to_nix maps every first-class signal to the nix signal of its POSIX "
                      "number (table shared with C19 R19.1)")
    ctx.rule("R06.9", "CLI plumbing of the grace period: --stop-timeout is a TimeSpan with the default unit (unit-less = seconds), its duration is what the "
                      "action handler passes as the grace of restart_with_signal and of the graceful quit, with --stop-signal (or SIGTERM) as the signal")
    ctx.rule("R06.7", "restart_with_signal = [GracefulStop, Start] and stop_with_signal = [GracefulStop] on the normal queue")
    api = {}
    try:
        api = jobrules.check_api_table(ctx, "R06.7")
    except Skip:
        pass
    ctx.rule("R06.11", "no duration supplied at run time (grace period, throttle, delay) is added to an Instant with the panicking operator anywhere in the "
                       "library, supervisor or CLI: the job task cannot be brought down - and the child killed through its dropped handle - by a grace period of Duration::MAX")
    try:
        jobrules.no_panicking_instant_arith(ctx, "R06.11")
    except Skip:
        pass
    for fn in (jobrules.timer_summaries, jobrules.signal_child_rule):
        try:
            fn(ctx)
        except Skip:
            pass
    try:
        from . import c19
        c19.delivery_table(ctx, "R06.8")
    except Skip:
        pass
    try:
        B = jobtask.Bodies(ctx, "R06.1")
        # arm shape
        by = B.b2_paths("R06.1")
        for name, arm_kind in (("GracefulStop", "arm-stop(grace,done)"), ("TryGracefulRestart", "arm-restart(grace,Clone::clone(done))")):
            rows, unm = jobrules.rows_of(by.get(name, []))
            loc = B.b2.loc(B.b2.line)
            ctx.floor("R06.1", name + " paths", len(rows), 3)
            for conds, eff, out, sy, p in rows:
                key = "%s[%s]" % (name, ",".join(conds))
                ctx.require(not any(e in ("kill", "wait", "set-finished") for e in eff), "R06.1", key + ":no-kill",
                            "no kill in the graceful arm", loc,
                            fail="%s force-kills the process in the arm that only should signal it (before the grace period)" % name)
                if "running" in conds and "signal=Ok" in conds:
                    ok = eff and eff[0] == "signal(signal)" and arm_kind in eff and eff.index("signal(signal)") < eff.index(arm_kind) and out == "continue" and "raise(done)" not in eff
                    ctx.require(ok, "R06.1", key + ":signal-then-arm", "signal is delivered, then the grace timer is armed, completion deferred", loc,
                                fail="%s on a running command does [%s] -> %s instead of signal, arm timer, defer" % (name, " ".join(eff), out))
                if "running" in conds:
                    ctx.require(eff and eff[0] == "signal(signal)", "R06.1", key + ":signal-first", "the requested signal is the first effect", loc,
                                fail="%s does not send the control's signal first (%s)" % (name, " ".join(eff)))
        jobrules.recv_gating(ctx, B)
        jobrules.coupling_invariant(ctx, B, api)
    except Skip:
        pass
    try:
        stop_plumbing(ctx, "R06.9")
    except Skip:
        pass

    # ---- R06.10 the whole-instance graceful quit is a graceful stop of every job - rules owned by C08
    ctx.rule("R06.10", "the graceful quit path stops each job through the same graceful stop: signal and grace as given, no urgent kill behind it")
    ctx.borrow("C08", ["R08.3", "R08.5"], "R06.10", "quit_gracefully records (signal, grace) for every argument value; each job gets stop_with_signal(signal, grace) then a normal-priority delete")

    ctx.rule("R06.12", "a job created in the same action that asks for the graceful quit is stopped gracefully too")
    ctx.borrow("C08", ["R08.1"], "R06.12", "the new job tasks of an action are taken over before the quit decision on every path")
