"""C11 - path filter verdicts follow the documented glob, ignore and extension rules (decision structure)."""
import re

from .. import thir, pathx
from ..facts import strip_generics
from ..report import Skip
from ..throttle import implies

GF = "watchexec_filterer_globset::GlobsetFilterer"


def interesting(d):
    p = strip_generics(d)
    return not any(p.startswith(x) for x in ("core::clone::Clone::clone", "core::convert::", "core::ops::deref", "core::fmt", "tracing"))


def names(p):
    return [strip_generics(e[1]) for e in p.ev if e[0] == "call"]


def ignore_files_consulted(ctx, rule):
    """every non-whitelisted path through GlobsetFilterer::check_event asks the loaded ignore files, unconditionally (shared with C03)"""
    facts = ctx.facts
    ce = ctx.anchor_one(rule, "<GlobsetFilterer as Filterer>::check_event", facts.trait_methods(GF, "Filterer", "check_event"))
    root = thir.root(ce)
    pathx.SUBST = pathx.let_substitutions(root)
    try:
        ps = pathx.Enum(interesting=interesting).paths(root)
    finally:
        pathx.SUBST = {}
    ctx.floor(rule, "event-level paths", len(ps), 4)
    bad = []
    n = 0
    for p in ps:
        brs = [e for e in p.ev if e[0] == "branch"]
        wl = [b for b in brs if "Iterator::any(Event::paths(event), closure)" in b[1] or "whitelist" in b[1]]
        if wl and wl[0][2] and not wl[0][1].startswith("Not "):
            continue
        n += 1
        first = [b for b in brs if b not in wl[:1]]
        if not (first and "check_event(self.ignore_files" in first[0][1].replace("^", "")):
            bad.append(repr(p)[:200])
    ctx.require(n >= 3 and not bad, rule, "globset-consults-ignore-files", "after the whitelist, the first decision on every path is the loaded ignore files' verdict on the event (%d paths)" % n,
                ce.loc(ce.line), detail=str(bad[:2]),
                fail="some events reach the glob stage without the loaded ignore files being asked (or only under an extra condition)")


def run(ctx):
    ctx.level = "other"
    facts = ctx.facts
    ctx.undecided = ("what a glob pattern matches (the `ignore` crate's Gitignore), i.e. verdicts over the pattern grammar; decided is the decision "
                     "structure: which matcher is consulted in which order on every path and which verdict each outcome produces.")
    ctx.rule("R11.1", "event level: the whitelist test comes first and returns pass; then the ignore-files filterer rejects; an event without paths "
                      "passes; otherwise the verdict is `any` over the per-path decision")
    ctx.also("R11.1", 'the whitelist the CLI installs is the watched files as given (shared with R12.1)')
    ctx.rule("R11.2", "per path (inside the `any` closure): the ignore patterns are consulted first and a match returns false before any filter is "
                      "consulted; every `true` comes from a filter-pattern match or an extension match; directories never satisfy an extension filter "
                      "but are still offered to the filter patterns first; the fall-through is `!filtered` with `filtered` set exactly when filters "
                      "or extensions are configured")
    ctx.rule("R11.3", "wiring of GlobsetFilterer::new: the `filters` argument feeds the builder stored in field `filters`, `ignores` -> `ignores`, "
                      "`ignore_files` -> IgnoreFilter::new -> `ignore_files`, `whitelist` and `extensions` are stored unchanged")
    ctx.rule("R11.4", "CLI layer: fs-event-kind filter, then the globset filterer, then filter programs; FileEventKind -> FsEvent table over the "
                      "enumerated kind domain")
    try:
        from .. import evrules
        evrules.accessor(ctx, "R11.1", "paths")     # "the paths of an event" = exactly its Tag::Path tags
    except Skip:
        pass
    try:
        from . import c12 as _c12w
        _c12w.whitelist_files(ctx, "R11.1")        # what the CLI puts on the whitelist: the watched files as given (the test below compares spellings)
    except Skip:
        pass
    try:
        ce = ctx.anchor_one("R11.1", "<GlobsetFilterer as Filterer>::check_event", facts.trait_methods(GF, "Filterer", "check_event"))
        root = thir.root(ce)
        pathx.SUBST = pathx.let_substitutions(root)
        try:
            ps = pathx.Enum(interesting=interesting).paths(root)
        finally:
            pathx.SUBST = {}
        loc = ce.loc(ce.line)
        ctx.floor("R11.1", "event-level paths", len(ps), 4)
        seen = set()
        for p in ps:
            ns = names(p)
            brs = [e for e in p.ev if e[0] == "branch"]
            closures = [e[1] for e in p.ev if e[0] == "closure"]
            wl = [b for b in brs if "Iterator::any(Event::paths(event), closure)" in b[1] or "whitelist" in b[1]]
            igf = [b for b in brs if "check_event(self.ignore_files" in b[1].replace("^", "")]
            peek = [b for b in brs if "Peekable::peek" in b[1] and "is_none" in b[1]]
            out = (p.out, p.val)
            if wl and implies(wl[0][1], wl[0][2], wl[0][1].lstrip("Not ") if False else wl[0][1], True) and wl[0][2] and not wl[0][1].startswith("Not "):
                seen.add("whitelist")
                ctx.require(out == ("ret", "Ok{0: True}") and not igf and not any("Gitignore::matched" in n for n in ns), "R11.1", "whitelist-first",
                            "a whitelisted path passes before any other check", loc, detail=repr(p)[:300],
                            fail="the whitelist test is not the first decision or does not return pass")
                continue
            if not wl:
                ctx.incomplete("R11.1", "whitelist-test-missing", "a path through check_event does not test the whitelist first", loc, detail=repr(p)[:300])
                continue
            if igf and ((igf[0][1].startswith("Not ") and igf[0][2]) or (not igf[0][1].startswith("Not ") and not igf[0][2])):
                seen.add("ignore-files")
                ctx.require(out == ("ret", "Ok{0: False}") and not peek, "R11.1", "ignore-files-reject",
                            "an event rejected by the loaded ignore files is rejected", loc,
                            fail="a rejection by the ignore files does not reject the event")
                continue
            if not igf:
                ctx.incomplete("R11.1", "ignore-files-test-missing", "a non-whitelisted path through check_event skips the ignore-files filterer", loc, detail=repr(p)[:300])
                continue
            if peek and peek[0][2]:
                seen.add("no-paths")
                ctx.require(p.val == "Ok{0: True}", "R11.1", "no-paths-pass", "an event without paths passes", loc, detail=str(out))
                continue
            seen.add("per-path")
            anyc = [e for e in p.ev if e[0] == "call" and strip_generics(e[1]).endswith("Iterator::any")]
            ctx.require(bool(anyc) and (p.val or "").startswith("Ok{0: Iterator::any("), "R11.1", "any-over-paths",
                        "the verdict of a pathed event is `any` over its paths", loc, detail=str(out),
                        fail="the event verdict is no longer `any` over the per-path decisions")
            # no glob matcher at event level (ignores must be per path)
            ctx.require(not any("Gitignore::matched" in n for n in ns), "R11.2", "no-event-level-glob-match",
                        "ignore/filter patterns are not consulted at event level (one ignored path must not reject a multi-path event)", loc,
                        fail="ignore patterns are consulted once per event instead of per path: any ignored path rejects the whole event")
        wtests = sorted({b[1].replace("^", "") for p in ps for b in p.ev if b[0] == "branch" and ("whitelist" in b[1] or "Event::paths(event), closure)" in b[1])})
        ctx.require(wtests == ["Iterator::any(Event::paths(event), closure)"], "R11.1", "whitelist-any-path", "the whitelist passes an event as soon as ANY of its paths is an explicitly watched file, with no further condition",
                    loc, detail=str(wtests)[:300],
                    fail="the whitelist shortcut is no longer `any path of the event is explicitly watched` (%s): an event that names a watched file together with another path loses its pass" % wtests)
        ctx.require(seen == {"whitelist", "ignore-files", "no-paths", "per-path"}, "R11.1", "all-stages", "all four event-level outcomes exist", loc, detail=str(sorted(seen)))
        # whitelist closure: equality scan
        cls = facts.children(ce)
        wcl = [c for c in facts.descendants(ce) if any(t.callee.is_("core::cmp::PartialEq::eq") and "Path" in (t.callee.full or "") for _, t in c.calls())]
        scan = [c for c in cls if any(t.callee.is_("core::iter::traits::iterator::Iterator::any") for _, t in c.calls())
                and any("whitelist" in (c.name_of_place(s.rv.place) or "") for b in c.blocks for s in b.stmts if s.kind == "=" and s.rv.place is not None)]
        ctx.require(bool(wcl) and bool(scan), "R11.1", "whitelist-equality-scan", "whitelist membership is an equality scan over the stored list", loc,
                    fail="whitelist membership is no longer decided by comparing the path with every stored entry (e.g. a search that depends on an ordering)")

        # ---- per-path closure
        pc = [c for c in cls if c.kind == "closure" and sum(1 for _, t in c.calls() if t.callee.is_("ignore::gitignore::Gitignore::matched")) >= 2]
        if not pc:
            # the per-path decision moved into a named method that the closure calls: the normalised tree of the closure holds the spliced body
            pc = [c for c in cls if c.kind == "closure" and sum(1 for cd_, _ in thir.calls_in(thir.root(c)) if strip_generics(cd_).endswith("gitignore::Gitignore::matched")) >= 2]
        c = ctx.anchor_one("R11.2", "per-path decision closure", pc)
        croot = thir.root(c)
        pathx.SUBST = pathx.let_substitutions(croot)
        try:
            cps = pathx.Enum(interesting=interesting).paths(croot)
        finally:
            pathx.SUBST = {}
        cloc = c.loc(c.line)
        ctx.floor("R11.2", "per-path decision paths", len(cps), 8)
        n_true = 0
        for p in cps:
            idx = {}
            for i, e in enumerate(p.ev):
                if e[0] == "branch":
                    d = e[1].replace("^", "")
                    if "Gitignore::matched(self.ignores" in d:
                        idx.setdefault("ignores", (i, e))
                    elif "num_ignores(self.filters" in d:
                        idx.setdefault("has-filters", (i, e))
                    elif "Gitignore::matched(self.filters" in d:
                        idx.setdefault("filters", (i, e))
                    elif "Vec::is_empty(self.extensions" in d:
                        idx.setdefault("has-exts", (i, e))
                    elif d in ("is_dir", "Option::map_or(file_type, False, closure)", "Option::is_some_and(file_type, closure)"):
                        idx.setdefault("is-dir", (i, e))
            order = [k for k, _ in sorted(idx.items(), key=lambda kv: kv[1][0])]
            key = ",".join("%s=%s" % (k, idx[k][1][2]) for k in order) or "none"
            val = p.val if p.out in ("ret", "val") else p.out
            # ignores first
            ctx.require(order[:1] == ["ignores"], "R11.2", "ignores-first:" + key, "the ignore patterns are the first decision for a path", cloc,
                        fail="a path is judged by filters/extensions before (or without) the ignore patterns: order %s" % order)
            if "ignores" in idx and idx["ignores"][1][2] is True and not idx["ignores"][1][1].startswith("Not "):
                ctx.require(p.out == "ret" and val == "False" and order == ["ignores"], "R11.2", "ignored-rejects",
                            "a path matched by an ignore pattern is rejected at once", cloc, detail=str(val),
                            fail="a path matched by an ignore pattern is not rejected immediately (%s)" % val)
                continue
            # section order
            pos = {k: i for i, k in enumerate(order)}
            if "filters" in pos and "has-exts" in pos:
                ctx.require(pos["filters"] < pos["has-exts"], "R11.2", "filters-before-extensions:" + key, "filter patterns are consulted before extensions", cloc)
            if "is-dir" in pos and "has-filters" in pos:
                ctx.require(pos["has-filters"] < pos["is-dir"], "R11.2", "dir-after-filters:" + key,
                            "the directory early-out of the extension filter comes after the filter patterns were offered the path", cloc,
                            fail="directories are rejected by the extension rule before the filter patterns are consulted: a directory matching a filter pattern is rejected")
            if "is-dir" in pos:
                ctx.require("has-exts" in pos and pos["has-exts"] < pos["is-dir"] and idx["has-exts"][1][2] is False,
                            "R11.2", "dir-rule-only-with-extensions:" + key, "the directory rule applies only when extensions are configured", cloc)
            if p.out == "ret" and val == "True":
                n_true += 1
                by_filter = any(e[0] == "branch" and "Gitignore::matched(self.filters" in e[1].replace("^", "") and "is_ignore" in e[1] and e[2] is True for e in p.ev)
                by_ext = any(e[0] == "branch" and "Iterator::any(" in e[1] and "extensions" in e[1] and e[2] is True for e in p.ev)
                ctx.require(by_filter or by_ext, "R11.2", "true-needs-match:" + key, "`true` is returned only after a filter-pattern or extension match", cloc,
                            detail=pathx.show_events(p.ev)[-300:], fail="a path passes without matching a filter pattern or an extension")
            if p.out == "val":
                ctx.require(val == "Not filtered", "R11.2", "fallthrough:" + key, "the fall-through verdict is !filtered", cloc, detail=str(val))
                sets = [e for e in p.ev if e[0] == "assign" and e[1] == "filtered"]
                entered = ("has-filters" in idx and idx["has-filters"][1][2] is True) or \
                          ("has-exts" in idx and idx["has-exts"][1][2] is False)
                ctx.require(bool(sets) == bool(entered), "R11.2", "filtered-flag:" + key, "`filtered` is set exactly when filters or extensions are configured", cloc)
        ctx.floor("R11.2", "`true` paths", n_true, 3)
        # ---- the complete per-path verdict table: the verdict of every path equals the documented function of the evidence on it
        init = None
        for st in thir.walk(croot):
            if isinstance(st, dict) and st.get("k") == "let" and st["p"].get("k") == "bind" and st["p"].get("n") == "filtered" and isinstance(st.get("i"), dict):
                lit = thir.peel(st["i"])
                if lit.get("k") == "lit" and isinstance(lit.get("b"), bool):
                    init = lit["b"]
        ctx.require(init is False, "R11.2", "filtered-init", "`filtered` starts as false", cloc, detail=str(init),
                    fail="`filtered` no longer starts as false: with no filter and no extension configured every path is rejected")
        ISDIR = ("Option::map_or(file_type, False, closure)", "Option::is_some_and(file_type, closure)", "is_dir")

        def ev_of(p):
            f = dict(ign=None, hasf=None, fm=None, hase=None, dir=None, ext=None, extm=None)
            for e in p.ev:
                if e[0] == "branch":
                    d = e[1].replace("^", "")
                    core, neg = pathx.split_not(d)
                    tr = (e[2] != neg)
                    if core.startswith("Match::is_ignore(Gitignore::matched(self.ignores, path, "):
                        f["ign"] = tr
                    elif core == "Gitignore::num_ignores(self.filters) Gt 0" or core == "Gitignore::num_ignores(self.filters) Ne 0":
                        f["hasf"] = tr
                    elif core == "Gitignore::num_ignores(self.filters) Eq 0":
                        f["hasf"] = not tr
                    elif core.startswith("Match::is_ignore(Gitignore::matched(self.filters, "):
                        f["fm"] = bool(f["fm"]) or tr
                    elif core == "Vec::is_empty(self.extensions)":
                        f["hase"] = not tr
                    elif core in ISDIR:
                        f["dir"] = tr
                    elif core.startswith("Iterator::any(slice::iter(self.extensions), closure)"):
                        f["extm"] = tr
                elif e[0] == "iflet" and e[1] == "Path::extension(path)":
                    f["ext"] = e[3] if "Some" in e[2] else (not e[3])
            return f

        n_rows = 0
        for p in cps:
            f = ev_of(p)
            if p.out == "ret" and p.val in ("True", "False"):
                actual = p.val == "True"
            elif p.out == "val" and p.val == "Not filtered":
                fl = init
                for e in p.ev:
                    if e[0] == "assign" and e[1] == "filtered" and e[2] in ("True", "False"):
                        fl = e[2] == "True"
                actual = None if fl is None else (not fl)
            else:
                ctx.violation("R11.2", "table:result:%s" % p.val, "the per-path decision ends in something other than true / false / !filtered: %s %s" % (p.out, p.val), cloc)
                continue
            und = None
            if f["ign"] is None:
                und = "ignore patterns not consulted"
            elif f["ign"]:
                exp = False
            elif f["hasf"] is None:
                und = "whether filter patterns exist is not tested"
            elif f["hasf"] and f["fm"] is None:
                und = "filter patterns exist but are not consulted"
            elif f["hasf"] and f["fm"]:
                exp = True
            elif f["hase"] is None:
                und = "whether extensions exist is not tested"
            elif f["hase"]:
                if f["dir"] is None:
                    und = "extensions configured but the file type is not tested"
                elif f["dir"]:
                    exp = False
                elif f["ext"] is None:
                    und = "extensions configured but the path's extension is not looked at"
                elif f["ext"]:
                    if f["extm"] is None:
                        und = "the path's extension is not compared with the configured ones"
                    else:
                        exp = True if f["extm"] else (not (f["hasf"] or f["hase"]))
                else:
                    exp = False
            else:
                exp = not (f["hasf"] or f["hase"])
            key = ",".join("%s=%s" % (k, {True: "y", False: "n"}[v]) for k, v in f.items() if v is not None)
            if und is not None:
                ctx.violation("R11.2", "table:undetermined:" + key, "per-path decision: %s (on the path %s)" % (und, key), cloc)
                continue
            n_rows += 1
            ctx.require(actual == exp, "R11.2", "table:" + key, "verdict %s for a path with %s" % (exp, key), cloc, detail=pathx.show_events(p.ev)[-300:],
                        fail="a path with [%s] gets verdict %s, documented verdict is %s" % (key, actual, exp))
        ctx.floor("R11.2", "rows of the per-path verdict table", n_rows, 12)
        # is_dir means exactly "the file type is known and is Dir", and every matcher gets the same (path, is_dir)
        isd = [c2 for c2 in facts.children(c) if c2.kind == "closure" and pathx.desc(thir.peel(thir.root(c2))) in ("PartialEq::eq(t, Dir)",)]
        lets = {}
        for st in thir.walk(croot):
            if isinstance(st, dict) and st.get("k") == "let" and st["p"].get("k") == "bind" and isinstance(st.get("i"), dict):
                lets[st["p"]["n"]] = pathx.desc(st["i"])
        ctx.require(lets.get("is_dir") in ("Option::map_or(file_type, False, closure)", "Option::is_some_and(file_type, closure)") and len(isd) == 1, "R11.2", "is-dir-definition",
                    "is_dir = the file type is known and is Dir (unknown counts as not a directory)", cloc, detail="%s / %d" % (lets.get("is_dir"), len(isd)),
                    fail="is_dir is no longer `file_type.map_or(false, |t| matches!(t, FileType::Dir))`: paths of unknown type are treated as directories (or directories as files)")
    except Skip:
        pass

    # ---- R11.3 wiring
    try:
        n = ctx.anchor_one("R11.3", "GlobsetFilterer::new coroutine", [c for c in facts.children(ctx.anchor_fn("R11.3", GF + "::new")) if c.kind == "coroutine"])
        root = thir.root(n)
        loops = {}
        for m in thir.find(root, "match"):
            if m.get("src") == "ForLoopDesugar":
                inner = thir.peel(m["e"])
                if inner.get("k") == "call" and inner.get("a"):
                    src = pathx.desc(inner["a"][0])
                    adds = [pathx.desc(x["a"][0]) for c, x in thir.calls_in(m["arms"][0]["b"]) if strip_generics(c).endswith("GitignoreBuilder::add_line")]
                    if adds:
                        loops[src] = adds[0]
        # the same feeding written as `list.into_iter().try_for_each(|(line, dir)| builder.add_line(..))`
        for c_, nd_ in thir.calls_in(root):
            if strip_generics(c_).split("::")[-1] in ("try_for_each", "for_each") and len(nd_["a"]) == 2:
                src = pathx.desc(nd_["a"][0]).replace("^", "")
                for pre in ("IntoIterator::into_iter(", "slice::iter(", "Vec::iter("):
                    if src.startswith(pre) and src.endswith(")"):
                        src = src[len(pre):-1]
                cl = thir.peel(nd_["a"][1])
                g_ = facts.find_fn(cl.get("def")) if isinstance(cl, dict) and cl.get("k") == "closure" else None
                if g_ is not None:
                    adds = [pathx.desc(x["a"][0]).replace("^", "") for c2, x in thir.calls_in(thir.root(g_)) if strip_generics(c2).endswith("GitignoreBuilder::add_line")]
                    if adds:
                        loops[src] = adds[0]
        ctx.require(loops == {"filters": "filters_builder", "ignores": "ignores_builder"}, "R11.3", "builders-fed", "filters feed filters_builder, ignores feed ignores_builder",
                    n.loc(n.line), detail=str(loops), fail="the filter / ignore pattern lists feed the wrong builders: %s" % loops)
        lets = {}
        for s in thir.walk(root):
            if s.get("k") == "let" and s["p"].get("k") == "bind" and isinstance(s.get("i"), dict):
                lets.setdefault(s["p"]["n"], []).append(pathx.desc(s["i"]))
        okf = any("GitignoreBuilder::build(filters_builder)" in d for d in lets.get("filters", []))
        oki = any("GitignoreBuilder::build(ignores_builder)" in d for d in lets.get("ignores", []))
        ctx.require(okf and oki, "R11.3", "built-sets", "field `filters` is built from filters_builder and `ignores` from ignores_builder", n.loc(n.line),
                    detail=str({k: v for k, v in lets.items() if k in ("filters", "ignores")}),
                    fail="the compiled filter and ignore sets are swapped or built from the wrong builder")
        final = [x for x in thir.find(root, "adt") if x["adt"] == GF]
        ok = False
        if final:
            fs = {k: pathx.desc(v) for k, v in final[-1]["f"]}
            ok = all(fs.get(k) == k for k in ("filters", "ignores", "whitelist", "ignore_files", "extensions"))
        ctx.require(ok, "R11.3", "fields-by-name", "each field is initialised from the same-named value", n.loc(n.line), detail=str(fs if final else None))
        igf = [pathx.desc(x) for c, x in thir.calls_in(root) if strip_generics(c).endswith("IgnoreFilter::new")]
        ctx.require(len(igf) == 1 and "ignore_files" in igf[0], "R11.3", "ignore-files-loaded", "the ignore_files argument is loaded through IgnoreFilter::new", n.loc(n.line))
        # ... in the order given (listed order is precedence between files of one directory, C03 R03.3): no reordering operation anywhere in GlobsetFilterer::new
        from .c03 import UNORDERED as _UNORD
        reord = []
        for g in [n] + facts.descendants(n):
            for _, t in g.calls():
                full = (t.callee.full or "") + " " + (t.callee.def_ or "")
                for u in _UNORD + ("::sort", "sort_by", "dedup", "::reverse", "BTreeSet", "BTreeMap"):
                    if u in full and not g.macro(t.mac):
                        reord.append(strip_generics(t.callee.def_))
        igargs = [[pathx.desc(a) for a in x["a"]] for c, x in thir.calls_in(root) if strip_generics(c).endswith("IgnoreFilter::new")]
        ctx.require(not reord and igargs == [["origin", "Iterator::collect(IntoIterator::into_iter(ignore_files))"]], "R11.3", "ignore-files-order-kept",
                    "the ignore files reach IgnoreFilter::new as given (collected, not sorted / de-duplicated / hashed)", n.loc(n.line), detail="%s %s" % (sorted(set(reord))[:4], igargs),
                    fail="GlobsetFilterer::new reorders its inputs before loading them (%s / %s): precedence between ignore files of one directory no longer follows the listed order"
                         % (sorted(set(reord))[:4], igargs))
    except Skip:
        pass

    # ---- the ignore-files stage that check_event consults first (tables shared with C03)
    try:
        from . import c03 as _c03c
        _c03c.consumers(ctx, "R11.1", only="IgnoreFilterer::check_event")
        _c03c.builders_stay(ctx, "R11.3")
        _c03c.matcher_selection(ctx, "R11.1")
        _c03c.simplify_rule(ctx, "R11.1")
        from . import c14 as _c14o
        _c14o.origin_table(ctx, "R11.3")
    except Skip:
        pass

    # ---- R11.4 CLI layer
    try:
        WF = "watchexec_cli::filterer::WatchexecFilterer"
        cf = ctx.anchor_one("R11.4", "<WatchexecFilterer as Filterer>::check_event", facts.trait_methods(WF, "Filterer", "check_event"))
        bodies = [cf] + facts.descendants(cf)
        order = []
        for b in bodies:
            ctx.saw_fn(b)
        body = max(bodies, key=lambda b: len(b.blocks))
        for c, x in thir.calls_in(thir.root(body)):
            s = strip_generics(c)
            if s.endswith("slice::contains") or s.endswith("<impl [T]>::contains"):
                order.append(("fs-events", x["l"]))
            elif s.endswith("Filterer::check_event"):
                order.append(("globset", x["l"]))
            elif s.endswith("FilterProgs::check"):
                order.append(("programs", x["l"]))
        seq = [k for k, _ in sorted(order, key=lambda kv: kv[1])]
        ctx.require(seq == ["fs-events", "globset", "programs"], "R11.4", "stage-order", "fs-event kinds, then path filters, then filter programs", cf.loc(cf.line), detail=str(seq))
        # verdict table of the CLI filter over all syntactic paths
        KIND = "slice::contains(self.fs_events, normalised)"
        INNER = "Filterer::check_event(self.inner, event, priority)?"
        PROGS = "FilterProgs::check(progs, event)?"
        en4 = pathx.Enum(interesting=lambda d: strip_generics(d).endswith(("Filterer::check_event", "FilterProgs::check", "slice::contains")))
        rows4 = set()
        bad4 = []
        for q in en4.paths(thir.root(body)):
            if q.out == "ret" and "from_residual" in (q.val or ""):
                continue    # an error of the inner filterer / a filter program is propagated as the event's filter error
            ev = {"kind": None, "inner": None, "progs": None, "hasprogs": None}
            for e in q.ev:
                if e[0] == "branch":
                    core, neg = pathx.split_not(e[1].replace("^", ""))
                    tr = (e[2] != neg)
                    if core == KIND:
                        ev["kind"] = tr
                    elif core == INNER:
                        ev["inner"] = tr
                    elif core == PROGS:
                        ev["progs"] = tr
                elif e[0] == "iflet" and e[1].replace("^", "") == "self.progs":
                    ev["hasprogs"] = e[3] if "Some" in e[2] else (not e[3])
                elif e[0] == "loop":
                    for it in e[1]:
                        # iterations that stay in the loop: the kind is allowed, the tag is not a kind, or the kind is not one the option knows
                        okc = ("loop-break",) not in it
                        for x in it:
                            if x[0] == "branch" and pathx.split_not(x[1].replace("^", ""))[0] == KIND and (x[2] != pathx.split_not(x[1])[1]) is not True:
                                okc = False
                        if not okc:
                            bad4.append("an event kind that is not allowed does not reject: " + pathx.show_events(it)[:160])
            res = {"Ok{0: True}": True, "Ok{0: False}": False}.get(q.val)
            if res is None:
                bad4.append("result %s" % q.val)
                continue
            if ev["kind"] is False:
                exp = False
            elif ev["inner"] is False:
                exp = False
            elif ev["inner"] is True and ev["hasprogs"] is False:
                exp = True
            elif ev["inner"] is True and ev["hasprogs"] is True and ev["progs"] is not None:
                exp = ev["progs"]
            else:
                bad4.append("verdict %s without consulting every stage (%s)" % (res, {k: v for k, v in ev.items() if v is not None}))
                continue
            rows4.add(tuple(sorted((k, v) for k, v in ev.items() if v is not None)))
            if res != exp:
                bad4.append("verdict %s where %s is documented (%s)" % (res, exp, {k: v for k, v in ev.items() if v is not None}))
        ctx.require(not bad4 and len(rows4) >= 5, "R11.4", "cli-verdict-table", "the CLI filter rejects on a disallowed kind, on the path filterer's reject and on a filter program's reject, "
                    "and passes otherwise (%d rows)" % len(rows4), cf.loc(cf.line), detail="; ".join(bad4)[:500],
                    fail="the CLI filter's verdict no longer follows its stages: " + "; ".join(bad4)[:300])
        ms = [m for m in thir.find(thir.root(body), "match") if m["src"] == "Normal" and "EventKind" in m["sty"]]
        if len(ms) != 1:
            ctx.violation("R11.4", "floor:kind-match", "the fs-event normalisation table was not found", cf.loc(cf.line))
        else:
            m = ms[0]
            fek = m["sty"].lstrip("&")
            want = {"Access": "Access", "Create": "Create", "Remove": "Remove"}
            for v in thir.enum_values(facts, fek, depth=4):
                name = thir.debug_render(v)
                i = thir.first_arm(m, v)
                if i is None:
                    ctx.incomplete("R11.4", "fs-kind:" + name, "undetermined arm", cf.loc(m["l"]))
                    continue
                got = thir.expr_value(m["arms"][i]["b"])
                got = got[2] if got[0] == "v" else ("skip" if m["arms"][i]["b"].get("k") == "continue" or thir.find(m["arms"][i]["b"], "continue") else "?")
                top = v[2]
                if top == "Modify":
                    sub = list(v[3].values())[0][2]
                    exp = {"Name": "Rename", "Metadata": "Metadata"}.get(sub, "Modify")
                elif top in want:
                    exp = want[top]
                else:
                    exp = "skip"
                ctx.require(got == exp, "R11.4", "fs-kind:" + name, "%s is filtered as %s" % (name, exp), cf.loc(m["arms"][i]["l"]),
                            fail="%s is filtered as %s, documented %s" % (name, got, exp))
    except Skip:
        pass

    # ---- R11.5 the nearest matching ignore file decides, whitelist or ignore (walk owned by C03)
    ctx.rule("R11.5", "a negated (whitelist) match of a nearer ignore file ends the search just as an ignore match does")
    ctx.borrow("C03", ["R03.2"], "R11.5", "match_path returns the first node that decides, walking from the nearest directory up")

    ctx.rule("R11.6", "when two loaded ignore files of one directory disagree the later-listed one decides: the files are compiled in listed order")
    ctx.borrow("C03", ["R03.3"], "R11.6", "order-preserving load of IgnoreFilter::new, which GlobsetFilterer::new uses for its ignore files")
