"""C05 - on-busy policy: do-nothing, queue, restart and signal behave as documented (CLI action logic)."""
import re

from .. import thir, pathx, jobrules
from ..facts import strip_generics
from ..report import Skip
from ..throttle import implies

CFGP = r"^watchexec_cli::config::make_config::"


def interesting(d):
    p = strip_generics(d)
    return not any(p.startswith(x) for x in ("core::clone::Clone::clone", "core::convert::", "core::ops::deref", "core::fmt", "tracing",
                                             "core::pin", "core::future"))


def paths_of(fn, node=None):
    root = thir.root(fn)
    pathx.SUBST = pathx.let_substitutions(root)
    try:
        return pathx.Enum(interesting=interesting, max_paths=200000).paths(node or root)
    finally:
        pathx.SUBST = {}


def seq(p):
    out = []
    for e in p.ev:
        if e[0] == "call":
            n = strip_generics(e[1])
            if n.startswith("watchexec_supervisor::job::job::Job::"):
                out.append("job." + n.split("::")[-1])
            elif n.endswith("tokio::task::spawn::spawn"):
                out.append("spawn")
            elif n.endswith("Atomic::fetch_or") or n.endswith("AtomicBool::fetch_or"):
                out.append("fetch_or(%s,%s)" % (pathx.desc(e[2]["a"][0]).lstrip("^"), pathx.desc(e[2]["a"][1])))
            elif n.endswith("Atomic::store") or n.endswith("AtomicBool::store"):
                out.append("store(%s)" % pathx.desc(e[2]["a"][1]))
        elif e[0] == "await":
            out.append("await")
    return out


def job_retention(ctx, rule):
    """the action worker forgets a job only when it is dead (shared with C04: one job, hence one process, per Id)"""
    facts = ctx.facts
    w = ctx.anchor_one(rule, "action worker coroutine",
                       [c for c in facts.children(ctx.anchor_fn(rule, "watchexec::action::worker::worker")) if c.kind == "coroutine"])
    root = thir.root(w)
    removers = []
    for cdef, n in thir.calls_in(root):
        sname = strip_generics(cdef)
        if "HashMap" in sname and sname.split("::")[-1] in ("remove", "remove_entry", "drain", "clear", "retain", "extract_if") and n["a"] and pathx.desc(n["a"][0]).lstrip("^") == "jobs":
            removers.append((sname.split("::")[-1], n))
    kinds = sorted(k for k, _ in removers)
    ctx.require(kinds == ["drain", "remove"], rule, "removal-sites", "jobs leave the worker's map at two places: the gc loop (remove) and the graceful quit (drain)",
                w.loc(w.line), detail=str(kinds), fail="the set of places where the action worker forgets jobs changed: %s" % kinds)
    # the gc list is produced by a filter_map closure that yields the id exactly when the job is dead
    sel = [c for c in facts.descendants(w) if c.kind == "closure" and any(t.callee.is_("Job::is_dead") for _, t in c.calls())]
    gc_loops = []
    if not sel:
        # the selection spelled as a loop: `for (id, job) in &jobs { if job.is_dead() { gc.push(*id) } }`
        for m_ in thir.find(root, "match"):
            if m_.get("src") == "ForLoopDesugar":
                inner_ = thir.peel(m_["e"])
                if inner_.get("k") == "call" and inner_.get("a") and pathx.desc(inner_["a"][0]).lstrip("^") == "jobs" \
                        and any(strip_generics(c_).endswith("Job::is_dead") for c_, _ in thir.calls_in(m_)):
                    gc_loops.append(m_)
    if gc_loops:
        bad = []
        n_dead = 0
        its = set()
        for q in pathx.Enum(interesting=lambda d_: strip_generics(d_).endswith(("Vec::push", "Job::is_dead"))).paths(gc_loops[0]):
            for e in q.ev:
                if e[0] == "loop":
                    its |= set(e[1])
        for it in its:
            dead = None
            for e in it:
                if e[0] == "branch":
                    if implies(e[1], e[2], "Job::is_dead(job)", True):
                        dead = True
                    elif implies(e[1], e[2], "Job::is_dead(job)", False):
                        dead = False
            pushes = [[pathx.desc(a).lstrip("^") for a in e[2]["a"]] for e in it if e[0] == "call" and strip_generics(e[1]).endswith("Vec::push")]
            if pushes and (dead is not True or pushes != [["gc", "id"]]):
                bad.append("a job not known to be dead is selected: " + pathx.show_events(it))
            if pushes:
                n_dead += 1
        ctx.require(len(gc_loops) == 1 and not bad and n_dead >= 1, rule, "gc-selects-dead-only", "the gc loop selects a job's id only under Job::is_dead(job)", w.loc(gc_loops[0]["l"]),
                    detail="; ".join(bad)[:400], fail="the action worker garbage-collects jobs that are still alive: their handle is dropped after the action, which "
                    "ends the job task and kills the running command; the next change finds no job")
        sel = None
    cl = ctx.anchor_one(rule, "gc selection closure", sel) if sel is not None else None
    bad = []
    n_dead = 0
    for q in (pathx.Enum().paths(thir.root(cl)) if cl is not None else []):
        dead = None
        for e in q.ev:
            if e[0] == "branch":
                if implies(e[1], e[2], "Job::is_dead(job)", True):
                    dead = True
                elif implies(e[1], e[2], "Job::is_dead(job)", False):
                    dead = False
        some = (q.val or "").startswith("Some")
        if some and dead is not True:
            bad.append("a job not known to be dead is selected: " + pathx.show_events(q.ev))
        if some:
            n_dead += 1
    if cl is not None:
      ctx.require(not bad and n_dead >= 1, rule, "gc-selects-dead-only", "the gc closure yields a job's id only under Job::is_dead(job)", cl.loc(cl.line),
                detail="; ".join(bad)[:400], fail="the action worker garbage-collects jobs that are still alive: their handle is dropped after the action, which "
                "ends the job task and kills the running command; the next change finds no job")
    for k, n in removers:
        if k == "remove":
            # inside `for id in gc`
            fl = [m for m in thir.find(root, "match") if m.get("src") == "ForLoopDesugar" and any(x is n for x in thir.walk(m))]
            src = [pathx.desc(thir.peel(m["e"])["a"][0]) for m in fl if thir.peel(m["e"]).get("k") == "call" and thir.peel(m["e"]).get("a")]
            ctx.require("gc" in src, rule, "remove-in-gc-loop", "jobs.remove(id) runs only over the ids selected by the gc closure", w.loc(n["l"]), detail=str(src))

    # ... and on the handler's side a second job is never created for an Id that has one: get_or_create_job creates only when the lookup in the
    # snapshot found nothing, and nothing in Handler takes entries out of (or puts entries into) that snapshot
    H = "watchexec::action::handler::Handler"
    goc = ctx.anchor_fn(rule, H + "::get_or_create_job")
    groot = thir.root(goc)
    direct = [n for c, n in thir.calls_in(groot) if strip_generics(c).endswith(("Handler::create_job_with_id", "Handler::create_job", "job::task::start_job"))]
    lazy = [pathx.desc(thir.peel(thir.root(c))).replace("^", "") for c in facts.children(goc) if c.kind == "closure"]
    top = pathx.desc(thir.peel(groot))
    ok_lazy = top in ("Option::unwrap_or_else(Handler::get_job(self, id), closure)", "Option::unwrap_or_else(Option::cloned(HashMap::get(self.extant, id)), closure)") \
        and lazy == ["Handler::create_job_with_id(self, id, Fn::call(command, ()))"] and not direct
    ok_branch = False
    if direct and not lazy:
        # spelled with `match` / `if let`: every creation must sit on a path where the lookup yielded None
        ok_branch = True
        for q in pathx.Enum(interesting=lambda d_: strip_generics(d_).endswith(("create_job_with_id", "create_job", "start_job"))).paths(groot):
            created = [e for e in q.ev if e[0] == "call" and strip_generics(e[1]).endswith(("create_job_with_id", "create_job", "start_job"))]
            found = None
            for e in q.ev:
                if e[0] in ("iflet", "arm") and ("get_job(self, id)" in e[1] or "HashMap::get(self.extant, id)" in e[1]):
                    pats = e[2] if isinstance(e[2], (tuple, list)) else (e[2],)
                    some = any(str(x).startswith("Some") for x in pats)
                    found = (some and e[3]) or ((not some) and not e[3]) if e[0] == "iflet" else some
            if bool(created) != (found is False) or len(created) > 1:
                ok_branch = False
    ctx.require(ok_lazy or ok_branch, rule, "create-only-when-absent", "get_or_create_job creates a job exactly when the Id has none in the snapshot (lazily, after the lookup)",
                goc.loc(goc.line), detail="%s / closures %s / direct %d" % (top, lazy, len(direct)),
                fail="get_or_create_job creates a job although the Id already has one (%s): a second job task is registered under the Id and the live one's handle is replaced" % top)
    muts = []
    for f in facts.fns_matching(r"^watchexec::action::handler::Handler::[a-z_]+$"):
        for g in [f] + facts.descendants(f):
            if not getattr(g, "thir", None):
                continue
            for c, n in thir.calls_in(thir.root(g)):
                nm = strip_generics(c).split("::")[-1]
                if n["a"] and pathx.desc(n["a"][0]).replace("^", "").lstrip("&") == "self.extant" and nm not in ("get", "iter", "contains_key", "len", "is_empty", "keys", "values", "deref", "borrow", "as_ref"):
                    muts.append("%s in %s" % (nm, f.def_.split("::")[-1]))
            for a in thir.find(thir.root(g), "assign"):
                if "self.extant" in pathx.desc(a["a"]).replace("^", ""):
                    muts.append("assignment in %s" % f.def_.split("::")[-1])
    ctx.require(not muts, rule, "snapshot-read-only", "Handler only reads its snapshot of existing jobs (get / iter)", goc.loc(goc.line), detail=str(muts),
                fail="Handler modifies its snapshot of existing jobs (%s): a later lookup of the same Id in the same action finds nothing and creates a second job" % muts)



def run(ctx):
    ctx.level = "other"
    facts = ctx.facts
    ctx.undecided = ("freshness ('the last change is followed by a run that started after it') and non-overlap under real timings: non-overlap is "
                     "delegated to C04 (one process per job) plus the single job id; freshness depends on the timing of the command's own exit relative "
                     "to the busy check and is not decided statically.")
    ctx.rule("R05.1", "mode -> effect table inside the job task: running & DoNothing -> nothing; Signal -> job.signal(stop_signal | signal | SIGTERM); "
                      "Restart -> job.restart_with_signal(stop_signal | SIGTERM, stop_timeout) then job.run(setup); Queue -> at most one queued task that awaits "
                      "to_wait, then start + run(setup) and clears the flag; not running -> job.start then job.run(setup)")
    ctx.also("R05.1", "each control those calls enqueue has the documented effect row in the job task (shared with R09.1)")
    ctx.rule("R05.2", "the decision is taken inside the closure passed to Job::run_async, from context.current of that job task (not from state captured earlier)")
    ctx.rule("R05.3", "queue guard: the queued task is spawned only when fetch_or(queued, true) returned false; in it to_wait is awaited before start, and "
                      "store(false) comes after the awaited run ticket")
    ctx.rule("R05.4", "shorthands: --signal without an explicit mode selects Signal, else --restart selects Restart")
    ctx.rule("R05.5", "kick-off: the initial empty Urgent event is sent unless --postpone, before the main task is awaited")
    ctx.rule("R05.7", "a batch is skipped before the busy decision only if it contains no path and no empty synthetic event")
    ctx.rule("R05.8", "job retention: between actions the action worker forgets a job only when Job::is_dead() holds for it (or on a graceful quit, "
                      "which drains the map to stop every job): the busy decision of the next action finds the same job and its running process")
    ctx.also("R05.8", "get_or_create_job creates a job only when the Id has none in the handler's snapshot, which Handler only reads")
    ctx.rule("R05.6", "single job: the action handler always uses one Id created outside the handler; create_job is not called in the CLI")
    try:
        cands = [f for f in facts.fns_matching(CFGP) if f.thir and [m for m in thir.find(thir.root(f), "match") if m["sty"].endswith("OnBusyUpdate")]]
        b = ctx.anchor_one("R05.1", "coroutine deciding on the busy mode", cands)
        loc = b.loc(b.line)
        ps = paths_of(b)
        table = {}
        for p in ps:
            run_b = [e for e in p.ev if e[0] == "branch" and e[1].lstrip("^") == "is_running"]
            arm = [e for e in p.ev if e[0] == "arm" and e[1].lstrip("^") == "on_busy"]
            if not run_b:
                ctx.incomplete("R05.1", "no-running-test", "a path does not test is_running first", loc, detail=repr(p)[:300])
                continue
            key = ("running" if run_b[0][2] else "idle", arm[0][2][0] if arm else "-")
            fo = [e for e in p.ev if e[0] == "branch" and "fetch_or(" in e[1]]
            if fo:
                key = key + ("already-queued" if fo[0][2] else "first",)
            table[key] = (seq(p), p)
        ctx.floor("R05.1", "decision paths", len(table), 6)
        want = {
            ("running", "DoNothing"): [],
            ("running", "Signal"): ["job.signal"],
            ("running", "Restart"): ["job.restart_with_signal", "job.run"],
            ("running", "Queue", "already-queued"): ["fetch_or(queued,True)"],
            ("running", "Queue", "first"): ["fetch_or(queued,True)", "spawn"],
            ("idle", "-"): ["job.start", "job.run"],
        }
        for k, w in want.items():
            got = table.get(k)
            ctx.require(got is not None and got[0] == w, "R05.1", "mode:" + "/".join(k), "%s -> %s" % ("/".join(k), w or "nothing"), loc,
                        detail=str(got[0] if got else None),
                        fail="on %s the job task does %s, documented: %s" % ("/".join(k), got[0] if got else "nothing (path missing)", w or "nothing"))
        for k in table:
            if k not in want:
                ctx.violation("R05.1", "mode-extra:" + "/".join(k), "undocumented case %s -> %s" % ("/".join(k), table[k][0]), loc)
        # arguments: the signal sent and the restart parameters
        sig = table.get(("running", "Signal"))
        if sig:
            c = [e for e in sig[1].ev if e[0] == "call" and strip_generics(e[1]).endswith("Job::signal")]
            d = pathx.desc(c[0][2]["a"][1]).replace("^", "") if c else ""
            ctx.require(d == "Option::unwrap_or(Option::or(stop_signal, signal), Terminate)", "R05.1", "signal-arg",
                        "signal mode sends stop_signal, else signal, else SIGTERM", loc, detail=d,
                        fail="signal mode sends %s" % d)
        rs = table.get(("running", "Restart"))
        if rs:
            c = [e for e in rs[1].ev if e[0] == "call" and strip_generics(e[1]).endswith("Job::restart_with_signal")]
            d = [pathx.desc(a).replace("^", "") for a in c[0][2]["a"]][1:] if c else []
            ctx.require(d == ["Option::unwrap_or(stop_signal, Terminate)", "stop_timeout"], "R05.1", "restart-args",
                        "restart mode stops gracefully with stop_signal (or SIGTERM) and the stop timeout", loc, detail=str(d),
                        fail="restart mode calls restart_with_signal(%s)" % d)
        # ---- R05.2
        par = facts.find_fn(b.parent)
        ok = False
        if par is not None:
            ctx.saw_fn(par)
            root = thir.root(par)
            lets = {}
            for s in thir.walk(root):
                if s.get("k") == "let" and s["p"].get("k") == "bind":
                    lets[s["p"]["n"]] = s.get("i")
            ir = lets.get("is_running")
            src = pathx.desc(ir) if ir is not None else ""
            # matches!(context.current, CommandState::Running{..})
            ms = thir.find(ir, "match") if ir is not None else []
            okm = bool(ms) and pathx.desc(ms[0]["e"]).replace("^", "") == "context.current" and "Running" in thir.pattern_variants(ms[0]["arms"][0]["p"])
            gp = facts.find_fn(par.parent)
            called_by_run_async = False
            if gp is not None:
                ctx.saw_fn(gp)
                for c, n in thir.calls_in(thir.root(gp)):
                    if strip_generics(c).endswith("Job::run_async"):
                        for x in thir.walk(n["a"][1]) if len(n["a"]) > 1 else []:
                            if x.get("k") == "closure" and x.get("def") == par.def_:
                                called_by_run_async = True
            ok = okm and called_by_run_async and par.thir["params"][1:] and "JobTaskContext" in par.thir["params"][1]["ty"]
        ctx.require(ok, "R05.2", "decision-in-job-task", "is_running is computed from context.current inside the run_async closure", loc,
                    fail="the busy decision no longer reads the job's current state from inside the job task (stale state can be used)")
        # ---- R05.3 queued task
        qt = [c for c in facts.children(b) if c.kind == "coroutine" and any(t.callee.is_("Job::to_wait") for _, t in c.calls())]
        q = ctx.anchor_one("R05.3", "queued-start task", qt)
        qps = paths_of(q)
        ctx.require(len(qps) == 1, "R05.3", "queued-task-straight-line", "the queued task is straight-line", q.loc(q.line), detail=str(len(qps)))
        for p in qps:
            s = seq(p)
            ctx.require(s == ["job.to_wait", "await", "job.start", "job.run", "await", "store(False)"], "R05.3", "queued-task-order",
                        "wait for the current run to end, start, run(setup) awaited, then clear the flag", q.loc(q.line), detail=str(s),
                        fail="the queued task does %s: the next run is not started strictly after the current one ends, or the flag is cleared too early/never" % s)
        mk5 = ctx.anchor_fn("R05.3", "watchexec_cli::config::make_config")
        qi = [pathx.desc(st["i"]) for st in thir.walk(thir.root(mk5)) if isinstance(st, dict) and st.get("k") == "let" and st["p"].get("k") == "bind" and st["p"].get("n") == "queued"
              and isinstance(st.get("i"), dict)]
        ctx.require(qi == ["Arc::new(Atomic::new(False))"] or qi == ["Arc::new(AtomicBool::new(False))"], "R05.3", "queued-starts-false", "the `a start is already queued` flag starts as false",
                    mk5.loc(mk5.line), detail=str(qi), fail="the queue flag does not start as false (%s): in queue mode no follow-up run is ever scheduled" % qi)
        first = table.get(("running", "Queue", "first"))
        if first:
            sp = [e for e in first[1].ev if e[0] == "closure"]
            ctx.require(any(e[1] == q.def_ for e in sp), "R05.3", "spawned-is-queued-task", "the spawned task is the queued-start task", loc)
    except Skip:
        pass

    # ---- R05.7 a batch with a change (paths) or the synthetic empty event always reaches the busy decision
    try:
        from ..throttle import implies
        h = [f for f in facts.fns_matching(CFGP) if f.kind == "coroutine" and any(t.callee.is_("Handler::get_or_create_job") for _, t in f.calls())]
        hh = ctx.anchor_one("R05.7", "action handler coroutine", h)
        root = thir.root(hh)
        pathx.SUBST = pathx.let_substitutions(root)
        try:
            skips = []
            for n in thir.find(root, "if"):
                d = pathx.desc(n["c"]).replace("^", "")
                if "Handler::paths(action)" in d:
                    skips.append((n, d))
        finally:
            pathx.SUBST = {}
        ctx.require(len(skips) == 1, "R05.7", "skip-test-found", "the handler has one 'nothing to do for this batch' test on action.paths()", hh.loc(hh.line), detail=str(len(skips)))
        for n, d in skips:
            A = "Option::is_none(Iterator::next(Handler::paths(action)))"
            B = "Iterator::any(slice::iter(action.events), Event::is_empty)"
            ok = implies(d, True, A, True) and implies(d, True, B, False)
            ctx.require(ok, "R05.7", "skip-only-without-change", "the batch is skipped only when it has no path and no empty (synthetic) event", hh.loc(n["l"]), detail=d,
                        fail="the action handler can skip a batch that contains a filesystem change or the synthetic start event (condition: %s): "
                             "a change arriving together with e.g. a forwarded signal never triggers the command" % d)
            rets = [x for x in thir.find(n["t"], "return")]
            ctx.require(len(rets) == 1 and pathx.desc(rets[0]["e"]).lstrip("^") == "action", "R05.7", "skip-returns-action", "the skip returns the action unchanged", hh.loc(n["l"]))
    except Skip:
        pass

    # ---- R05.4
    try:
        nm = [c for c in [ctx.anchor_fn("R05.4", "watchexec_cli::args::events::EventsArgs::normalise")]]
        f = nm[0]
        en_ps = paths_of(f)
        got = {}
        for p in en_ps:
            conds = tuple(pathx.bool_conds(p))
            sets = [e[2] for e in p.ev if e[0] == "assign" and e[1].replace("^", "").endswith("self.on_busy_update")]
            got[conds] = sets
        ok1 = any(any("Option::is_some(self.signal)" in c[0] and c[1] for c in k) and v == ["Signal"] for k, v in got.items())
        ok2 = any(any("self.restart" in c[0] and c[1] for c in k) and any("Option::is_some(self.signal)" in c[0] and not c[1] for c in k) and v == ["Restart"] for k, v in got.items())
        ctx.require(ok1 and ok2, "R05.4", "shorthands", "--signal selects Signal, otherwise --restart selects Restart", f.loc(f.line), detail=str(got)[:400],
                    fail="the -r / --signal shorthands no longer select the restart / signal modes")
    except Skip:
        pass

    # ---- R05.5
    try:
        rw = [c for c in facts.children(ctx.anchor_fn("R05.5", "watchexec_cli::run_watchexec")) if c.kind == "coroutine"]
        r = ctx.anchor_one("R05.5", "run_watchexec coroutine", rw)
        ps = paths_of(r)
        seen = {}
        for p in ps:
            post = [e for e in p.ev if e[0] == "branch" and "args.events.postpone" in e[1].replace("^", "")]
            calls = [strip_generics(e[1]) for e in p.ev if e[0] == "call"]
            if not post:
                continue
            postponed = post[0][2] != post[0][1].startswith("Not ")
            sent = [e for e in p.ev if e[0] == "call" and strip_generics(e[1]).endswith("Watchexec::send_event")]
            main_i = [i for i, e in enumerate(p.ev) if e[0] == "call" and strip_generics(e[1]).endswith("Watchexec::main")]
            if not main_i:
                continue
            seen[postponed] = True
            if postponed:
                ctx.require(not sent, "R05.5", "postpone-no-kickoff", "--postpone sends no initial event", r.loc(r.line))
            else:
                args = [pathx.desc(a) for a in sent[0][2]["a"]][1:] if sent else []
                before = bool(sent) and p.ev.index(sent[0]) < main_i[0]
                ctx.require(args == ["Default::default()", "Urgent"] and before, "R05.5", "kickoff-empty-urgent",
                            "without --postpone an empty event is sent at Urgent priority before the main task runs", r.loc(r.line), detail=str(args),
                            fail="the start-up event is %s (sent before main: %s)" % (args, before))
        ctx.require(seen.get(True) and seen.get(False), "R05.5", "both-postpone-cases", "both --postpone cases exist", r.loc(r.line), detail=str(seen))
    except Skip:
        pass

    # ---- R05.6
    try:
        mk = ctx.anchor_fn("R05.6", "watchexec_cli::config::make_config")
        ids = [n for c, n in thir.calls_in(thir.root(mk)) if strip_generics(c).endswith("Default::default") and "Id" in n.get("ty", "")]
        h = [f for f in facts.fns_matching(CFGP) if f.kind == "coroutine" and any(t.callee.is_("Handler::get_or_create_job") for _, t in f.calls())]
        hh = ctx.anchor_one("R05.6", "action handler coroutine", h)
        gc = [n for c, n in thir.calls_in(thir.root(hh)) if strip_generics(c).endswith("Handler::get_or_create_job")]
        ok = len(ids) == 1 and len(gc) == 1 and pathx.desc(gc[0]["a"][1]).replace("^", "") == "id"
        ctx.require(ok, "R05.6", "single-job-id", "one Id is created in make_config and every action uses it", mk.loc(mk.line),
                    detail="%d ids, job id arg %s" % (len(ids), pathx.desc(gc[0]["a"][1]) if gc else None))
        cj = [f.def_ for f in facts.crate_fns("watchexec_cli") for _, t in f.calls() if t.callee.is_("Handler::create_job")]
        ctx.require(not cj, "R05.6", "no-create-job", "the CLI never creates additional jobs", mk.loc(mk.line), detail=str(cj))
    except Skip:
        pass
    # ---- R05.8 job retention in the action worker
    try:
        job_retention(ctx, "R05.8")
    except Skip:
        pass
    try:
        jobrules.check_api_table(ctx, "R05.1")
    except Skip:
        pass
    try:
        # ... and what each of those controls does in the job task: the documented effect rows (rule owned by C09); queue mode rests on NextEnding
        # resolving at once when nothing runs, restart on Stop-then-Start, do-nothing on Start being a no-op while running
        from .. import jobtask as _jt5
        jobrules.effect_table(ctx, _jt5.Bodies(ctx, "R05.1"), "R05.1")
    except Skip:
        pass
    try:
        from . import c06 as _c06
        _c06.stop_plumbing(ctx, "R05.1")      # the restart mode's signal and grace are the parsed --stop-signal / --stop-timeout
        from . import c19 as _c19d
        _c19d.delivery_table(ctx, "R05.1")     # signal mode: the configured signal is the one delivered
    except Skip:
        pass

    # ---- R05.9 "stops it": the stop reaches the whole command - wrapper table owned by C18
    ctx.rule("R05.9", "restart/signal modes act on the command the user sees: the process-group / session wrappers are applied as configured")
    ctx.borrow("C18", ["R18.3"], "R05.9", "a grouped command is spawned as a group leader, so stop, kill and wait reach its children too")

    # ---- R05.10 restart mode: the forced stop at grace expiry is followed by the queued Start (timer cleared when it fires; owned by C06)
    ctx.rule("R05.10", "a restart whose grace has expired (or is zero) goes on to its Start: the expired timer is cleared when it is turned into the forced stop")
    ctx.borrow("C06", ["R06.3"], "R05.10", "recv gating: forced control only after expiry and with the timer cleared on both routes")

    ctx.rule("R05.11", "a change already collected in the debounce window is handed to the action handler together with an urgent event that follows it, and events the filter rejects do not restart the window: the change is followed by a run")
    ctx.borrow("C01", ["R01.1", "R01.2"], "R05.11", "batch conservation and returned set of the collect loop")
    ctx.borrow("C02", ["R02.1"], "R05.11", "window start rule of the collect loop")
