"""C18 - commands are spawned with exactly the configured program and arguments."""
from .. import thir, pathx, jobtask, jobrules
from ..cfg import CFG, call_sites
from ..facts import strip_generics
from ..report import Skip

SUP = "watchexec_supervisor"


def interesting(d):
    p = strip_generics(d)
    return not any(p.startswith(x) for x in ("core::clone::Clone::clone", "core::convert::", "core::ops::deref", "core::fmt"))


import re as _re


def _nc(d):
    """clone() is transparent for argv provenance"""
    prev = None
    while prev != d:
        prev = d
        d = _re.sub(r"Clone::clone\(([^()]*)\)", r"\1", d)
    return d


def callseq(p):
    out = []
    for e in p.ev:
        if e[0] == "call":
            out.append((strip_generics(e[1]).split("::")[-2] + "::" + strip_generics(e[1]).split("::")[-1], [_nc(pathx.desc(a)) for a in e[2]["a"]]))
        elif e[0] == "loop":
            its = []
            for it in e[1]:
                its.append(tuple((strip_generics(x[1]).split("::")[-2] + "::" + strip_generics(x[1]).split("::")[-1], tuple(_nc(pathx.desc(a)) for a in x[2]["a"]))
                                 for x in it if x[0] == "call"))
            out.append(("loop:" + e[2], sorted(its)))
        elif e[0] == "iflet":
            out.append(("iflet", [e[1], "|".join(e[2]), e[3]]))
    return out


def run(ctx):
    ctx.level = "other"
    facts = ctx.facts
    ctx.undecided = ("what tokio::process::Command / process-wrap / the OS do with the argv (byte-for-byte hand-over is their contract); that the "
                     "environment and working directory set by a hook reach the child follows from the same builder object being spawned (R18.4).")
    ctx.rule("R18.1", "exec branch: the command is Command::new(prog) followed by args(args) with the Program::Exec fields themselves - no other call "
                      "touches them (no splitting, joining, formatting)")
    ctx.rule("R18.2", "shell branch: Command::new(shell.prog), args(shell.options), arg(program_option) if present, arg(command), then arg(a) for each "
                      "extra argument, in exactly this order")
    ctx.rule("R18.3", "wrappers: KillOnDrop always; session => ProcessSession, else grouped => ProcessGroup::leader(); reset_sigmask => ResetSigmask")
    ctx.rule("R18.4", "the builder returned by to_spawnable is the object handed to the spawn hook (&mut) and then spawned (R09.2), and "
                      "CommandState::spawn spawns its `spawnable` parameter")
    ctx.rule("R18.6", "argument files stop at `--`: after it every word reaches the command byte for byte - plain words unchanged, `@word` with its `@` "
                      "put back (it is not expanded as an argument file); Shell::new(name) is {prog: name, no options, -c}")
    ctx.rule("R18.5", "CLI: without a shell prog = first word and args = the remaining words, unmodified; with a shell the words are joined with one "
                      "space into the command string and the program option is -c")
    try:
        f = jobrules.wrapper_table(ctx, "R18.3")
        jobrules.kill_on_drop(ctx, "R18.3")
        root = thir.root(f)
        ms = [m for m in thir.find(root, "match") if m["src"] == "Normal" and m["sty"].endswith("command::program::Program")]
        if len(ms) != 1:
            ctx.violation("R18.1", "floor:program-match", "to_spawnable no longer matches on Program once", f.loc(f.line))
        else:
            en = pathx.Enum(interesting=interesting)
            for arm in ms[0]["arms"]:
                v = thir.pattern_variants(arm["p"])[0]
                ps = en.paths(arm["b"])
                if v == "Exec":
                    ctx.require(len(ps) == 1, "R18.1", "exec-single-path", "the exec branch is straight-line", f.loc(arm["l"]))
                    for p in ps:
                        seq = callseq(p)
                        ok = seq == [("Command::new", ["prog"]), ("Command::args", ["c", "args"])] and p.val in ("c", None)
                        ctx.require(ok, "R18.1", "exec-argv", "exec: Command::new(prog).args(args)", f.loc(arm["l"]), detail=str(seq),
                                    fail="the exec branch builds the command as %s: program or arguments are transformed / reordered / dropped" % seq)
                elif v == "Shell":
                    for p in ps:
                        seq = callseq(p)
                        # `for a in xs { c.arg(a) }` and `c.args(xs)` are the same thing
                        seq = [("Command::args", ["c", s_[0][len("loop:for "):]]) if (s_[0].startswith("loop:for ") and s_[1] == [(("Command::arg", ("c", "arg")),)]) else s_
                               for s_ in seq]
                        has_opt = [s for s in seq if s[0] == "iflet"]
                        want = [("Command::new", ["shell.prog"]), ("Command::args", ["c", "shell.options"])]
                        if has_opt and has_opt[0][1][2]:
                            want += [("iflet", ["shell.program_option", "Some", True]), ("Command::arg", ["c", "progopt"])]
                        else:
                            want += [("iflet", ["shell.program_option", "Some", False])]
                        want += [("Command::arg", ["c", "command"]), ("Command::args", ["c", "args"])]
                        key = "with-program-option" if has_opt and has_opt[0][1][2] else "without-program-option"
                        ctx.require(seq == want, "R18.2", "shell-argv:" + key,
                                    "shell: shell, options, [program option], command string, extra args - in this order", f.loc(arm["l"]), detail=str(seq),
                                    fail="the shell branch builds the argv as %s, expected %s" % (seq, want))
                    ctx.floor("R18.2", "shell branch paths", len(ps), 2)
            # the command built is the one wrapped and returned
            conv = [n for c, n in thir.calls_in(root) if strip_generics(c).endswith("From::from") and "TokioCommandWrap" in thir.peel(n["fn"]).get("full", "")]
            ok = len(conv) == 1 and pathx.desc(conv[0]["a"][0]) == "cmd"
            v = thir.expr_value(root)
            ctx.require(ok, "R18.1", "built-command-is-wrapped", "the built tokio Command is what gets wrapped and returned", f.loc(f.line))
    except Skip:
        pass

    # ---- R18.4
    try:
        B = jobtask.Bodies(ctx, "R18.4")
        jobrules.hook_discipline(ctx, B, rule="R18.4")
        jobrules.callbox_table(ctx, "R18.4")
        jobrules.check_api_table(ctx, "R18.4")      # set_spawn_hook & co. are queued in order with the controls they precede
        from . import c17 as _c17e
        _c17e.emission_plumbing(ctx, "R18.4")       # the CLI's own hook applies the user's -E variables in every emission mode
        sp = ctx.anchor_fn("R18.4", SUP + "::job::state::CommandState::spawn")
        calls = [(strip_generics(c), n) for c, n in thir.calls_in(thir.root(sp)) if strip_generics(c).endswith("TokioCommandWrap::spawn")]
        ok = len(calls) == 1 and pathx.desc(calls[0][1]["a"][0]) == "spawnable"
        # ... the very one: the parameter is never rebound, and no second builder is made inside spawn()
        rebound = [pathx.desc(a["b"])[:60] for a in thir.find(thir.root(sp), "assign") if pathx.desc(a["a"]) == "spawnable"]
        rebuilt = [strip_generics(c) for c, n in thir.calls_in(thir.root(sp)) if strip_generics(c).endswith("to_spawnable")]
        ok = ok and not rebound and not rebuilt
        ctx.require(ok, "R18.4", "spawns-its-parameter", "CommandState::spawn spawns the builder it was given", sp.loc(sp.line),
                    fail="CommandState::spawn does not spawn the builder that went through the spawn hook")
    except Skip:
        pass

    # ---- R18.6 argument-file expansion and Shell::new
    try:
        ea = ctx.anchor_fn("R18.6", "watchexec_cli::args::expand_args_up_to_doubledash")
        en6 = pathx.Enum(interesting=lambda d_: strip_generics(d_).endswith(("Vec::push", "OsString::push", "VecDeque::pop_front", "Extend::extend", "Vec::extend")))
        rows6 = set()
        stray6 = []
        for q in en6.paths(thir.root(ea)):
            loops6 = [e for e in q.ev if e[0] == "loop"]
            top6 = [strip_generics(e[1]).split("::")[-1] for e in q.ev if e[0] == "call" and strip_generics(e[1]).endswith(("Extend::extend", "Vec::extend"))]
            if top6:
                stray6.append("words are added outside the two pop_front loops: %s" % top6)
            for e in loops6[1:2]:       # the second loop: what follows `--`
                for it in e[1]:
                    arm = [x[2][0].split("(")[0] for x in it if x[0] == "arm" and x[1] == "next"]
                    pushes = [(strip_generics(x[1]).split("::")[-2] + "::push", [pathx.desc(a) for a in x[2]["a"]]) for x in it if x[0] == "call" and strip_generics(x[1]).endswith("::push")]
                    rows6.add((arm[0] if arm else None, tuple((n, tuple(a)) for n, a in pushes)))
        want6 = {("PassThrough", (("Vec::push", ("expanded_args", "match")),)),
                 ("Path", (("OsString::push", ("restored", "OsStr::new('@')")), ("OsString::push", ("restored", "path")), ("Vec::push", ("expanded_args", "match"))))}
        ctx.require(rows6 == want6 and not stray6, "R18.6", "after-doubledash-verbatim", "after `--`: a plain word is pushed as is, an `@word` is pushed as '@' + word", ea.loc(ea.line),
                    detail=(str(sorted(rows6, key=str)) + " " + str(stray6))[:500],
                    fail="a command word that follows `--` does not reach the command unchanged (%s): `@scope/pkg`-style arguments lose their first character or are expanded" % str(sorted(rows6 - want6, key=str))[:200])
        shn = ctx.anchor_fn("R18.6", SUP + "::command::shell::Shell::new")
        dsh = pathx.desc(thir.peel(thir.root(shn)))
        ctx.require(dsh == "Shell{prog: Into::into(name), options: Vec::new(), program_option: Some{0: Borrowed{0: OsStr::new('-c')}}}", "R18.6", "shell-new",
                    "Shell::new(name) = {prog: name, options: [], program_option: -c}", shn.loc(shn.line), detail=dsh[:200],
                    fail="Shell::new interprets the shell path instead of taking it as given (%s): a path with spaces is split into a different program plus options" % dsh[:160])
    except Skip:
        pass

    # ---- R18.6b -E KEY=VALUE reaches the child byte for byte
    try:
        ep = ctx.anchor_one("R18.6", "EnvVarValueParser::parse_ref", ctx.facts.fns_matching(r"EnvVarValueParser as clap_builder::builder::value_parser::TypedValueParser>::parse_ref$"))
        lit = [n for n in thir.find(thir.root(ep), "adt") if n.get("adt", "").endswith("EnvVar")]
        flds = [{k: pathx.desc(v) for k, v in n["f"]} for n in lit]
        sp_ = [[pathx.desc(a) for a in nd["a"]] for c, nd in thir.calls_in(thir.root(ep)) if strip_generics(c).endswith("split_once")]
        ctx.require(flds == [{"key": "Into::into(key)", "value": "Into::into(value)"}] and len(sp_) == 1 and sp_[0][1] == "'='", "R18.6", "env-var-verbatim",
                    "-E KEY=VALUE is split at the first `=` and both halves are stored as given", ep.loc(ep.line), detail="%s %s" % (flds, sp_),
                    fail="the -E parser transforms the key or the value (%s): the child does not receive the variable byte for byte" % flds)
    except Skip:
        pass

    # ---- R18.5 CLI
    try:
        ic = ctx.anchor_fn("R18.5", "watchexec_cli::config::interpret_command_args")
        root = thir.root(ic)
        progs = [n for n in thir.find(root, "adt") if n["adt"].endswith("command::program::Program")]
        got = {}
        for n in progs:
            got[n["v"]] = {k if isinstance(k, str) else str(k): pathx.desc(x) for k, x in n["f"]}
        ex = got.get("Exec", {})
        sh = got.get("Shell", {})
        ctx.require(ex.get("prog") == "Into::into(Vec::remove(cmd, 0))" and ex.get("args") == "cmd", "R18.5", "cli-exec-split",
                    "no shell: prog = cmd.remove(0), args = cmd", ic.loc(ic.line), detail=str(ex),
                    fail="without a shell the CLI builds prog/args as %s: words are transformed" % ex)
        # ... and `cmd` is the argument vector itself: bound once to args.program.clone(), never reassigned, and touched only by
        # is_empty / remove(0) / join
        lets = [pathx.desc(st["i"]) for st in thir.walk(root) if isinstance(st, dict) and st.get("k") == "let" and st["p"].get("k") == "bind" and st["p"].get("n") == "cmd"
                and isinstance(st.get("i"), dict)]
        reass = [pathx.desc(a["b"])[:60] for a in thir.find(root, "assign") if pathx.desc(a["a"]) == "cmd"]
        uses = sorted({strip_generics(c).split("::")[-1] for c, nd in thir.calls_in(root) if not pathx.is_tracing(nd) and nd["a"] and pathx.desc(nd["a"][0]) == "cmd"})
        ctx.require(lets == ["Clone::clone(args.program)"] and not reass and set(uses) <= {"is_empty", "remove", "join", "deref", "deref_mut", "len"}, "R18.5", "cli-words-untouched",
                    "the command words are args.program itself, not re-split or rewritten", ic.loc(ic.line), detail="%s %s %s" % (lets, reass, uses),
                    fail="interpret_command_args rewrites the command words before building the program (let: %s, reassigned to: %s, operations: %s): arguments are split or transformed" % (lets, reass, uses))
        ctx.require(sh.get("command") == "slice::join(cmd, ' ')" or sh.get("command") == "Join::join(cmd, ' ')" or (sh.get("command") or "").endswith("join(cmd, ' ')"),
                    "R18.5", "cli-shell-join", "with a shell the command string is the words joined by one space", ic.loc(ic.line), detail=str(sh),
                    fail="with a shell the CLI builds the command string as %s" % sh.get("command"))
        ctx.require(sh.get("args") in ("Vec::new()", "Vec::<T>::new()"), "R18.5", "cli-shell-no-extra-args", "the CLI passes no extra shell arguments", ic.loc(ic.line), detail=str(sh))
        so = [n for n in thir.find(root, "adt") if n.get("adt", "").endswith("SpawnOptions")]
        pathx.SUBST = pathx.let_substitutions(root)     # `let grouped = matches!(..); SpawnOptions { grouped, .. }` is the same literal
        try:
            sof = {k: pathx.desc(v) for k, v in so[0]["f"]} if len(so) == 1 else {}
        finally:
            pathx.SUBST = {}
        ctx.require(sof == {"grouped": "PartialEq::eq(args.command.wrap_process, Group)", "session": "PartialEq::eq(args.command.wrap_process, Session)"}, "R18.5", "cli-wrap-mode",
                    "--wrap-process=group / session select the grouped / session spawn options, whatever the shell mode", ic.loc(ic.line), detail=str(sof),
                    fail="the CLI derives the group/session spawn options from more than --wrap-process (%s): in some mode the command is not placed in its own group or session" % sof)
        shells = [n for n in thir.find(root, "adt") if n["adt"].endswith("command::shell::Shell")]
        okc = any("'-c'" in pathx.desc(x) for n in shells for k, x in n["f"] if k == "program_option")
        ctx.require(okc, "R18.5", "cli-shell-dash-c", "a custom shell gets the program option -c", ic.loc(ic.line))
    except Skip:
        pass
