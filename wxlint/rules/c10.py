"""C10 - controls run in send order within a priority; urgent before high before normal."""
from .. import jobtask, jobrules
from ..report import Skip


def run(ctx):
    ctx.level = "other"
    ctx.undecided = "FIFO behaviour of tokio's unbounded mpsc channel and fairness of select! among simultaneously ready branches (trusted)."
    ctx.rule("R10.1", "recv checks the expired timer, then urgent.try_recv, then high.try_recv (dominance order) before the blocking select; "
                      "the select waits on urgent+high (+normal only without a timer)")
    ctx.rule("R10.2", "send_controls iterates the controls array in order, sends each prepared message with the caller's priority, "
                      "synchronously, and returns the last control's ticket")
    ctx.rule("R10.3", "API priority table: delete_now -> Urgent, to_wait -> High, everything else Normal, with the documented control lists")
    ctx.rule("R10.4", "each PrioritySender field is the sending end of the same-named PriorityReceiver field's channel; "
                      "PrioritySender::send maps each Priority to the same-named queue")
    ctx.rule("R10.5", "PriorityReceiver::recv has a single consumer (the job task) and handlers never re-queue")
    ctx.rule("R10.6", "a ticket resolves only through its flags: Ticket shares the control's own completion flag and the job-gone flag (shared with R07.6), and "
                      "Flag::poll answers Ready only after loading the flag as set (shared with R07.4) - so a resolved last ticket implies its control ran or the job ended")
    try:
        B = jobtask.Bodies(ctx, "R10.1")
        jobrules.recv_order(ctx, B)
        jobrules.single_consumer(ctx, B)
    except Skip:
        pass
    for fn in (jobrules.send_order, jobrules.channel_pairing):
        try:
            fn(ctx)
        except Skip:
            pass
    for fn in (jobrules.ticket_shape, jobrules.wake_protocol):
        try:
            fn(ctx, "R10.6")
        except Skip:
            pass
    ctx.rule("R10.7", "recv is cancellation-safe: it is one branch of the job task's select!, so after a control was taken from a queue no await precedes its return")
    try:
        jobrules.recv_cancel_safe(ctx, "R10.7")
    except Skip:
        pass
    # a control's handler raises that control's own flag - never the job-gone flag, which would resolve every later ticket before its control ran (owned by C07)
    ctx.borrow("C07", ["R07.2"], "R10.6", "flags leaving holders are the ones raised on every path of the process-end handler")
    try:
        jobrules.check_api_table(ctx, "R10.3")
    except Skip:
        pass

    ctx.rule("R10.8", "a control that finds nothing to do still completes: on every path of every arm the control's flag is raised or handed to a holder")
    ctx.borrow("C07", ["R07.1"], "R10.8", "a resolved later ticket and an unresolved earlier one would contradict in-order execution as observed through tickets")
