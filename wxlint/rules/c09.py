"""C09 - job lifecycle follows the documented state machine (effect table per control)."""
from .. import jobtask, jobrules
from ..report import Skip


def run(ctx):
    ctx.level = "other"
    ctx.undecided = ("what the spawned process, the OS and process-wrap do; the timing of ticket resolution in scheduler terms; "
                     "sequences of controls are covered compositionally (per-control effect rows over every incoming state class), "
                     "not by exploring sequences.")
    ctx.rule("R09.1", "for every Control variant and every condition (running / not running, Ok / Err of each fallible step) the ordered "
                      "effect sequence of the control handler, enumerated over all THIR paths of its arm, equals the row transcribed from the "
                      "API documentation (spec/control_semantics.json); same for the process-end handler; no undocumented path exists")
    ctx.rule("R09.2", "every CommandState::spawn is preceded on its path by to_spawnable, reset (previous run saved) and exactly one awaited "
                      "SpawnHook::call on the same spawnable with {current: &command_state, previous: previous_run.as_ref()}")
    ctx.rule("R09.3", "CommandState::reset leaves the state Pending and returns the previous run unchanged (Finished) or as Finished{Continued} (Running)")
    ctx.rule("R09.6", "helpers the effect rows rely on: signal_child delivers the requested signal (SIGTERM when it has no OS equivalent) and never kills; Flag wake protocol (poll never unregisters another waiter); "
                      "an expired grace timer injects Stop / ContinueTryGracefulRestart with the timer's own flag (shared with R06.2 / R06.6)")
    ctx.rule("R09.5", "each public Job method enqueues exactly the documented controls at the documented priority, and each priority travels on the queue of that name (sender and receiver ends paired)")
    try:
        B = jobtask.Bodies(ctx, "R09.1")
        jobrules.effect_table(ctx, B)
        jobrules.hook_discipline(ctx, B)
        jobrules.callbox_table(ctx, "R09.2")
    except Skip:
        pass
    for fn, rule in ((jobrules.reset_summary, "R09.3"), (jobrules.signal_child_rule, "R09.6"), (jobrules.timer_summaries, "R09.6"), (jobrules.ticket_shape, "R09.6"), (jobrules.wake_protocol, "R09.6"), (jobrules.channel_pairing, "R09.5")):
        try:
            fn(ctx, rule)
        except Skip:
            pass
    try:
        from . import c19 as _c19
        _c19.status_signal_table(ctx, "R09.6")      # the `finished with status` a job reports for a signalled process
    except Skip:
        pass
    try:
        jobrules.check_api_table(ctx, "R09.5")
    except Skip:
        pass

    ctx.rule("R09.7", "the ticket of a compound operation (restart = stop + start, delete = stop + delete) is the ticket of its last control, so it resolves when the documented end state is reached")
    ctx.borrow("C10", ["R10.2"], "R09.7", "send_controls returns the last control's ticket")
    ctx.rule("R09.8", "the finished state records the exit status as it was: the ExitStatus -> ProcessEnd conversion table")
    ctx.borrow("C19", ["R19.5"], "R09.8", "exit codes stay exit codes, signals stay signals")
