"""C15 - runtime errors reach the error handler once and stop nothing unless elevated."""
from .. import thir, pathx, throttle
from ..cfg import CFG, call_sites
from ..facts import strip_generics
from ..origin import origins, origin_calls
from ..report import Skip
from ..throttle import implies
from . import c13 as _c13

LIB = "watchexec"


def interesting(d):
    p = strip_generics(d)
    return not any(p.startswith(x) for x in ("core::clone::Clone::clone", "core::convert::", "core::ops::deref", "core::fmt",
                                             "core::pin::Pin::", "core::future::get_context", "core::future::into_future"))


def multi_path_errors(ctx, rule):
    """notify_multi_path_errors: at least one error, one per path, of the add/remove kind of the failed operation (shared with C13)"""
    facts = ctx.facts
    nm = ctx.anchor_fn(rule, "watchexec::sources::fs::notify_multi_path_errors")
    n_emp = n_non = 0
    for q in pathx.Enum().paths(thir.root(nm)):
        emp = None
        for e in q.ev:
            if e[0] == "branch":
                if implies(e[1], e[2], "Vec::is_empty(paths)", True):
                    emp = True
                elif implies(e[1], e[2], "Vec::is_empty(paths)", False):
                    emp = False
        top_push = [pathx.desc(e[2]["a"][0]) for e in q.ev if e[0] == "call" and strip_generics(e[1]).endswith("Vec::push")]
        loops = [e for e in q.ev if e[0] == "loop" and e[2] == "for paths"]
        if emp is True:
            n_emp += 1
            ctx.require(top_push == ["paths"], rule, "multi:fallback-path", "when notify names no path the watched path itself is used", nm.loc(nm.line),
                        detail=str(top_push), fail="a watch()/unwatch() error that names no path produces no RuntimeError at all: the failure is silently dropped")
        elif emp is False:
            n_non += 1
            ctx.require(top_push == [], rule, "multi:named-paths", "when notify names paths only those are reported", nm.loc(nm.line), detail=str(top_push))
        else:
            ctx.violation(rule, "multi:paths-tested", "notify_multi_path_errors does not test whether notify named any path", nm.loc(nm.line))
        okl = len(loops) == 1
        if okl:
            for it in loops[0][1]:
                pushes = [pathx.desc(e[2]["a"][0]) for e in it if e[0] == "call" and strip_generics(e[1]).endswith("Vec::push")]
                okl = okl and pushes == ["errs"] and ("loop-break",) not in it
        ctx.require(okl and q.val == "errs", rule, "multi:one-error-per-path", "one RuntimeError is pushed per path and the list is returned", nm.loc(nm.line),
                    fail="notify_multi_path_errors no longer produces exactly one error per failing path")
    ctx.require(n_emp >= 1 and n_non >= 1, rule, "multi:both-classes", "both cases (notify names paths / names none) are handled", nm.loc(nm.line))
    # kind of the error follows the `rm` flag, and the two call sites pass the matching literal
    ifs = [n for n in thir.find(thir.root(nm), "if") if pathx.if_parts(n)[0] == "rm"]
    ok = False
    if len(ifs) == 1:
        _, t_, e_ = pathx.if_parts(ifs[0])
        tv, evv = thir.expr_value(t_), thir.expr_value(e_)
        ok = tv[0] == "v" and tv[2] == "PathRemove" and evv[0] == "v" and evv[2] == "PathAdd"
    ctx.require(ok, rule, "multi:kind", "rm selects FsWatcherError::PathRemove, otherwise PathAdd", nm.loc(nm.line))
    w2 = ctx.anchor_one(rule, "fs worker coroutine", [c for c in facts.children(ctx.anchor_fn(rule, "watchexec::sources::fs::worker")) if c.kind == "coroutine"])
    flags = {}
    for m in thir.find(thir.root(w2), "match"):
        if m.get("src") == "ForLoopDesugar":
            inner = thir.peel(m["e"])
            if inner.get("k") == "call" and inner.get("a") and pathx.desc(inner["a"][0]) in ("to_drop", "to_watch"):
                which = pathx.desc(inner["a"][0])
                for c, nd in thir.calls_in(m):
                    if strip_generics(c).endswith("fs::notify_multi_path_errors"):
                        flags.setdefault(which, []).append(pathx.desc(nd["a"][3]))
    ctx.require(flags == {"to_drop": ["True"], "to_watch": ["False"]}, rule, "multi:call-sites", "a failed unwatch is reported as a removal error, a failed watch as an add error",
                w2.loc(w2.line), detail=str(flags), fail="the add/remove flag passed to notify_multi_path_errors does not match the operation: %s" % flags)



def error_hook_table(ctx, rule):
    """error_hook hands every received error except the Exit pseudo-error to the handler exactly once (shared with C13: a failed registration is reported once per attempt)"""
    facts = ctx.facts
    eh = ctx.anchor_one(rule, "error_hook coroutine",
                        [c for c in facts.children(ctx.anchor_fn(rule, "watchexec::watchexec::error_hook")) if c.kind == "coroutine"])
    en = pathx.Enum(interesting=interesting)
    ps = en.paths(thir.root(eh))
    iters = set()
    exits = []
    for p in ps:
        tail = []
        for e in p.ev:
            if e[0] == "loop":
                iters |= set(e[1])
            else:
                tail.append(e)
        exits.append((tuple(tail), p.out, p.val))

    def analyse(evs, key, final=None):
        got = [e for e in evs if e[0] in ("iflet", "arm") and "Receiver::recv(errors)" in e[1]]
        is_exit = [e for e in evs if e[0] == "arm" and e[1] == "err"]
        # `matches!(err, RuntimeError::Exit)` / `err == RuntimeError::Exit` arrive as an equality branch: same evidence
        for e in evs:
            if e[0] == "branch" and e[1] == "PartialEq::eq(err, Exit)":
                is_exit.append(("arm", "err", ("Exit" if e[2] else "_",), 0))
            elif e[0] == "iflet" and e[1] == "err" and e[2] == ("Exit",):      # `if let RuntimeError::Exit = err`
                is_exit.append(("arm", "err", ("Exit" if e[3] else "_",), 0))
        calls = [strip_generics(e[1]) for e in evs if e[0] == "call"]
        ncall = sum(1 for c in calls if c.endswith("ChangeableFn::call"))
        ncrit = sum(1 for c in calls if c.endswith("ErrorHook::handle_crit"))
        return got, is_exit, ncall, ncrit
    n = 0
    for it in iters:
        got, is_exit, ncall, ncrit = analyse(list(it), "iter")
        if not got:
            continue
        n += 1
        exit_arm = is_exit and is_exit[0][2][0] == "Exit"
        ctx.require(not exit_arm and ncall == 1 and ncrit == 1, rule, "iteration:%s" % (is_exit[0][2][0] if is_exit else "?"),
                    "an ordinary runtime error is handed to the handler once and its critical slot is examined", eh.loc(eh.line),
                    fail="error_hook calls the handler %d times / handle_crit %d times for one received error" % (ncall, ncrit))
    for tail, out, val in exits:
        got, is_exit, ncall, ncrit = analyse(list(tail), "exit")
        if not got:
            continue
        if got[0][0] == "iflet" and not got[0][3]:
            ctx.require(out == "val" and ncall == 0, rule, "exit:channel-closed", "a closed error channel ends the hook normally", eh.loc(eh.line))
            continue
        arm = is_exit[0][2][0] if is_exit else "?"
        if out == "ret" and val == "Err{0: Exit}":
            ctx.require(arm == "Exit" and ncall == 0, rule, "exit:Exit-pseudo-error:" + arm,
                        "only RuntimeError::Exit becomes CriticalError::Exit, without calling the handler", eh.loc(eh.line),
                        fail="error_hook returns CriticalError::Exit for a %s error (handler calls: %d)" % (arm, ncall))
        elif out == "ret" and "from_residual" in (val or ""):
            ctx.require(ncall == 1 and ncrit == 1 and arm != "Exit", rule, "exit:critical-propagated:" + arm,
                        "a critical error set by the handler ends the hook with that error, after exactly one handler call", eh.loc(eh.line))
        else:
            ctx.violation(rule, "exit:unexpected:%s:%s" % (out, arm), "unexpected way out of error_hook: %s %s" % (out, val), eh.loc(eh.line))
    ctx.floor(rule, "error_hook iteration paths", n, 1)
    hc = ctx.anchor_fn(rule, "watchexec::watchexec::ErrorHook::handle_crit")
    names = [strip_generics(c) for c, _ in thir.calls_in(thir.root(hc))]
    ok = any(n.endswith("Arc::try_unwrap") for n in names) and any(n.endswith("OnceLock::into_inner") for n in names) \
        and any(n.endswith("Option::map_or_else") for n in names)
    errs = []
    for c in facts.children(hc):
        ctx.saw_fn(c)
        v = thir.expr_value(thir.root(c))
        if v[0] == "v" and v[1] == "core::result::Result":
            errs.append((v[2], v[3]))
    ok = ok and any(k == "Err" and list(f.values())[0] == ("var", "crit") for k, f in errs) and any(k == "Ok" for k, f in errs)
    if not ok and any(n.endswith("Arc::try_unwrap") for n in names) and any(n.endswith("OnceLock::into_inner") for n in names):
        # the same table spelled with `match` / `if let` on the slot's content: Err(crit) exactly on the paths that found Some(crit)
        rows = []
        for q in pathx.Enum(interesting=lambda d_: False).paths(thir.root(hc)):
            some = None
            for e in q.ev:
                if e[0] == "iflet" and "OnceLock::into_inner(" in e[1]:
                    some = bool(e[3]) if "Some" in e[2] else (not e[3])
            rows.append((some, q.val))
        ok = bool(rows) and any(s_ is True for s_, _ in rows) and all((v_ == "Err{0: crit}") == (s_ is True) for s_, v_ in rows) \
            and all(v_ in ("Err{0: crit}", "Ok{0: ()}") for _, v_ in rows)
    ctx.require(ok, rule, "handle-crit", "handle_crit returns Err(crit) exactly when the handler stored a critical error", hc.loc(hc.line),
                fail="handle_crit no longer turns a stored critical error into Err(crit)")


def run(ctx):
    ctx.level = "other"
    facts = ctx.facts
    ctx.undecided = ("delivery by tokio's mpsc error channel (bounded: senders wait, nothing is dropped), what user handlers do with the "
                     "ErrorHook; 'exactly once' is decided as one send per produced error and one handler call per received error on every path.")
    ctx.rule("R15.1", "a filter error is sent to the error channel exactly once, the event is dropped and the collect loop continues (shared with R01.1)")
    ctx.rule("R15.2", "a failed watch()/unwatch() reports every produced error and the remaining paths are still processed (shared with R13.3)")
    ctx.also("R15.2", 'a path set changed while the worker is busy is not lost (shared with R13.1)')
    ctx.rule("R15.3", "error_hook: every received error except the Exit pseudo-error is passed to the handler exactly once and handle_crit's result is "
                      "propagated; RuntimeError::Exit becomes CriticalError::Exit without calling the handler; handle_crit turns a stored critical error into Err")
    ctx.rule("R15.4", "main task: a worker ending with CriticalError::Exit closes the event queue and the loop goes on; any other Err ends the main task "
                      "with that error; the action worker's end breaks the loop")
    ctx.rule("R15.5", "error discipline: every function of the watchexec crate that constructs a RuntimeError returns it (Result/Vec/RuntimeError) or "
                      "sends it on the error channel")
    ctx.rule("R15.6", "watcher callback: a failed process_event sends exactly one error with try_send, whose result is explicitly discarded; process_event's error conversions are pure wraps")
    ctx.rule("R15.8", "handlers run without the handler lock: ChangeableFn::call clones the handler out before calling it and no lock guard in the "
                      "crate is live across a user callback or an await, so an error handler can replace itself; clones of a ChangeableFn share one cell, so a handler replaced on the Config is the one the error task calls")
    ctx.rule("R15.7", "ErrorHook is not Clone and critical()/elevate() consume it; the critical slot is a OnceLock (first elevation wins)")

    # ---- R15.1 (from the throttle model)
    try:
        f, loop, its, _ = throttle.model(ctx, "R15.1")
        n = 0
        for it in its:
            if throttle.classify(it) == "error":
                n += 1
                sends = [e for e in it.ev if e[0] == "call" and strip_generics(e[1]).endswith("mpsc::bounded::Sender::send")]
                pushes = it.calls("Vec::push")
                first = it.branches("Vec::is_empty(set)")[0][1][2]
                key = "%s:%s" % ("first" if first else "later", it.out)
                ok = len(sends) == 1 and not pushes and (it.out == "cont" or (it.out == "ret" and "from_residual" in (it.val or "")))
                ctx.require(ok, "R15.1", "filter-error:" + key, "filter error: one send, no push, loop continues (or the closed error channel ends the worker)",
                            f.loc(f.line), detail=it.show(),
                            fail="a filter error is not reported exactly once, or the failing event still reaches the batch")
        ctx.floor("R15.1", "filter-error paths", n, 4)
    except Skip:
        pass

    # ---- R15.2: the fs worker loops (re-run the C13 sub-rule under this property's id)
    try:
        w = ctx.anchor_one("R15.2", "fs worker coroutine",
                           [c for c in facts.children(ctx.anchor_fn("R15.2", "watchexec::sources::fs::worker")) if c.kind == "coroutine"])
        root = thir.root(w)
        en = pathx.Enum(interesting=_c13.interesting)
        for which, op in (("to_drop", "unwatch"), ("to_watch", "watch")):
            ms = [m for m in thir.find(root, "match") if m.get("src") == "ForLoopDesugar" and thir.peel(m["e"]).get("k") == "call"
                  and pathx.desc(thir.peel(m["e"])["a"][0]) == which]
            if len(ms) != 1:
                ctx.violation("R15.2", "floor:loop:" + which, "apply loop over %s not found" % which, w.loc(w.line))
                continue
            its = set()
            for p in en.paths(ms[0]):
                for e in p.ev:
                    if e[0] == "loop" and e[2] == "for " + which:
                        its |= set(e[1])
            nerr = 0
            for it in its:
                evs = list(it)
                res = [e for e in evs if e[0] == "iflet" and op + "(" in e[1]]
                if not res:
                    continue
                failed = res[0][3] if "Err" in res[0][2] else (not res[0][3])
                if not failed:
                    continue
                nerr += 1
                mk = [e for e in evs if e[0] == "call" and strip_generics(e[1]).endswith("fs::notify_multi_path_errors")]
                loops = [e for e in evs if e[0] == "loop" and e[2].startswith("for ")]
                sent_each = False
                for l in loops:
                    for itx in l[1]:
                        sends = [x for x in itx if x[0] == "call" and strip_generics(x[1]).endswith("mpsc::bounded::Sender::send")]
                        if len(sends) == 1 and pathx.desc(sends[0][2]["a"][1]) == "e":
                            sent_each = True
                ctx.require(len(mk) == 1 and sent_each and ("loop-break",) not in evs, "R15.2", "%s-error-reported" % op,
                            "a failed %s() sends each produced error once and continues with the next path" % op, w.loc(ms[0]["l"]),
                            fail="a failed %s() does not report every error exactly once, or stops processing the remaining paths" % op)
            ctx.floor("R15.2", "%s failure paths" % op, nerr, 1)
    except Skip:
        pass

    # ---- R15.3 error_hook
    try:
        error_hook_table(ctx, "R15.3")
    except Skip:
        pass

    # ---- R15.4 main task loop
    try:
        wc = ctx.anchor_fn("R15.4", "watchexec::watchexec::Watchexec::with_config")
        mains = [c for c in facts.children(wc) if c.kind == "coroutine"]
        mt = ctx.anchor_one("R15.4", "main task coroutine", mains)
        ms = [m for m in thir.find(thir.root(mt), "match") if m["src"] == "Normal" and m["sty"].startswith("core::result::Result<&str, ") and m["sty"].endswith("CriticalError>")]
        if len(ms) != 1:
            ctx.violation("R15.4", "floor:main-match", "main task no longer matches on the workers' results once (found %d)" % len(ms), mt.loc(mt.line))
        else:
            m = ms[0]
            en = pathx.Enum(interesting=interesting)
            table = {}
            for arm in m["arms"]:
                key = thir.pat_str(arm["p"])
                ps = en.paths(arm["b"])
                outs = {(p.out, p.val) for p in ps}
                calls = {strip_generics(e[1]) for p in ps for e in p.ev if e[0] == "call"}
                table[key] = (outs, calls)
            ctx.floor("R15.4", "result arms", len(table), 4)
            a = table.get("Ok('action')")
            ctx.require(a is not None and a[0] == {("brk", None)}, "R15.4", "arm:action-breaks", "the action worker's end breaks the main loop", mt.loc(m["l"]),
                        detail=str(sorted(table)), fail="the end of the action worker no longer ends the main task")
            o = table.get("Ok(_)")
            ctx.require(o is not None and all(x[0] == "val" for x in o[0]), "R15.4", "arm:other-worker-continues", "another worker's normal end does not stop watchexec", mt.loc(m["l"]))
            e = table.get("Err(Exit)")
            ctx.require(e is not None and all(x[0] == "val" for x in e[0]) and any(c.endswith("async_priority_channel::Sender::close") for c in e[1]),
                        "R15.4", "arm:exit-closes-queue", "CriticalError::Exit closes the event queue and the loop continues", mt.loc(m["l"]),
                        fail="a graceful-exit pseudo error no longer closes the event queue (or stops the main loop directly)")
            r = table.get("Err(_)")
            ctx.require(r is not None and r[0] == {("ret", "Err{0: e}")}, "R15.4", "arm:critical-returns", "any other critical error ends the main task with that error",
                        mt.loc(m["l"]), detail=str(r[0] if r else None), fail="a critical error from a worker no longer ends the main task with that error")
    except Skip:
        pass

    # ---- R15.5 error discipline (who constructs)
    RE = "watchexec::error::runtime::RuntimeError"
    n = 0
    for fn in facts.crate_fns(LIB):
        if fn.error or not fn.blocks:
            continue
        builds = [s for b in fn.blocks for s in b.stmts if s.kind == "=" and s.rv.kind == "agg" and s.rv.agg_adt() and s.rv.agg_adt()[0] == RE
                  and not fn.macro(s.mac)]
        if not builds or fn.impl_trait:
            continue
        n += 1
        ctx.saw_fn(fn)
        ret_ty = fn.locals[0] if fn.locals else ""
        sends = [t for _, t in fn.calls() if t.callee.is_("mpsc::bounded::Sender::send", "mpsc::bounded::Sender::try_send")]
        passes_up = "RuntimeError" in ret_ty
        # closures such as map_err(|err| RuntimeError::..) return the error to their caller
        ctx.require(passes_up or bool(sends), "R15.5", "constructed-error-flows:" + fn.def_,
                    "%s returns or sends the RuntimeError it constructs" % fn.def_.split("::")[-1], fn.loc(builds[0].line),
                    fail="%s constructs a RuntimeError (%s) but neither returns it nor sends it on the error channel: the error is silently dropped"
                         % (fn.def_, builds[0].rv.agg_adt()[1]))
    ctx.floor("R15.5", "functions constructing RuntimeError", n, 5)

    # ---- R15.6 watcher callback
    try:
        w = ctx.anchor_one("R15.6", "fs worker coroutine",
                           [c for c in facts.children(ctx.anchor_fn("R15.6", "watchexec::sources::fs::worker")) if c.kind == "coroutine"])
        cbs = [c for c in facts.children(w) if c.kind == "closure" and any(t.callee.is_("fs::process_event") for _, t in c.calls())]
        cb = ctx.anchor_one("R15.6", "watcher callback closure", cbs)
        en = pathx.Enum(interesting=interesting)
        ps = en.paths(thir.root(cb))
        nerr = 0
        for p in ps:
            res = [e for e in p.ev if e[0] == "iflet" and "process_event(" in e[1]]
            sends = [e for e in p.ev if e[0] == "call" and strip_generics(e[1]).endswith("mpsc::bounded::Sender::try_send")]
            oks = [e for e in p.ev if e[0] == "call" and strip_generics(e[1]).endswith("Result::ok")]
            if not res:
                continue
            failed = res[0][3] if "Err" in res[0][2] else (not res[0][3])
            if failed:
                nerr += 1
                ctx.require(len(sends) == 1 and len(oks) == 1, "R15.6", "callback-error-sent-once", "a callback error is try_sent once and the send result discarded", cb.loc(cb.line),
                            fail="the watcher callback sends %d errors for one failure" % len(sends))
            else:
                ctx.require(not sends, "R15.6", "callback-ok-silent", "a processed event raises no error", cb.loc(cb.line))
        ctx.floor("R15.6", "callback failure paths", nerr, 1)
    except Skip:
        pass

    # ... and the two error conversions of process_event only wrap what they were given (an unreadable event need not carry a path)
    try:
        pe = ctx.anchor_fn("R15.6", "watchexec::sources::fs::process_event")
        PURE = {"adt", "upvar", "var", "lit", "block", "let", "bind", "scope", "stmt", "expr", "field", "ref", "deref", "use", "wild"}
        wraps = {}
        for c in facts.children(pe):
            if c.kind != "closure":
                continue
            rv = [n["v"] for n in thir.find(thir.root(c), "adt") if n["adt"].endswith("::RuntimeError")]
            if rv:
                kinds = {n.get("k") for n in thir.walk(thir.root(c)) if isinstance(n, dict) and n.get("k")}
                wraps[c.def_.rsplit("::", 1)[-1]] = ("+".join(rv), sorted(kinds - PURE))
        ok = sorted(v[0] for v in wraps.values()) == ["EventChannelTrySend", "FsWatcher"] and all(not v[1] for v in wraps.values())
        ctx.require(ok, "R15.6", "process-event-errors-wrap",
                    "process_event turns a watcher error / a full queue into one RuntimeError by constructing it from what it was given: no call, index or assignment in either conversion",
                    pe.loc(pe.line), detail=str(wraps),
                    fail="process_event's error conversions do more than wrap the error (%s): a malformed watcher error can fail inside the callback instead of being reported" % wraps)
    except Skip:
        pass

    _c13.lock_scope(ctx, "R15.8")
    try:
        _c13.changeable_primitives(ctx, "R15.8")    # the handler the error task holds is a clone sharing the cell with Config::error_handler
    except Skip:
        pass

    # ---- R15.2b
    try:
        multi_path_errors(ctx, "R15.2")
    except Skip:
        pass
    try:
        _c13.subscription(ctx, "R15.2")      # a path set changed while the worker was busy is still applied, so its registration errors are still raised
    except Skip:
        pass

    # ---- R15.7
    EHK = "watchexec::watchexec::ErrorHook"
    ctx.require(facts.derived(EHK, "Clone") is None, "R15.7", "errorhook-not-clone", "ErrorHook is not Clone",
                fail="ErrorHook implements Clone: the handler can keep a copy and elevate the same error several times")
    adt = facts.find_adt(EHK)
    if adt is not None:
        crit = [f for f in adt["variants"][0]["fields"] if f["name"] == "critical"]
        ctx.require(bool(crit) and "OnceLock<" in crit[0]["ty"], "R15.7", "critical-oncelock", "the critical slot is a OnceLock", detail=crit[0]["ty"] if crit else "")
    for name in ("critical", "elevate"):
        fn = facts.find_fn(EHK + "::" + name)
        if fn is None:
            ctx.violation("R15.7", "floor:anchor:" + name, "ErrorHook::%s not found" % name)
            continue
        ctx.saw_fn(fn)
        ctx.require(fn.locals[1] == EHK, "R15.7", "consumes-self:" + name, "ErrorHook::%s takes self by value" % name, fn.loc(fn.line),
                    detail=fn.locals[1], fail="ErrorHook::%s no longer consumes the hook" % name)
        # ... and stores the critical error in the slot the hook shares with error_hook (handle_crit reads it back)
        sets = [[pathx.desc(a) for a in nd["a"]] for c, nd in thir.calls_in(thir.root(fn)) if strip_generics(c).endswith("OnceLock::set")]
        if name == "critical":
            ok = sets == [["self.critical", "critical"]]
        else:
            ok = len(sets) == 1 and sets[0][0] in ("critical", "self.critical") and sets[0][1].startswith("Elevated{") and sets[0][1].rstrip("}").endswith("err: error")
        ctx.require(ok, "R15.7", "stores:" + name, "ErrorHook::%s stores the critical error in the hook's OnceLock" % name, fn.loc(fn.line), detail=str(sets),
                    fail="ErrorHook::%s does not store the %s in the hook's critical slot (%s): the elevation is lost and watchexec keeps running"
                         % (name, "given critical error" if name == "critical" else "elevated runtime error", sets))

    ctx.rule("R15.9", "a filter error does not touch the pending batch: the window start moves only while the set is empty")
    ctx.borrow("C02", ["R02.1"], "R15.9", "window start rule of the collect loop")
