"""C12 - explicit CLI filters are honoured under every mix of ignore-discovery flags."""
import re

from .. import thir, pathx
from ..facts import strip_generics
from ..report import Skip
from ..throttle import feasible, eval_cond

FLAGS = ("no_vcs_ignore", "no_project_ignore", "no_global_ignore", "no_default_ignore", "no_discover_ignore")


def interesting(d):
    p = strip_generics(d)
    return not any(p.startswith(x) for x in ("core::clone::Clone::clone", "core::convert::", "core::ops::deref", "core::fmt", "tracing",
                                             "core::pin", "core::future", "miette"))


def body_of(ctx, rule, path):
    f = ctx.anchor_fn(rule, path)
    cs = [f] + [c for c in ctx.facts.descendants(f) if c.kind == "coroutine"]
    b = max(cs, key=lambda c: len(c.blocks))
    ctx.saw_fn(b)
    return b


def paths_of(fn, node=None):
    root = thir.root(fn)
    pathx.SUBST = pathx.let_substitutions(root)
    try:
        return pathx.Enum(interesting=interesting, max_paths=200000).paths(node or root)
    finally:
        pathx.SUBST = {}


def flag_values(p):
    out = {}
    for e in p.ev:
        if e[0] == "branch":
            m = re.match(r"^(Not )?\^?args\.filtering\.(\w+)$", e[1])
            if m and m.group(2) in FLAGS:
                out[m.group(2)] = (e[2] != bool(m.group(1)))
    return out


def calls(p):
    return [(strip_generics(e[1]), [pathx.desc(a) for a in e[2]["a"]], i) for i, e in enumerate(p.ev) if e[0] == "call"]


def globset_origin(ctx, rule):
    """the origin the CLI filterer works from is the project origin - the same value ignore discovery starts from - not the working directory (shared with C03)"""
    wn = body_of(ctx, rule, "watchexec_cli::filterer::WatchexecFilterer::new")
    loc = wn.loc(wn.line)
    root = thir.root(wn)
    gf = [n for c, n in thir.calls_in(root) if strip_generics(c).endswith("GlobsetFilterer::new")]
    vtn = [n for c, n in thir.calls_in(root) if strip_generics(c).endswith("dirs::vcs_types") and n.get("a")]
    pathx.SUBST = pathx.let_substitutions(root)      # locals bound once are read through to their initialiser
    try:
        a0 = pathx.desc(gf[0]["a"][0]).replace("^", "") if len(gf) == 1 and gf[0]["a"] else ""
        vt = [pathx.desc(n["a"][0]).replace("^", "") for n in vtn]
    finally:
        pathx.SUBST = {}
    def is_po(d):
        return "args.filtering.project_origin" in d and "workdir" not in d and "Path::parent" not in d and "Path::join" not in d
    ctx.require(is_po(a0) and all(is_po(v) for v in vt), rule, "globset-origin", "the filterer's origin (and the VCS type detection) is the project origin from the arguments", loc,
                detail="GlobsetFilterer::new(%s, ..); vcs_types(%s)" % (a0, vt),
                fail="the filterer is rooted at `%s` instead of the project origin: ignore files discovered from the project origin are matched relative to a different root" % a0)


def whitelist_files(ctx, rule):
    """the whitelist the CLI hands to the path filterer is the explicitly watched paths, as given, that are files (shared with C11: the whitelist test compares spellings)"""
    facts = ctx.facts
    wn = body_of(ctx, rule, "watchexec_cli::filterer::WatchexecFilterer::new")
    loc = wn.loc(wn.line)
    wl = [c for c in facts.descendants(wn) if c.kind == "closure" and pathx.desc(thir.peel(thir.root(c))) in ("Path::is_file(p)", "PathBuf::is_file(p)")]
    wl_lets = [pathx.desc(st["i"]) for st in thir.walk(thir.root(wn)) if isinstance(st, dict) and st.get("k") == "let" and st["p"].get("k") == "bind" and st["p"].get("n") == "whitelist"
               and isinstance(st.get("i"), dict)]
    ctx.require(len(wl) == 1 and wl_lets == ["Iterator::filter(Iterator::map(slice::iter(args.filtering.paths), Into::into), closure)"], rule, "whitelist-files",
                "the whitelist handed to the path filterer is the explicitly watched paths that are files", loc, detail=str(wl_lets)[:200],
                fail="the whitelist is no longer `explicitly watched paths that are files` (%s)" % str(wl_lets)[:160])


def run(ctx):
    ctx.level = "other"
    facts = ctx.facts
    ctx.undecided = ("what the loaded patterns match; the property's 64 flag combinations are covered because every syntactic path through the two "
                     "functions is enumerated with the flag value taken at each branch - the check is over paths, not over executions.")
    ctx.rule("R12.5", "explicit entries keep the order given: explicit_ignore_files() and the collection of --ignore / --filter patterns pass the "
                      "argument lists through order-preserving combinators only (no sort, dedup, hash container), because later patterns and files override earlier ones; "
                      "global sources found through git's configuration are tagged Git so that --no-vcs-ignore removes them (table shared with C14 R14.4)")
    ctx.rule("R12.6", "dirs::ignores, filter by filter: each discovery flag applies its own predicate and only when given (no_project_ignore drops entries "
                      "scoped under the origin, no_global_ignore keeps entries with a scope, no_vcs_ignore keeps entries without a VCS tag), the project-VCS "
                      "filter keeps non-VCS entries and those of the project's VCS types, the git-global exclusion is applied only after a project git config "
                      "was seen; relative --ignore-file paths are resolved against the origin")
    ctx.rule("R12.7", "--filter-file reading: every line that is neither blank nor a comment becomes one filter scoped to the file, the loop never stops early, "
                      "and no mutable state other than the output list and the line source is carried from one line to the next")
    ctx.rule("R12.1", "independence: on every path through WatchexecFilterer::new (all values of the discovery flags) the explicit sources "
                      "--filter, --filter-file, --ignore, --exts, --fs-events reach the filterer unconditionally and --ignore-file entries reach it through "
                      "explicit_ignore_files() or dirs::ignores(); in dirs::ignores the explicit entries are appended after every flag-guarded filter, on every path")
    ctx.also("R12.1", "the filterer's origin is the project origin from the arguments")
    ctx.rule("R12.2", "flag -> source table: the built-in default list is added iff !no_default_ignore; dirs::ignores is called iff !no_discover_ignore; "
                      "from_origin iff !no_project_ignore; from_environment iff !no_global_ignore; the applies_to filter iff no_vcs_ignore")
    ctx.rule("R12.3", "--ignore-nothing sets every no_*_ignore flag")
    ctx.rule("R12.4", "explicit --filter / --ignore patterns are scoped to the working directory; the CLI filter applies --fs-events before anything can pass an event")

    # ---- WatchexecFilterer::new
    try:
        wn = body_of(ctx, "R12.1", "watchexec_cli::filterer::WatchexecFilterer::new")
        ps = [p for p in paths_of(wn) if feasible(p)]
        loc = wn.loc(wn.line)
        ctx.floor("R12.1", "paths through WatchexecFilterer::new", len(ps), 4)
        seen_combo = set()
        for p in ps:
            if p.out == "ret" and "from_residual" in (p.val or ""):
                continue   # an I/O error loading a file aborts start-up: nothing is silently dropped
            fv = flag_values(p)
            key = ",".join("%s=%s" % (k, fv[k]) for k in sorted(fv))
            if key in seen_combo:
                continue
            seen_combo.add(key)
            text = pathx.show_events(p.ev)
            cs = calls(p)
            descs = " ".join(" ".join(a) for _, a, _ in cs) + " " + " ".join(e[1] + " " + str(e[2]) for e in p.ev if e[0] in ("assign", "let"))
            full = descs + " " + " ".join(repr(e[2]) for e in p.ev if e[0] == "loop")
            for field in ("filter_patterns", "filter_files", "ignore_patterns", "filter_extensions"):
                ctx.require(("args.filtering." + field) in full.replace("^", ""), "R12.1", "explicit-used:%s[%s]" % (field, key),
                            "%s is consumed whatever the discovery flags are" % field, loc,
                            fail="with %s the explicit option behind `%s` is not loaded" % (key or "any flags", field))
            via_explicit = any(n.endswith("dirs::explicit_ignore_files") for n, _, _ in cs)
            via_ignores = any(n.endswith("dirs::ignores") for n, _, _ in cs)
            ctx.require(via_explicit or via_ignores, "R12.1", "ignore-file-loaded[%s]" % key,
                        "--ignore-file entries are loaded (%s)" % ("explicit_ignore_files" if via_explicit else "dirs::ignores"), loc,
                        fail="with %s the --ignore-file entries are not loaded at all" % key)
            # R12.2 part
            if "no_discover_ignore" in fv:
                ctx.require(via_ignores == (not fv["no_discover_ignore"]), "R12.2", "discover-guard[%s]" % key,
                            "dirs::ignores is called exactly when discovery is enabled", loc)
            if "no_default_ignore" in fv:
                defaults = ".DS_Store" in text or any("DS_Store" in " ".join(a) for _, a, _ in cs) or "format" in text and "Extend::extend" in text
                ext = [i for n, a, i in cs if n.endswith("Extend::extend") and a and a[0].lstrip("^") == "ignores"]
                ctx.require((len(ext) == 2) == (not fv["no_default_ignore"]) and len(ext) >= 1, "R12.2", "default-guard[%s]" % key,
                            "the built-in default ignores are added exactly when !no_default_ignore (explicit --ignore always)", loc, detail=str(len(ext)))
        # final struct: fs_events from filter_fs_events
        fin = [n for n in thir.find(thir.root(wn), "adt") if n["adt"].endswith("filterer::WatchexecFilterer")]
        ok = bool(fin) and any(k == "fs_events" and "args.filtering.filter_fs_events" in pathx.desc(v).replace("^", "") for k, v in fin[-1]["f"])
        ctx.require(ok, "R12.1", "fs-events-field", "--fs-events is stored unconditionally in the filterer", loc)
        gf = [n for c, n in thir.calls_in(thir.root(wn)) if strip_generics(c).endswith("GlobsetFilterer::new")]
        ok = len(gf) == 1 and [pathx.desc(a) for a in gf[0]["a"]][1:] == ["filters", "ignores", "whitelist", "ignore_files", "exts"]
        ctx.require(ok, "R12.1", "globset-args", "filters, ignores, whitelist, ignore_files and extensions are handed to GlobsetFilterer::new in that order", loc,
                    detail=str([pathx.desc(a) for a in gf[0]["a"]]) if gf else "")
        globset_origin(ctx, "R12.1")
        # --filter-file: every listed file is read and all its lines are appended to the same `filters` that goes to the filterer
        ffl = set()
        for p_ in ps[:1] if ps else []:
            pass
        for p_ in paths_of(wn):
            for e in p_.ev:
                if e[0] == "loop" and e[2].replace("^", "") == "for args.filtering.filter_files":
                    ffl |= set(e[1])
        okff = bool(ffl)
        for it in ffl:
            names = [strip_generics(x[1]).split("::")[-1] for x in it if x[0] == "call"]
            ext = [[pathx.desc(a) for a in x[2]["a"]] for x in it if x[0] == "call" and strip_generics(x[1]).endswith("Extend::extend")]
            okff = okff and "read_filter_file" in names and len(ext) == 1 and ext[0][0].lstrip("^") == "filters" and "read_filter_file(filter_file)" in ext[0][1] \
                and ("loop-break",) not in it
        ctx.require(okff, "R12.1", "filter-files-read", "every --filter-file is read and its lines are appended to the filter patterns", loc,
                    fail="the --filter-file entries are no longer all read into the filter patterns")
        # the whitelist is `the watched paths that are files`; the program filters are installed exactly when some were given
        whitelist_files(ctx, "R12.1")
        pg = [v for k, v in (fin[-1]["f"] if fin else []) if k == "progs"]
        okp = False
        if pg and thir.peel(pg[0]).get("k") == "if":
            c_, t_, e_ = pathx.if_parts(thir.peel(pg[0]))
            okp = c_.replace("^", "") == "Vec::is_empty(args.filtering.filter_programs_parsed)" and pathx.desc(t_) == "None" and "FilterProgs::new(args)" in pathx.desc(e_).replace("^", "")
        ctx.require(okp, "R12.1", "progs-installed", "filter programs are installed exactly when some were given", loc,
                    fail="--filter-prog entries are no longer installed exactly when given")
        # scoping of explicit patterns (R12.4)
        cl = [c for c in facts.descendants(wn) if c.kind == "closure"]
        scoped = 0
        for c in cl:
            v = thir.expr_value(thir.root(c))
            if v[0] == "t" and len(v[1]) == 2 and v[1][1][0] == "v" and v[1][1][2] == "Some":
                inner = list(v[1][1][3].values())[0]
                if "workdir" in repr(inner):
                    scoped += 1
        ctx.require(scoped >= 2, "R12.4", "patterns-scoped-to-workdir", "--filter and --ignore patterns are paired with the working directory", loc, detail=str(scoped))
    except Skip:
        pass

    # ---- the filterer built from the arguments is the one installed
    try:
        rw = body_of(ctx, "R12.1", "watchexec_cli::run_watchexec")
        inst = [[pathx.desc(a).replace("^", "") for a in nd["a"]] for c, nd in thir.calls_in(thir.root(rw)) if strip_generics(c).endswith("Config::filterer")]
        ctx.require(len(inst) == 1 and inst[0][0] == "config" and "WatchexecFilterer::new(args)" in inst[0][1], "R12.1", "filterer-installed",
                    "run_watchexec installs WatchexecFilterer::new(&args) as the configuration's filterer", rw.loc(rw.line), detail=str(inst)[:200],
                    fail="the filterer built from the command line is not installed (%s): no explicit filter option has any effect" % str(inst)[:120])
    except Skip:
        pass

    # ---- dirs::ignores
    try:
        ig = body_of(ctx, "R12.1", "watchexec_cli::dirs::ignores")
        ps = [p for p in paths_of(ig) if feasible(p)]
        loc = ig.loc(ig.line)
        ctx.floor("R12.1", "feasible paths through dirs::ignores", len(ps), 16)
        combos = {}
        for p in ps:
            if p.out == "ret" and "from_residual" in (p.val or ""):
                continue
            fv = flag_values(p)
            key = ",".join("%s=%s" % (k[3:-7], "T" if fv[k] else "F") for k in sorted(fv))
            cs = calls(p)
            ext_i = [i for n, a, i in cs if n.endswith("Extend::extend") and a and a[0].lstrip("^") == "ignores" and "dirs::explicit_ignore_files(args)" in a[1].replace("^", "")]
            muts = [i for i, e in enumerate(p.ev) if (e[0] == "assign" and e[1].lstrip("^") == "ignores")] + \
                   [i for n, a, i in cs if a and a[0].lstrip("^") == "ignores" and (n.endswith("Vec::retain") or n.endswith("Vec::clear") or n.endswith("Vec::truncate")
                                                                                    or n.endswith("Vec::drain") or n.endswith("Vec::dedup"))]
            okk = len(ext_i) == 1 and all(m < ext_i[0] for m in muts) and p.val == "Ok{0: ignores}"
            if key not in combos or not okk:
                combos[key] = (okk, p)
        for key, (okk, p) in sorted(combos.items()):
            ctx.require(okk, "R12.1", "explicit-after-filters[%s]" % key,
                        "explicit --ignore-file entries are appended after every flag-guarded filter and the list is returned as is", loc,
                        detail=pathx.show_events(p.ev)[-300:],
                        fail="with flags [%s] the explicit --ignore-file entries are %s" % (
                            key, "filtered after being added or not added at all: a discovery flag removes an explicitly given ignore file"))
            fv = flag_values(p)
            names = [n for n, _, _ in calls(p)]
            if "no_project_ignore" in fv:
                ctx.require(any(n.endswith("discover::from_origin") for n in names) == (not fv["no_project_ignore"]), "R12.2", "project-guard[%s]" % key,
                            "from_origin runs exactly when project ignores are enabled", loc)
            if "no_global_ignore" in fv:
                ctx.require(any(n.endswith("discover::from_environment") for n in names) == (not fv["no_global_ignore"]), "R12.2", "global-guard[%s]" % key,
                            "from_environment runs exactly when global ignores are enabled", loc)
        ctx.floor("R12.1", "flag combinations seen in dirs::ignores", len(combos), 8)
        # what the three late filters keep: evaluate their predicates on an explicit entry {applies_in: None, applies_to: None}
        ef = ctx.anchor_fn("R12.1", "watchexec_cli::dirs::explicit_ignore_files")
        cl = [c for c in facts.children(ef) if c.kind == "closure"]
        # the mapping function may also be a named fn handed to `map` (`.map(explicit_ignore_file)`)
        for n_ in thir.walk(thir.root(ef)):
            if isinstance(n_, dict) and n_.get("k") == "fn" and str(n_.get("def", "")).startswith("watchexec_cli::"):
                g_ = facts.find_fn(n_["def"])
                if g_ is not None and g_ not in cl:
                    cl.append(g_)
        okx = False
        for c in cl:
            v = thir.expr_value(thir.root(c))
            if v[0] == "v" and v[2] == "IgnoreFile" and v[3].get("applies_in", ("",))[0] == "v" and v[3]["applies_in"][2] == "None" \
                    and v[3].get("applies_to", ("",))[0] == "v" and v[3]["applies_to"][2] == "None":
                okx = True
        ctx.require(okx, "R12.1", "explicit-entry-shape", "explicit entries are tagged applies_in: None, applies_to: None (global, any VCS)", ef.loc(ef.line))
    except Skip:
        pass

    # ---- R12.6 the filters of dirs::ignores
    try:
        ig6 = body_of(ctx, "R12.6", "watchexec_cli::dirs::ignores")
        cl_desc = {}
        for c in facts.descendants(ig6):
            if c.kind != "closure":
                continue
            r0 = thir.peel(thir.root(c))
            d0 = pathx.desc(r0)
            kind = None
            if d0 in ("Not Option::map_or(Option::as_ref(ig.applies_in), False, closure)", "Not Option::is_some_and(Option::as_ref(ig.applies_in), closure)"):
                inner = [pathx.desc(thir.peel(thir.root(x))) for x in facts.children(c)]
                kind = "PROJ" if inner == ["Path::starts_with(p, ^origin)"] else "PROJ?"
            elif d0 == "Option::is_some(ig.applies_in)":
                kind = "GLOB"
            elif d0 == "Option::is_none(ig.applies_to)":
                kind = "VCS"
            elif r0.get("k") == "match" and pathx.desc(r0["e"]) == "ig.applies_to":
                arms = r0["arms"]
                ok_ = len(arms) == 2 and thir.pat_str(arms[0]["p"]).startswith("Some(") and pathx.desc(arms[0].get("g")) == "ProjectType::is_vcs(pt)" \
                    and pathx.desc(arms[0]["b"]) in ("slice::contains(^vcs_types, pt)",) and thir.pat_str(arms[1]["p"]) == "_" and pathx.desc(arms[1]["b"]) == "True"
                kind = "VCSTYPE" if ok_ else "VCSTYPE?"
            elif r0.get("k") == "un" and thir.peel(r0["e"]).get("k") == "match":
                m0 = thir.peel(r0["e"])
                pats = [thir.pat_str(a["p"]) for a in m0["arms"]]
                vals = [pathx.desc(a["b"]) for a in m0["arms"]]
                kind = "GITGLOBAL" if pathx.desc(m0["e"]) == "gig" and vals == ["True", "False"] and "Git" in pats[0] and "None" in pats[0] and pats[1] == "_" else "GITGLOBAL?"
            if kind:
                cl_desc[c.def_] = kind
        for k_ in ("PROJ", "GLOB", "VCS", "VCSTYPE", "GITGLOBAL"):
            n_k = sum(1 for v in cl_desc.values() if v == k_)
            ctx.require(n_k >= (2 if k_ == "VCSTYPE" else 1) and not any(v == k_ + "?" for v in cl_desc.values()), "R12.6", "predicate:" + k_,
                        "the %s predicate has its documented shape" % k_, ig6.loc(ig6.line), detail=str(sorted(cl_desc.values())),
                        fail="a filter predicate of dirs::ignores changed shape (%s): the flag it belongs to removes a different set of ignore sources" % k_)
        ps6 = [p for p in paths_of(ig6) if feasible(p)]
        seen6 = set()
        for p in ps6:
            if p.out == "ret" and "from_residual" in (p.val or ""):
                continue
            fv = flag_values(p)
            applied = []
            for i, e in enumerate(p.ev):
                if e[0] == "closure":
                    nxt = [x for x in p.ev[i + 1:i + 2] if x[0] == "call"]
                    # `.into_iter().filter(p).collect()` and `.retain(p)` keep the same elements
                    if nxt and strip_generics(nxt[0][1]).endswith(("Iterator::filter", "Vec::retain")):
                        applied.append(cl_desc.get(e[1], "OTHER:" + e[1].split("::")[-1]))
            other = {}
            for e in p.ev:
                if e[0] == "branch":
                    core, neg = pathx.split_not(e[1])
                    if core == "skip_git_global_excludes":
                        other["skipgit"] = (e[2] != neg)
                    elif core.replace("^", "") == "slice::is_empty(vcs_types)":
                        other["novcs"] = (e[2] != neg)
            key = ",".join("%s=%s" % (k[3:-7], "T" if fv[k] else "F") for k in sorted(fv)) + "".join(",%s=%s" % kv for kv in sorted(other.items()))
            if key in seen6:
                continue
            seen6.add(key)
            want = []
            if fv.get("no_project_ignore") is False and other.get("novcs") is False:
                want.append("VCSTYPE")
            if fv.get("no_global_ignore") is False and other.get("skipgit") is True:
                want.append("GITGLOBAL")
            want.append("VCSTYPE")
            if fv.get("no_project_ignore"):
                want.append("PROJ")
            if fv.get("no_global_ignore"):
                want.append("GLOB")
            if fv.get("no_vcs_ignore"):
                want.append("VCS")
            ctx.require(applied == want, "R12.6", "filters[%s]" % key, "with %s the filters applied are %s" % (key, want), ig6.loc(ig6.line), detail=str(applied),
                        fail="with flags [%s] dirs::ignores applies the filters %s, documented is %s: a discovery flag removes sources it does not name, or keeps the ones it names" % (key, applied, want))
        ctx.floor("R12.6", "flag / state combinations of dirs::ignores", len(seen6), 12)
        # the git-global exclusion flag: starts false, is only ever set to true, inside the inspection of a project-level git entry
        init6 = [pathx.desc(st["i"]) for st in thir.walk(thir.root(ig6)) if isinstance(st, dict) and st.get("k") == "let" and st["p"].get("k") == "bind"
                 and st["p"].get("n") == "skip_git_global_excludes" and isinstance(st.get("i"), dict)]
        sets6 = []
        for c in [ig6] + facts.descendants(ig6):
            for a in thir.find(thir.root(c), "assign"):
                if pathx.desc(a["a"]).lstrip("^") == "skip_git_global_excludes":
                    sets6.append((pathx.desc(a["b"]), c.def_ != ig6.def_))
        ctx.require(init6 == ["False"] and sets6 == [("True", True)], "R12.6", "git-global-flag", "skip_git_global_excludes starts false and is set (to true) only while inspecting project entries",
                    ig6.loc(ig6.line), detail="%s %s" % (init6, sets6),
                    fail="the `project git config overrides the global excludes` switch no longer starts off / is set elsewhere (%s %s): the global git excludes are dropped without a project config, or kept with one" % (init6, sets6))
        rel = [c for c in facts.descendants(ig6) if c.kind == "closure" and thir.peel(thir.root(c)).get("k") == "if" and pathx.if_parts(thir.peel(thir.root(c)))[0] == "Path::is_absolute(path)"]
        okr = False
        if len(rel) == 1:
            _, t_, e_ = pathx.if_parts(thir.peel(thir.root(rel[0])))
            okr = pathx.desc(t_) in ("Into::into(path)", "{..}") and "Path::join(^origin, path)" in pathx.desc(e_) + pathx.desc(thir.peel(e_).get("e") if isinstance(thir.peel(e_), dict) else None)
        ctx.require(okr, "R12.6", "relative-ignore-file", "a relative --ignore-file path is resolved against the project origin, an absolute one is taken as is", ig6.loc(ig6.line))
    except Skip:
        pass

    # ---- R12.7 read_filter_file
    try:
        rf = body_of(ctx, "R12.7", "watchexec_cli::filterer::read_filter_file")
        root7 = thir.root(rf)
        loops7 = [n for n in thir.find(root7, "loop") if not n.get("x")]
        if len(loops7) != 1:
            ctx.violation("R12.7", "floor:line-loop", "read_filter_file no longer has exactly one line loop (found %d)" % len(loops7), rf.loc(rf.line))
        else:
            lp = loops7[0]
            inside = {id(x) for x in thir.walk(lp)}
            muts = []
            for st in thir.walk(root7):
                if isinstance(st, dict) and st.get("k") == "let" and st["p"].get("k") == "bind" and "Mut" in str(st["p"].get("mode")) and id(st) not in inside \
                        and not pathx.is_tracing(st) and st["p"]["n"] not in ("iter", "interest"):
                    muts.append(st["p"]["n"])
            used_inside = {x.get("n") for x in thir.walk(lp) if isinstance(x, dict) and x.get("k") in ("var", "upvar")}
            carried = sorted(set(muts) & used_inside)
            ctx.require(set(carried) <= {"filters", "lines"}, "R12.7", "no-state-across-lines", "only the output list and the line iterator live across iterations", rf.loc(lp.get("l", rf.line)),
                        detail=str(carried), fail="read_filter_file carries extra mutable state across lines (%s): what is left from one line (a comment, a previous pattern) leaks into the next" % carried)
            its7 = set()
            for q in pathx.Enum(interesting=lambda d_: strip_generics(d_).endswith("Vec::push")).paths(lp["e"]):
                its7.add((q.ev, q.out))
            n_push = n_skip = 0
            for evs, out in its7:
                pushes = [[pathx.desc(a) for a in e[2]["a"]] for e in evs if e[0] == "call"]
                blank = any(e[0] == "branch" and eval_cond(e[1], {"str::is_empty(line)": False, "str::starts_with(line, '#')": False}) is (not e[2]) for e in evs)
                if out in ("ret", "brk") and not any(e[0] == "iflet" for e in evs) and "from_residual" not in str(out):
                    pass
                if pushes:
                    n_push += 1
                    ctx.require(pushes == [["filters", "(ToOwned::to_owned(line), Some{0: ToOwned::to_owned(path)})"]] and out in ("val", "cont"), "R12.7", "line-becomes-filter",
                                "a pattern line is pushed once as (line, Some(the filter file))", rf.loc(lp.get("l", rf.line)), detail=str(pushes)[:200])
                elif out in ("cont", "val"):      # the iteration ends without a push: by `continue` or by falling off the end of the body
                    n_skip += 1
                    ctx.require(blank, "R12.7", "skip-only-blank-or-comment", "a line is skipped only when it is blank or a comment", rf.loc(lp.get("l", rf.line)),
                                detail=pathx.show_events(evs)[:200])
            ctx.require(n_push >= 1 and n_skip >= 1, "R12.7", "both-line-classes", "pattern lines and skipped lines both occur", rf.loc(rf.line))
    except Skip:
        pass

    # ---- R12.3
    try:
        # the flags are independent switches: clap is not told to discard one of them when another is given (an override is symmetric and
        # last-wins, so `--ignore-nothing --no-default-ignore` would parse as the second flag alone and normalise() would never see the first)
        ovr = []
        for g_ in ctx.facts.fns_matching(r"FilteringArgs as clap_builder::derive::Args>::augment_args(_for_update)?$"):
            ctx.saw_fn(g_)
            ovr += sorted({strip_generics(t.callee.def_ or "").split("::")[-1] for _, t in g_.calls() if strip_generics(t.callee.def_ or "").split("::")[-1] in ("overrides_with", "overrides_with_all")})
        ctx.floor("R12.3", "derived clap argument tables of FilteringArgs", len(ctx.facts.fns_matching(r"FilteringArgs as clap_builder::derive::Args>::augment_args(_for_update)?$")), 2)
        ctx.require(not ovr, "R12.3", "flags-not-overridden", "no filtering flag is declared to override another", detail=str(ovr),
                    fail="a filtering flag is declared with %s: given together, one of the flags is silently discarded by the parser, so the mix no longer removes the sources each flag names" % ovr)
        nm = body_of(ctx, "R12.3", "watchexec_cli::args::filtering::FilteringArgs::normalise")
        ifs = [n for n in thir.find(thir.root(nm), "if") if pathx.if_parts(n)[0].lstrip("^").endswith("self.ignore_nothing")]
        ok = False
        if len(ifs) == 1 and pathx.if_parts(ifs[0])[1] is not None:
            sets = {pathx.desc(a["a"]).lstrip("^").split(".")[-1]: pathx.desc(a["b"]) for a in thir.find(pathx.if_parts(ifs[0])[1], "assign")}
            adt = facts.find_adt("watchexec_cli::args::filtering::FilteringArgs")
            flags = [f["name"] for f in adt["variants"][0]["fields"] if re.match(r"^no_\w+_ignore$", f["name"]) and f["ty"] == "bool"]
            ctx.floor("R12.3", "no_*_ignore flags", len(flags), 5)
            for fl in flags:
                ctx.require(sets.get(fl) == "True", "R12.3", "ignore-nothing-sets:" + fl, "--ignore-nothing sets %s" % fl, nm.loc(ifs[0]["l"]),
                            fail="--ignore-nothing does not set %s" % fl)
            ok = True
        ctx.require(ok, "R12.3", "ignore-nothing-block", "normalise() expands --ignore-nothing", nm.loc(nm.line))
        # nothing else in normalise() writes a discovery flag: each flag is exactly what the user gave, plus --ignore-nothing
        inside = set()
        if len(ifs) == 1 and pathx.if_parts(ifs[0])[1] is not None:
            inside = {id(a) for k_ in ("assign", "assignop") for a in thir.find(pathx.if_parts(ifs[0])[1], k_)}
        stray = []
        for k_ in ("assign", "assignop"):
            for a in thir.find(thir.root(nm), k_):
                lhs = pathx.desc(a["a"]).lstrip("^").split(".")[-1]
                if re.match(r"^no_\w+_ignore$", lhs) and id(a) not in inside:
                    stray.append("%s %s %s" % (lhs, a.get("op", "="), pathx.desc(a["b"])[:80]))
        ctx.require(not stray, "R12.3", "flags-only-from-ignore-nothing", "no discovery flag is derived from other flags (only --ignore-nothing expands)", nm.loc(nm.line), detail=str(stray),
                    fail="normalise() derives a discovery flag from other options (%s): a flag mix then removes an ignore source none of the given flags names" % stray)
    except Skip:
        pass

    # ---- R12.4: --fs-events first in the CLI filterer (shared with R11.4's stage order)
    try:
        WF = "watchexec_cli::filterer::WatchexecFilterer"
        cf = ctx.anchor_one("R12.4", "<WatchexecFilterer as Filterer>::check_event", facts.trait_methods(WF, "Filterer", "check_event"))
        bodies = [cf] + facts.descendants(cf)
        body = max(bodies, key=lambda b: len(b.blocks))
        ctx.saw_fn(body)
        ps = paths_of(body)
        bad = []
        for p in ps:
            if p.out in ("ret", "val") and (p.val or "") == "Ok{0: True}":
                # a pass verdict must come after the fs-events loop and the inner filterer
                evs = p.ev
                has_loop = any(e[0] == "loop" and "tags" in e[2] for e in evs)
                inner = any(e[0] == "call" and strip_generics(e[1]).endswith("Filterer::check_event") for e in evs)
                if not (has_loop and inner):
                    bad.append(p)
        ctx.require(not bad, "R12.4", "pass-needs-all-stages", "an event passes only after the --fs-events stage and the path filterer were consulted", cf.loc(cf.line),
                    detail=repr(bad[0])[:300] if bad else "",
                    fail="the CLI filterer can pass an event without consulting --fs-events and the path filters (a shortcut that depends on which ignore sources are loaded)")
    except Skip:
        pass

    # ---- R12.5
    try:
        from .c03 import UNORDERED
        REORDER = UNORDERED + ("::sort", "sort_by", "dedup", "::reverse", "::rev", "BTreeSet", "BTreeMap", "swap_remove")
        ef = ctx.anchor_fn("R12.5", "watchexec_cli::dirs::explicit_ignore_files")
        wn2 = body_of(ctx, "R12.5", "watchexec_cli::filterer::WatchexecFilterer::new")
        for fn_, what in ((ef, "--ignore-file list"), (wn2, "--ignore / --filter / --filter-file lists")):
            bad = []
            for g in [fn_] + facts.descendants(fn_):
                ctx.saw_fn(g)
                for _, t in g.calls():
                    full = (t.callee.full or "") + " " + (t.callee.def_ or "")
                    for u in REORDER:
                        if u in full and not g.macro(t.mac):
                            bad.append((u, strip_generics(t.callee.def_)))
            ctx.require(not bad, "R12.5", "order-kept:" + fn_.def_.split("::")[-1], "the %s keeps the order given on the command line" % what, fn_.loc(fn_.line),
                        detail=str(sorted(set(bad))[:4]),
                        fail="the %s is passed through an order-changing operation (%s): which of two conflicting explicit entries wins then depends on "
                             "their spelling, and differs between flag mixes that load them through different routes" % (what, sorted({b[1] for b in bad})))
        src = [pathx.desc(nd["a"][0]).replace("^", "") for c, nd in thir.calls_in(thir.root(ef)) if strip_generics(c).endswith("slice::iter")]
        ctx.require(src == ["args.filtering.ignore_files"], "R12.5", "explicit-source", "explicit_ignore_files() iterates args.filtering.ignore_files itself", ef.loc(ef.line), detail=str(src))
        from . import c14 as _c14
        _c14.env_table(ctx, "R12.5")
        _c14.origin_table(ctx, "R12.5")
        from . import c03 as _c03o
        _c03o.caller_keeps_order(ctx, "R12.5")
    except Skip:
        pass

    # ---- R12.8 explicit patterns are consulted for every path - verdict tables owned by C11 and C03
    ctx.rule("R12.8", "explicit --ignore / --exts / --filter and --ignore-file contents are consulted for every probed path")
    ctx.borrow("C11", ["R11.2"], "R12.8", "per path the ignore patterns come first, then extensions / filters: no explicit option shadows another")
    ctx.borrow("C03", ["R03.2"], "R12.8", "the root node that holds explicit --ignore-file contents is reached from every path (walk to the parent)")

    # ---- R12.9 explicit files keep their listed order when loaded (owned by C03), and an ignore-discovery failure is not swallowed
    ctx.rule("R12.9", "--ignore-file contents are loaded in the order given (later files win), under every flag mix")
    ctx.borrow("C03", ["R03.3"], "R12.9", "IgnoreFilter::new consumes the listed files through an order-preserving combinator")
    # dirs::ignores() is also where the explicit --ignore-file entries are appended: its failure must stop the filterer's construction, not
    # continue with an empty list (which silently drops the explicit files under exactly the flag mixes that run discovery)
    try:
        wf = ctx.anchor_one("R12.9", "WatchexecFilterer::new coroutine", [c for c in ctx.facts.children(ctx.anchor_fn("R12.9", "watchexec_cli::filterer::WatchexecFilterer::new")) if c.kind == "coroutine"])
        rw = thir.root(wf)
        with pathx.reading_through(rw):
            tried = [pathx.desc(x) for x in thir.walk(rw) if x.get("k") == "match" and str(x.get("src", "")).startswith("TryDesugar")]
            called = [nd for c, nd in thir.calls_in(rw) if strip_generics(c).endswith("dirs::ignores")]
        okp = len(called) == 1 and any(t.startswith("await dirs::ignores(") and t.endswith(")?") and t.count("dirs::ignores(") == 1 for t in tried)
        ctx.require(okp, "R12.9", "ignores-error-propagates", "WatchexecFilterer::new propagates a failure of dirs::ignores() with `?`", wf.loc(wf.line), detail=str([t for t in tried if "ignores" in t])[:200],
                    fail="WatchexecFilterer::new no longer propagates a failure of dirs::ignores(): it carries on without the list that also holds the explicit --ignore-file entries")
    except Skip:
        pass

    ctx.rule("R12.10", "whether a global ignore file's directory pattern applies does not depend on which other sources are loaded: `path or any parent` matching is chosen on the probed path")
    ctx.borrow("C03", ["R03.9"], "R12.10", "matcher selection in match_path")
