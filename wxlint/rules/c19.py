"""C19 - signal names and exit statuses convert consistently (finite tables: proof level)."""
import re

from .. import thir, pathx
from ..cfg import CFG, call_sites
from ..origin import origins, format_inputs, VALUE_CALLS, IDENTITY_CALLS
from ..report import Skip

SIG = "watchexec_signals::Signal"
NIX = "nix::sys::signal::Signal"
FIRST_CLASS = ["Hangup", "ForceStop", "Interrupt", "Quit", "Terminate", "User1", "User2"]
POSIX = {"Hangup": 1, "Interrupt": 2, "Quit": 3, "ForceStop": 9, "User1": 10, "User2": 12, "Terminate": 15}

ALT_CONFIGS = []


def the_match(ctx, rule, fn, sty_sub=None):
    ms = [m for m in thir.find(thir.root(fn), "match") if m.get("src") == "Normal" and (sty_sub is None or sty_sub in m["sty"])]
    if len(ms) != 1:
        ctx.violation(rule, "floor:shape:" + fn.def_, "%s: expected one table match, found %d" % (fn.def_, len(ms)), fn.loc(fn.line))
        raise Skip()
    return ms[0]


def sigval(name, **f):
    return ("v", SIG, name, f)


def delivery_table(ctx, rule):
    """shared with C06/C08: Signal::to_nix maps each first-class signal to the nix signal with its POSIX number"""
    facts = ctx.facts
    nix = facts.find_adt(NIX)
    if nix is None:
        ctx.violation(rule, "floor:anchor:nix-signal", "nix Signal enum not found in the fact base")
        return
    nixd = {v["name"]: v.get("discr") for v in nix["variants"]}
    f = ctx.anchor_fn(rule, "watchexec_signals::Signal::to_nix")
    m = the_match(ctx, rule, f)
    n = 0
    for name in FIRST_CLASS:
        i = thir.first_arm(m, sigval(name))
        if i is None:
            ctx.incomplete(rule, "to_nix:" + name, "undetermined arm", f.loc(m["l"]))
            continue
        v = thir.expr_value(m["arms"][i]["b"])
        nv = None
        if v[0] == "v" and v[2] == "Some":
            inner = list(v[3].values())[0]
            if inner[0] == "v" and inner[1] == NIX:
                nv = inner[2]
        n += 1
        ctx.require(nv is not None and nixd.get(nv) == POSIX[name], rule, "delivered-signal:" + name,
                    "a request for Signal::%s is delivered as %s (number %d)" % (name, nv, POSIX[name]), f.loc(m["arms"][i]["l"]),
                    fail="a request to send Signal::%s delivers %s (number %s) to the process" % (name, nv, nixd.get(nv)))
    ctx.floor(rule, "first-class signals in to_nix", n, 7)


def status_signal_table(ctx, rule):
    """Signal::from(i32), used to report the signal that ended a process: first-class numbers map to their signal, the rest to Custom (shared with C09)"""
    facts = ctx.facts
    h = ctx.anchor_one(rule, "<Signal as From<i32>>::from", [x for x in facts.fns_matching(r"watchexec_signals::Signal as core::convert::From<i32>>::from$")])
    m3 = the_match(ctx, rule, h)
    n_ok = 0
    inv = {v: k for k, v in POSIX.items()}
    for n in range(0, 65):
        i = thir.first_arm(m3, ("i", n))
        if i is None:
            ctx.incomplete(rule, "status-signal:%d" % n, "undetermined arm", h.loc(m3["l"]))
            continue
        v = thir.expr_value(m3["arms"][i]["b"])
        got = v[2] if v[0] == "v" and v[1] == SIG else None
        want = inv.get(n, "Custom")
        n_ok += 1
        if got != want:
            ctx.violation(rule, "status-signal:%d" % n, "a process ended by signal %d is reported as %s, expected %s" % (n, got, want), h.loc(m3["arms"][i]["l"]))
    ctx.floor(rule, "signal numbers decided for Signal::from(i32)", n_ok, 65)
    ctx.ok(rule, "status-signal-table", "Signal::from(i32) maps 1,2,3,9,10,12,15 to their first-class signals and every other number in 0..=64 to Custom")


def fromstr_table(ctx, rule):
    """Signal::from_str: both name tables get the input as written, the unix table only when the Windows control names did not match
    (`or_else` closure, or a match / if-let on the first result) - shared with C06 (--stop-signal)"""
    facts = ctx.facts
    fs = ctx.anchor_one(rule, "<Signal as FromStr>::from_str", facts.fns_matching(r"watchexec_signals::Signal as core::str::traits::FromStr>::from_str$"))
    bodies = [fs] + [c for c in facts.descendants(fs)]
    wargs, uargs, uin = [], [], []
    for g in bodies:
        ctx.saw_fn(g)
        for c, n in thir.calls_in(thir.root(g)):
            if c.endswith("Signal::from_windows_str"):
                wargs.append([pathx.desc(a).lstrip("^") for a in n["a"]])
            elif c.endswith("Signal::from_unix_str"):
                uargs.append([pathx.desc(a).lstrip("^") for a in n["a"]])
                uin.append(g)
    asgiven = wargs == [["s"]] and uargs == [["s"]]
    ctx.require(asgiven, rule, "fromstr-passes-input", "both parsers get the input string itself, once each", fs.loc(fs.line), detail="%s / %s" % (wargs, uargs),
                fail="Signal::from_str hands a rewritten string to one of the two name tables (%s / %s): a prefix-stripped unix name can land on a Windows control name (SIGSTOP -> STOP -> ForceStop)" % (wargs, uargs))
    fallback = False
    if asgiven:
        top = pathx.desc(thir.peel(thir.root(fs)))
        if uin[0] is not fs:
            fallback = top == "Result::or_else(Signal::from_windows_str(s), closure)"
        else:
            # the unix table is consulted only on paths that saw the first result be an Err
            fallback = True
            ps = pathx.Enum(interesting=lambda d_: d_.endswith(("from_unix_str", "from_windows_str"))).paths(thir.root(fs))
            for q in ps:
                names = [e[1] for e in q.ev if e[0] == "call"]
                if not any(n_.endswith("from_unix_str") for n_ in names):
                    continue
                iu = [k for k, e in enumerate(q.ev) if e[0] == "call" and e[1].endswith("from_unix_str")][0]
                ev_err = False
                for e in q.ev[:iu]:
                    if e[0] in ("arm", "iflet") and "from_windows_str(s)" in str(e[1]):
                        pats = " ".join(str(x) for x in (e[2] if isinstance(e[2], (tuple, list)) else (e[2],)))
                        hit = bool(e[3]) if e[0] == "iflet" else True
                        if ("Err" in pats and hit) or ("Ok" in pats and not hit):
                            ev_err = True
                fallback = fallback and ev_err
            fallback = fallback and len(ps) >= 2
    ctx.require(fallback, rule, "fromstr-unix-fallback", "from_unix_str is consulted only when from_windows_str failed", fs.loc(fs.line),
                fail="the unix name table is no longer just the fallback of the Windows control names")


def run(ctx):
    ctx.level = "proof"
    ctx.exhaustive = True
    facts = ctx.facts
    ctx.undecided = ("nix's own name table (NixSignal::from_str / TryFrom<i32>) and std's ExitStatus accessors are trusted; "
                     "signal numbers outside the first-class set are delegated to nix.")
    ctx.trusted_base = ["rustc THIR pattern trees", "nix::sys::signal::Signal discriminants as compiled (read from rustc metadata)",
                        "nix FromStr accepts exactly the variant identifiers", "std::process::ExitStatus::{code,signal}"]
    ctx.rule("R19.1", "to_nix, from_nix, From<i32> and nix's compiled discriminants agree on the seven first-class signals "
                      "and these are the POSIX numbers 1,2,3,9,10,12,15; every non-first-class nix signal maps to Custom")
    ctx.also("R19.1", 'the unix signal source attaches to each OS listener the variant of the same name (shared with R01.6)')
    ctx.rule("R19.2", "the unix Display string of each first-class signal is the identifier of its to_nix() variant, so it "
                      "parses back (through NixSignal::from_str) to the same signal; Custom(n) displays as the number")
    ctx.also("R19.2", 'the JSON spelling of a named signal is the same SIG-prefixed name (shared with R16.7)')
    ctx.rule("R19.3", "from_unix_str tries the number, then the upper-cased name, then SIG+upper-cased name; every "
                      "NixSignal::from_str argument derives from to_ascii_uppercase")
    ctx.rule("R19.4", "FromStr tries the Windows control names first and falls back to unix names; both tables upper-case "
                      "their input; the only Windows name that shadows a differently-valued unix name is the documented STOP")
    ctx.rule("R19.5", "ProcessEnd::from(ExitStatus): code 0 -> Success, code != 0 -> ExitError(code), terminating signal -> "
                      "ExitSignal(Signal::from(i32)), decided per arm of the (code, signal, stopped) match")
    ctx.also("R19.5", 'the inverse into_exitstatus puts the whole exit-code byte in bits 8..16')
    ctx.rule("R19.6", "--map-signal splits at the first ':' and maps an empty right-hand side to None, a non-empty one through "
                      "the same Signal parser as the left-hand side")

    sig = facts.find_adt(SIG)
    nix = facts.find_adt(NIX)
    if sig is None or nix is None:
        ctx.violation("R19.1", "floor:anchor:Signal", "Signal / nix Signal enum not found in the fact base")
        return
    nixd = {v["name"]: v.get("discr") for v in nix["variants"]}
    ctx.floor("R19.1", "nix signal variants with discriminants", sum(1 for d in nixd.values() if d is not None), 29)
    variants = [v["name"] for v in sig["variants"]]
    ctx.require(variants == FIRST_CLASS + ["Custom"], "R19.1", "signal-variants",
                "Signal has the seven first-class variants plus Custom", detail=str(variants))

    # ---- R19.1 tables
    to_nix = {}
    from_nix = {}
    from_i32 = {}
    try:
        f = ctx.anchor_fn("R19.1", "watchexec_signals::Signal::to_nix")
        m = the_match(ctx, "R19.1", f)
        for name in FIRST_CLASS:
            i = thir.first_arm(m, sigval(name))
            if i is None:
                ctx.incomplete("R19.1", "to_nix:" + name, "undetermined arm", f.loc(m["l"]))
                continue
            v = thir.expr_value(m["arms"][i]["b"])
            if v[0] == "v" and v[2] == "Some":
                inner = list(v[3].values())[0]
                if inner[0] == "v" and inner[1] == NIX:
                    to_nix[name] = inner[2]
                    continue
            ctx.violation("R19.1", "to_nix:" + name, "to_nix(%s) is not Some(<nix signal>)" % name, f.loc(m["arms"][i]["l"]))
        g = ctx.anchor_fn("R19.1", "watchexec_signals::Signal::from_nix")
        m2 = the_match(ctx, "R19.1", g)
        for nv in nixd:
            i = thir.first_arm(m2, ("v", NIX, nv, {}))
            if i is None:
                ctx.incomplete("R19.1", "from_nix:" + nv, "undetermined arm", g.loc(m2["l"]))
                continue
            v = thir.expr_value(m2["arms"][i]["b"])
            if v[0] == "v" and v[1] == SIG:
                from_nix[nv] = v[2]
        h = ctx.anchor_one("R19.1", "<Signal as From<i32>>::from",
                           [x for x in facts.fns_matching(r"watchexec_signals::Signal as core::convert::From<i32>>::from$")])
        m3 = the_match(ctx, "R19.1", h)
        for n in range(0, 65):
            i = thir.first_arm(m3, ("i", n))
            if i is None:
                ctx.incomplete("R19.1", "from_i32:%d" % n, "undetermined arm", h.loc(m3["l"]))
                continue
            v = thir.expr_value(m3["arms"][i]["b"])
            if v[0] == "v" and v[1] == SIG:
                from_i32[n] = v[2]
        for name in FIRST_CLASS:
            nv = to_nix.get(name)
            loc = f.loc(f.line)
            if nv is None:
                continue
            d = nixd.get(nv)
            ctx.require(from_nix.get(nv) == name, "R19.1", "roundtrip-nix:" + name,
                        "from_nix(to_nix(%s)) == %s" % (name, name), g.loc(g.line),
                        fail="from_nix(to_nix(%s)) = %s" % (name, from_nix.get(nv)))
            ctx.require(d == POSIX[name], "R19.1", "posix-number:" + name,
                        "to_nix(%s) = %s has POSIX number %d" % (name, nv, POSIX[name]), loc,
                        fail="to_nix(%s) = %s whose number is %s, expected %d" % (name, nv, d, POSIX[name]))
            ctx.require(from_i32.get(d) == name, "R19.1", "roundtrip-i32:" + name,
                        "Signal::from(%s as i32) == %s" % (nv, name), h.loc(h.line),
                        fail="Signal::from(%s) = %s but to_nix(%s) has number %s" % (d, from_i32.get(d), name, d))
        for n, name in from_i32.items():
            if name == "Custom":
                ctx.require(n not in POSIX.values(), "R19.1", "i32-custom:%d" % n, "number %d is not first-class and maps to Custom" % n,
                            h.loc(h.line), fail="first-class number %d maps to Custom" % n)
            else:
                ctx.require(POSIX.get(name) == n, "R19.1", "i32-row:%d" % n, "%d -> %s is the POSIX number" % (n, name), h.loc(h.line),
                            fail="Signal::from(%d) = %s, whose POSIX number is %s" % (n, name, POSIX.get(name)))
        for nv, name in from_nix.items():
            if nv in to_nix.values():
                continue
            ctx.require(name == "Custom", "R19.1", "nix-custom:" + nv, "non-first-class %s maps to Custom" % nv, g.loc(g.line),
                        fail="from_nix(%s) = %s although no first-class signal converts to %s" % (nv, name, nv))
    except Skip:
        pass

    # ---- R19.2 Display
    try:
        d = ctx.anchor_one("R19.2", "<Signal as Display>::fmt",
                           facts.fns_matching(r"watchexec_signals::Signal as core::fmt::Display>::fmt$"))
        m = the_match(ctx, "R19.2", d)
        for name in FIRST_CLASS:
            val = ("t", [sigval(name), ("b", False)])
            i = thir.first_arm(m, val)
            if i is None:
                ctx.incomplete("R19.2", "display:" + name, "undetermined arm", d.loc(m["l"]))
                continue
            v = thir.expr_value(m["arms"][i]["b"])
            shown = v[1] if v[0] == "s" else None
            ctx.require(shown is not None and shown == to_nix.get(name), "R19.2", "display:" + name,
                        "Display(%s) on unix is %r, the identifier of to_nix(%s)" % (name, shown, name), d.loc(m["arms"][i]["l"]),
                        fail="Display(%s) on unix is %r but to_nix(%s) is %s: the display form does not parse back to the same signal"
                             % (name, shown, name, to_nix.get(name)))
        # Custom(n): the arm returns write!(f, "{n}") - check the arm binds n and does not produce a literal
        i = thir.first_arm(m, ("t", [sigval("Custom", **{"0": thir.ANY}), ("b", False)]))
        ok = False
        if i is not None:
            body = m["arms"][i]["b"]
            ok = bool(thir.find(body, "return")) and not [n for n in thir.find(body, "lit") if "s" in n and n["s"].strip("{}n") not in ("",)]
        ctx.require(ok, "R19.2", "display:Custom", "Display(Custom(n)) writes the number", d.loc(d.line))
    except Skip:
        pass

    # ---- R19.3 unix parser
    try:
        u = ctx.anchor_fn("R19.3", "watchexec_signals::Signal::from_unix_str_impl")
        cfg = CFG(u)
        num = call_sites(u, "core::str::traits::FromStr::from_str", pred=lambda t: "i32" in (t.callee.full or ""))
        nam = call_sites(u, "core::str::traits::FromStr::from_str", pred=lambda t: NIX in (t.callee.full or ""))
        ctx.floor("R19.3", "i32::from_str in from_unix_str_impl", len(num), 1)
        ctx.floor("R19.3", "NixSignal::from_str in from_unix_str_impl", len(nam), 1)
        if num and nam:
            ctx.require(cfg.dominates(num[0][0], nam[0][0]), "R19.3", "number-first", "the numeric form is tried before names",
                        u.loc(num[0][1].line))
        subs = facts.children(u)
        allnam = [(u, bi, t) for bi, t in nam]
        for c in subs:
            ctx.saw_fn(c)
            for bi, t in call_sites(c, "core::str::traits::FromStr::from_str", pred=lambda t: NIX in (t.callee.full or "")):
                allnam.append((c, bi, t))
        ctx.floor("R19.3", "NixSignal::from_str sites (name and SIG+name)", len(allnam), 2)
        sig_prefixed = 0
        PT = VALUE_CALLS + ("alloc::fmt::format", "core::hint::must_use")

        def is_upper(fn, x):
            """the atom is the result of to_ascii_uppercase - directly, or a local of the enclosing function captured by the closure (`let upper = ..`)"""
            if x.kind == "call":
                return fn.blocks[x.data].term.callee.is_("to_ascii_uppercase")
            if x.kind == "upvar" and fn is not u:
                pls = u.debug_place(x.data)
                return bool(pls) and all(any(is_upper(u, y) for y in origins(u, pl, passthrough=PT)) for pl in pls)
            return False
        for fn, bi, t in allnam:
            ats = origins(fn, t.args[0], passthrough=PT)
            okup = False
            for a in ats:
                if is_upper(fn, a):
                    okup = True
                elif a.kind == "call":
                    ct = fn.blocks[a.data].term
                    if ct.callee.is_("core::fmt::Arguments::new"):
                        # format!("SIG{}", upper): literal piece SIG, and the formatted argument is the upper-cased string
                        pieces, inputs = format_inputs(fn, ct)
                        up_in = inputs and all(any(is_upper(fn, x) for x in inp) for inp in inputs)
                        if "SIG" in pieces and up_in:
                            okup = True
                            sig_prefixed += 1
            ctx.require(okup, "R19.3", "uppercased:%s@%d" % (fn.def_.split("::")[-1], allnam.index((fn, bi, t))),
                        "NixSignal::from_str receives an upper-cased string", fn.loc(t.line),
                        fail="a signal name is looked up without upper-casing: parsing is no longer case-insensitive")
        ctx.require(sig_prefixed >= 1, "R19.3", "sig-prefix", "the SIG-prefixed spelling is tried", u.loc(u.line))
    except Skip:
        pass

    # ---- R19.4 windows names / FromStr order
    try:
        w = ctx.anchor_fn("R19.4", "watchexec_signals::Signal::from_windows_str")
        m = the_match(ctx, "R19.4", w)
        # scrutinee derives from to_ascii_uppercase
        up = [c for c, _ in thir.calls_in(m["e"]) if c.endswith("to_ascii_uppercase")]
        ctx.require(bool(up), "R19.4", "windows-uppercase", "the Windows table is matched against the upper-cased input", w.loc(m["l"]))
        table = {}
        for arm in m["arms"]:
            for s in thir.pattern_strings(arm["p"]):
                v = thir.expr_value(arm["b"])
                if v[0] == "v" and v[2] == "Ok":
                    inner = list(v[3].values())[0]
                    if inner[0] == "v":
                        table[s] = inner[2]
        ctx.floor("R19.4", "windows control names", len(table), 13)
        doc = w.doc or ""
        documented = set(re.findall(r"`([^`]+)`", doc))
        nixnames = set(nixd)
        for name, val in sorted(table.items()):
            ctx.require(name == name.upper(), "R19.4", "win-key-upper:" + name, "table key is upper-case (input is upper-cased)", w.loc(w.line))
            unix = None
            if name in nixnames:
                unix = from_nix.get(name)
            elif "SIG" + name in nixnames:
                unix = from_nix.get("SIG" + name)
            if unix is None:
                ctx.ok("R19.4", "win-noclash:" + name, "%s is not a unix signal name" % name)
                continue
            if unix == val:
                ctx.ok("R19.4", "win-agree:" + name, "%s means %s in both tables" % (name, val))
            else:
                ctx.require(name == "STOP" and name in documented, "R19.4", "win-shadow:" + name,
                            "%s shadows unix %s with %s and is the documented exception" % (name, unix, val), w.loc(w.line),
                            fail="Windows name %s -> %s shadows the unix signal of the same name (-> %s) and is not the documented STOP exception"
                                 % (name, val, unix))
        fs = ctx.anchor_one("R19.4", "<Signal as FromStr>::from_str",
                            facts.fns_matching(r"watchexec_signals::Signal as core::str::traits::FromStr>::from_str$"))
        wcalls = call_sites(fs, "Signal::from_windows_str")
        ctx.require(len(wcalls) == 1, "R19.4", "fromstr-windows-first", "from_str calls from_windows_str first", fs.loc(fs.line))
        fromstr_table(ctx, "R19.4")
    except Skip:
        pass

    # ---- R19.5 ProcessEnd::from(ExitStatus)
    try:
        pe = ctx.anchor_one("R19.5", "<ProcessEnd as From<ExitStatus>>::from",
                            facts.fns_matching(r"watchexec_events::process::ProcessEnd as core::convert::From<std::process::ExitStatus>>::from$"))
        m = the_match(ctx, "R19.5", pe)
        scrut = thir.expr_value(m["e"])
        ok = scrut[0] == "t" and len(scrut[1]) == 3
        names = []
        if ok:
            for x in scrut[1]:
                names.append(x[1].split("::")[-1] if x[0] == "call" else "?")
        ctx.require(names == ["code", "signal", "stopped_signal"], "R19.5", "scrutinee",
                    "the match inspects (code(), signal(), stopped_signal())", pe.loc(m["l"]), detail=str(names))

        def opt(x):
            return ("v", "core::option::Option", "Some", {"0": x}) if x is not None else ("v", "core::option::Option", "None", {})

        def arm_for(code, sig, stop):
            return thir.first_arm(m, ("t", [opt(code), opt(sig), opt(stop)]))

        # exit code
        i = arm_for(thir.ANY, None, None)
        okc = False
        if i is not None:
            body = m["arms"][i]["b"]
            calls = [c for c, _ in thir.calls_in(body)]
            adts = [(n.get("adt"), n.get("v")) for n in thir.walk(body) if n.get("k") in ("adt",)]
            fnrefs = [n["def"] for n in thir.walk(body) if n.get("k") == "fn"]
            uses_code = any(n.get("k") == "var" and n.get("n") == "code" for n in thir.walk(body))
            # zero -> None -> Success either way: NonZero::try_from(x) (error discarded by map_or) or NonZero::new(x)
            okc = (any("map_or" in c for c in calls) and any("try_from" in c or ("NonZero" in c and c.endswith("::new")) for c in calls) and uses_code
                   and ("watchexec_events::process::ProcessEnd", "Success") in adts
                   and any(f.endswith("ProcessEnd::ExitError") for f in fnrefs))
        ctx.require(okc, "R19.5", "code-arm", "(Some(code), None, _): NonZero::try_from(code).map_or(Success, ExitError)",
                    pe.loc(m["arms"][i]["l"]) if i is not None else pe.loc(pe.line),
                    fail="exit codes are no longer mapped 0 -> Success, n -> ExitError(n)")
        # signal
        j = arm_for(None, thir.ANY, None)
        oks = False
        if j is not None:
            # guarded continued() arm precedes: first_arm returns None on a guard -> find the unguarded arm by hand
            pass
        arms = m["arms"]
        sig_arm = None
        for a in arms:
            r = thir.pat_matches(a["p"], ("t", [opt(None), opt(thir.ANY), opt(None)]))
            if r is not False and a.get("g") is None:
                sig_arm = a
                break
        if sig_arm is not None:
            body = sig_arm["b"]
            v = thir.expr_value(body)
            calls = [c for c, _ in thir.calls_in(body)]
            uses = any(n.get("k") == "var" and n.get("n") == "signal" for n in thir.walk(body))
            is_ctor = (v[0] == "v" and v[2] == "ExitSignal") or any(f["def"].endswith("ProcessEnd::ExitSignal") for f in thir.find(body, "fn"))
            oks = is_ctor and uses and any(c.endswith("Into::into") or c.endswith("From::from") for c in calls)
        ctx.require(oks, "R19.5", "signal-arm", "(None, Some(signal), _) -> ExitSignal(signal.into())",
                    pe.loc(sig_arm["l"]) if sig_arm else pe.loc(pe.line),
                    fail="a terminating signal is no longer preserved as ExitSignal(Signal::from(n))")
        k = arm_for(None, None, None)
        okn = False
        if k is not None:
            v = thir.expr_value(m["arms"][k]["b"])
            okn = v[0] == "v" and v[2] == "Success"
        ctx.require(okn, "R19.5", "none-arm", "(None, None, _) -> Success", pe.loc(pe.line))
        # the i32 -> Signal conversion used by `.into()` is From<i32> (checked in R19.1)
        mir_into = [t for _, t in pe.calls() if t.callee.is_("core::convert::Into::into", "core::convert::From::from") and "watchexec_signals::Signal" in (t.callee.full or "")]
        ctx.require(len(mir_into) >= 1 and all("i32" in t.callee.full for t in mir_into), "R19.5", "signal-conversion",
                    "the signal number is converted with <i32 as Into<Signal>> / <Signal as From<i32>>", pe.loc(pe.line), detail=str([t.callee.full for t in mir_into]))
    except Skip:
        pass

    # ... and back: into_exitstatus puts the whole exit-code byte in bits 8..16 (no narrower mask), success is raw 0
    try:
        ie = ctx.anchor_one("R19.5", "ProcessEnd::into_exitstatus", facts.fns_matching(r"watchexec_events::process::ProcessEnd::into_exitstatus$"))
        ms = [m_ for m_ in thir.find(thir.root(ie), "match") if m_["sty"].endswith("ProcessEnd")]
        arms = {}
        pathx.SUBST = pathx.let_substitutions(thir.root(ie), deep=True)
        try:
            for m_ in ms[:1]:
                for a in m_["arms"]:
                    for v in thir.pattern_variants(a["p"]):
                        b_ = thir.peel(a["b"])
                        while isinstance(b_, dict) and b_.get("k") == "block" and b_.get("e") is not None and all(st.get("k") == "let" for st in b_.get("s", [])):
                            b_ = thir.peel(b_["e"])       # `{ let x = ..; f(x) }`: the value with its single-use lets read through
                        arms.setdefault(v, pathx.desc(b_))
        finally:
            pathx.SUBST = {}
        ee = arms.get("ExitError", "")
        ok = ee.startswith("ExitStatusExt::from_raw(") and ee.endswith(" Shl 8)") and "NonZero::get(code)" in ee and not any(
            op in ee for op in (" BitAnd ", " Rem ", " Shr ", " BitOr ", " Sub ", " Add ", " Mul ", " Div "))
        ctx.require(ok and arms.get("Success") == "ExitStatusExt::from_raw(0)", "R19.5", "inverse-exit-code",
                    "into_exitstatus: Success -> raw 0, ExitError(code) -> the code's byte shifted into bits 8..16, unmasked otherwise", ie.loc(ie.line), detail=str(arms)[:300],
                    fail="into_exitstatus no longer maps ExitError(code) to `code << 8` over the whole byte (%s): exit codes do not survive ProcessEnd -> ExitStatus -> ProcessEnd" % ee)
    except Skip:
        pass

    # the other spellings of a signal: the variant the unix signal source attaches to each OS listener (rule owned by C01) and the name written to JSON (rule owned by C16)
    from . import c01 as _c01s, c16 as _c16s
    for fn_, r_ in ((_c01s.signal_listeners, "R19.1"), (_c16s.signal_json_names, "R19.2")):
        try:
            fn_(ctx, r_)
        except Skip:
            pass

    # ---- R19.6 --map-signal
    try:
        p = ctx.anchor_one("R19.6", "SignalMappingValueParser::parse_ref",
                           facts.fns_matching(r"SignalMappingValueParser as clap_builder::builder::value_parser::TypedValueParser>::parse_ref$"))
        cfg = CFG(p)
        sp = call_sites(p, "core::str::<impl str>::split_once", "str::split_once")
        ctx.require(len(sp) == 1, "R19.6", "split-once", "value is split with split_once (first ':')", p.loc(p.line))
        if sp:
            pat = sp[0][1].args[1]
            ctx.require(pat.is_const() and "':'" in pat.const.get("v", ""), "R19.6", "split-colon", "the separator is ':'", p.loc(sp[0][1].line),
                        detail=repr(pat))
        parses = call_sites(p, "core::str::<impl str>::parse", "str::parse")
        parses = [(bi, t) for bi, t in parses if "watchexec_signals::Signal" in (t.callee.full or "")]
        ctx.require(len(parses) == 2, "R19.6", "both-parse-signal", "both sides go through str::parse::<Signal>", p.loc(p.line),
                    detail=str(len(parses)))
        # THIR form (polarity-safe): `to` empty => None, otherwise Some(parse::<Signal>(to)?)
        from .. import pathx as _px19
        ifs19 = [n for n in thir.find(thir.root(p), "if") if _px19.if_parts(n)[0] == "str::is_empty(to)"]
        ok19 = False
        d19 = ""
        if len(ifs19) == 1:
            _, t19, e19 = _px19.if_parts(ifs19[0])
            d19 = "%s / %s" % (_px19.desc(t19), _px19.desc(e19)[:80])
            ok19 = _px19.desc(t19) == "None" and _px19.desc(e19).startswith("Some{0: ") and "str::parse(to)" in _px19.desc(e19)
        ctx.require(ok19, "R19.6", "empty-none-thir", "an empty right-hand side maps to None, a non-empty one to Some(its parsed signal)", p.loc(p.line), detail=d19,
                    fail="--map-signal no longer maps `SIG:` to None and `SIG:OTHER` to Some(OTHER) (%s)" % d19)
        emp = call_sites(p, "core::str::<impl str>::is_empty", "str::is_empty")
        ctx.require(len(emp) == 1, "R19.6", "empty-test", "the right-hand side is tested with is_empty", p.loc(p.line))
        if emp and len(parses) == 2:
            bi, t = emp[0]
            sw = p.blocks[t.target].term
            if sw.kind == "switch":
                false_t = [tt for v, tt in sw.cases if v == 0][0]
                true_t = sw.otherwise
                second = parses[1][0]
                ctx.require(cfg.reaches(false_t, second) and not cfg.reaches(true_t, second, avoid=[bi]), "R19.6", "empty-none",
                            "the second parse happens only for a non-empty right-hand side; empty maps to None", p.loc(t.line))
                none_on_true = any(s.kind == "=" and s.rv.kind == "agg" and s.rv.agg_adt() and s.rv.agg_adt()[1] == "None"
                                   for b in cfg.reachable_from(true_t, avoid=[false_t]) for s in p.blocks[b].stmts)
                ctx.require(none_on_true, "R19.6", "empty-none-value", "empty right-hand side yields None", p.loc(t.line))
    except Skip:
        pass
