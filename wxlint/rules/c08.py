"""C08 - quit always terminates and leaves no supervised process behind."""
from .. import thir, pathx, jobrules
from ..cfg import CFG, call_sites
from ..facts import strip_generics
from ..origin import origins, origin_calls, VALUE_CALLS
from ..report import Skip

LIB = "watchexec"
SUP = "watchexec_supervisor"


def interesting(d):
    p = strip_generics(d)
    return not any(p.startswith(x) for x in ("core::clone::Clone::clone", "core::convert::", "core::ops::deref", "core::fmt",
                                             "core::pin::Pin::", "core::future::get_context", "core::future::into_future"))


def run(ctx):
    ctx.level = "other"
    facts = ctx.facts
    ctx.undecided = ("the time bound itself and what process-wrap does to the other members of a process group; termination of the graceful path rests "
                     "on C06/C07 (the delete control is eventually read because the grace timer fires or is cleared), which are checked separately.")
    ctx.rule("R08.1", "every job task is owned: start_job is called in the lib only by Handler::create_job / create_job_with_id, the JoinHandle goes into "
                      "Handler.new, and in worker() the loop that moves action.new into jobtasks/jobs comes before the quit decision on every path")
    ctx.rule("R08.2", "abort path: QuitManner::Abort breaks the worker loop; LateJoinSet's Drop aborts every task; each child handle is KillOnDrop (R04.5)")
    ctx.rule("R08.3", "graceful path: every job gets stop_with_signal(signal, grace) followed by an awaited delete(); the per-job tasks and then all job "
                      "tasks are joined before the loop is left")
    ctx.rule("R08.4", "main task: the action worker's end breaks the join loop and all other workers are shut down (JoinSet::shutdown awaited) before Ok(())")
    ctx.rule("R08.5", "Handler::quit records Abort and quit_gracefully(signal, grace) records Graceful{signal, grace} unconditionally; in the CLI an "
                      "Interrupt/Terminate that is not mapped leads to quit(), testing each signal against its own map entry")
    ctx.also("R08.5", 'the signal source queues Interrupt / Terminate at Urgent priority with a blocking send whose failure is reported (shared with R01.4 / R01.5)')
    ctx.rule("R08.7", "the supervisor side of a terminating graceful quit: an expired stop timer is cleared when it is turned into the forced control (so the job "
                      "task goes on to read its queue and reaches the Delete), and signalling never panics the job task (unsupported signals fall back to SIGTERM)")
    ctx.also("R08.7", "the awaited delete() returns because its ticket selects over the job-gone flag and Flag's wake protocol loses no waiter (shared with R07.6 / R07.4)")
    ctx.rule("R08.6", "process-group / session wrappers: session => ProcessSession, else grouped => ProcessGroup::leader(); KillOnDrop always")

    # ---- R08.1
    try:
        callers = []
        for fn in facts.crate_fns(LIB):
            for _, t in fn.calls():
                if t.callee.is_("watchexec_supervisor::job::task::start_job", "job::task::start_job"):
                    callers.append(fn)
        ctx.floor("R08.1", "start_job call sites in the lib", len(callers), 1)
        for fn in callers:
            ok = fn.def_ in ("watchexec::action::handler::Handler::create_job", "watchexec::action::handler::Handler::create_job_with_id")
            ctx.require(ok, "R08.1", "start_job-caller:" + fn.def_, "start_job is only called from Handler::create_job*", fn.loc(fn.line),
                        fail="%s starts a job task outside Handler::create_job*: its JoinHandle is not owned by the worker" % fn.def_)
            if ok:
                ctx.saw_fn(fn)
                ins = [t for _, t in fn.calls() if t.callee.is_("std::collections::hash::map::HashMap::insert")]
                good = False
                for t in ins:
                    recv = origins(fn, t.args[0])
                    to_new = any(a.proj and a.proj[-1][0] == "f" and a.proj[-1][2] == "new" for a in recv)
                    val = origins(fn, t.args[2], VALUE_CALLS)
                    from_start = False
                    for a in val:
                        if a.kind == "agg":
                            st = fn.blocks[a.data[0]].stmts[a.data[1]]
                            for op in st.rv.ops:
                                for b in origins(fn, op, VALUE_CALLS):
                                    if b.kind == "call" and fn.blocks[b.data].term.callee.is_("job::task::start_job") and b.proj and b.proj[0][1] == 1:
                                        from_start = True
                    good = good or (to_new and from_start)
                ctx.require(good, "R08.1", "handle-stored:" + fn.def_.split("::")[-1], "the JoinHandle returned by start_job is stored in Handler.new", fn.loc(fn.line),
                            fail="%s does not keep the job task's JoinHandle in Handler.new" % fn.def_)
        cj = facts.find_fn("watchexec::action::handler::Handler::create_job_with_id")
        if cj is not None:
            ctx.require("Public" not in (cj.vis or ""), "R08.1", "create_job_with_id-private", "create_job_with_id stays private (duplicate ids would leak jobs)", cj.loc(cj.line))
        w = ctx.anchor_one("R08.1", "action worker coroutine",
                           [c for c in facts.children(ctx.anchor_fn("R08.1", "watchexec::action::worker::worker")) if c.kind == "coroutine"])
        cfg = CFG(w)
        ins_tasks = [bi for bi, t in w.calls() if t.callee.is_("late_join_set::LateJoinSet::insert")]
        ins_jobs = [bi for bi, t in w.calls() if t.callee.is_("std::collections::hash::map::HashMap::insert") and not w.macro(t.mac)]
        # the quit decision: switch on discriminant of action.quit
        quit_sw = []
        for b in w.blocks:
            for s in b.stmts:
                if s.kind == "=" and s.rv.kind == "discr":
                    nm = w.name_of_place(s.rv.place) or ""
                    if nm.startswith("action.quit"):
                        quit_sw.append(b.idx)
        ctx.require(len(ins_tasks) == 1 and len(ins_jobs) == 1 and len(quit_sw) >= 1, "R08.1", "take-over-sites",
                    "worker() takes over new job tasks (jobtasks.insert, jobs.insert) and inspects action.quit", w.loc(w.line),
                    detail="%s %s %s" % (ins_tasks, ins_jobs, quit_sw))
        if len(ins_tasks) == 1 and quit_sw:
            # every path from the handler call to the quit test passes the take-over loop head (the loop's iterator creation dominates the test)
            loop_iter = [bi for bi, t in w.calls() if t.callee.is_("core::iter::traits::collect::IntoIterator::into_iter") and
                         any(a.proj and a.proj[-1][2] == "new" for a in origins(w, t.args[0]))]
            q = min(quit_sw)
            ok = bool(loop_iter) and cfg.dominates(loop_iter[0], q) and not cfg.reaches(q, ins_tasks[0], avoid=[b for b in cfg.loops_containing(q) if False] or []) or False
            # the insert must not be reachable from the quit test without going around the main loop (i.e. without a new handler call)
            hcalls = [bi for bi, t in w.calls() if t.callee.is_("ChangeableFn::call")]
            after_quit_reaches_insert = cfg.reaches(q, ins_tasks[0], avoid=hcalls)
            ctx.require(bool(loop_iter) and cfg.dominates(loop_iter[0], q) and not after_quit_reaches_insert, "R08.1", "take-over-before-quit",
                        "new job tasks are taken over before the quit decision", w.loc(w.blocks[q].term.line),
                        fail="worker() examines action.quit before taking over the jobs created in that action: a job created in the quitting action is "
                             "never owned, its task is detached and its process survives the shutdown")
    except Skip:
        w = None

    # ---- R08.2 / R08.3 via THIR of the worker
    try:
        if w is None:
            raise Skip()
        root = thir.root(w)
        ms = [m for m in thir.find(root, "match") if m["src"] == "Normal" and m["sty"].endswith("QuitManner")]
        if len(ms) != 1:
            ctx.violation("R08.2", "floor:quit-match", "worker() no longer has one match over QuitManner", w.loc(w.line))
        else:
            en = pathx.Enum(interesting=interesting)
            for arm in ms[0]["arms"]:
                v = thir.pattern_variants(arm["p"])[0]
                ps = en.paths(arm["b"])
                if v == "Abort":
                    ctx.require(all(p.out == "brk" and not [e for e in p.ev if e[0] == "call"] for p in ps), "R08.2", "abort-breaks",
                                "QuitManner::Abort leaves the worker loop at once", w.loc(arm["l"]),
                                fail="an abort quit no longer leaves the worker loop immediately")
                elif v == "Graceful":
                    for p in ps:
                        names = [strip_generics(e[1]) for e in p.ev if e[0] == "call"]
                        loops = [e for e in p.ev if e[0] == "loop"]
                        drains = [n for n in names if n.endswith("HashMap::drain")]
                        joins = [i for i, e in enumerate(p.ev) if e[0] == "call" and strip_generics(e[1]).endswith("LateJoinSet::join_all")]
                        jdesc = [pathx.desc(p.ev[i][2]["a"][0]) for i in joins]
                        awaited = all(i + 1 < len(p.ev) and p.ev[i + 1][0] == "await" for i in joins)
                        spawned = any(any(any(x[0] == "call" and strip_generics(x[1]).endswith("LateJoinSet::spawn") for x in it) for it in l[1]) for l in loops)
                        ok = p.out == "brk" and len(drains) == 1 and spawned and jdesc == ["tasks", "jobtasks"] and awaited
                        ctx.require(ok, "R08.3", "graceful-shape", "graceful quit: drain jobs, spawn a stop task per job, join those, join all job tasks, then break",
                                    w.loc(arm["l"]), detail=pathx.show_events(p.ev)[:400],
                                    fail="the graceful quit path no longer stops every job and waits for all job tasks before leaving the loop")
        # the per-job task: stop_with_signal(signal, grace) then delete().await
        # the future spawned per job: an `async move` block of the worker or a named `async fn` it calls
        tasks = [c for c in facts.callable_bodies(w) if c.kind == "coroutine" and any(t.callee.is_("Job::stop_with_signal") for _, t in c.calls())]
        t = ctx.anchor_one("R08.3", "per-job shutdown task", tasks)
        en = pathx.Enum(interesting=interesting)
        for p in en.paths(thir.root(t)):
            seq = [(strip_generics(e[1]).split("::")[-1], [pathx.desc(a) for a in e[2]["a"]]) for e in p.ev if e[0] == "call"]
            aw = [e for e in p.ev if e[0] == "await"]
            ok = [s[0] for s in seq][:2] == ["stop_with_signal", "delete"] and [a_.replace("^", "") for a_ in seq[0][1][1:]] == ["signal", "grace"] and len(aw) == 1 and "Job::delete" in aw[0][1]
            ctx.require(ok, "R08.3", "per-job-stop-then-delete", "each job is sent stop_with_signal(signal, grace) and then an awaited delete()", t.loc(t.line),
                        detail=str(seq), fail="the per-job shutdown no longer is stop_with_signal(signal, grace) followed by an awaited delete()")
        # LateJoinSet drop aborts
        d = ctx.anchor_one("R08.2", "<LateJoinSet as Drop>::drop", facts.trait_methods("watchexec::late_join_set::LateJoinSet", "Drop", "drop"))
        ctx.require(any(tt.callee.is_("LateJoinSet::abort_all") for _, tt in d.calls()), "R08.2", "drop-aborts", "dropping a LateJoinSet aborts its tasks", d.loc(d.line),
                    fail="dropping the job task set no longer aborts the job tasks: after an abort quit job tasks (and their processes) live on")
        seqd = [strip_generics(e[1]).split("::")[-1] for q in pathx.Enum().paths(thir.root(d)) for e in q.ev if e[0] == "call"]
        ctx.require("abort_all" in seqd and not any(x in seqd[:seqd.index("abort_all")] for x in ("clear", "drain", "take", "truncate")), "R08.2", "drop-aborts-before-forgetting",
                    "the handles are aborted before the set forgets them", d.loc(d.line), detail=str(seqd),
                    fail="LateJoinSet's Drop forgets the task handles before aborting them (%s): dropping a JoinHandle only detaches the task, so after an abort quit the job tasks and their processes live on" % seqd)
        ab = ctx.anchor_fn("R08.2", "watchexec::late_join_set::LateJoinSet::abort_all")
        fe = [tt for _, tt in ab.calls() if tt.callee.is_("core::iter::traits::iterator::Iterator::for_each")]
        ok = len(fe) == 1 and fe[0].args[1].const_fn() is not None and fe[0].args[1].const_fn().is_("JoinHandle::abort", "tokio::runtime::task::join::JoinHandle::abort")
        if not ok:
            # the same written as `for task in &self.tasks { task.abort() }`: every iteration aborts the loop variable and nothing leaves the loop early
            for q in pathx.Enum().paths(thir.root(ab)):
                lp = [e for e in q.ev if e[0] == "loop" and "self.tasks" in e[2]]
                if len(lp) == 1 and lp[0][1] and all(any(x[0] == "call" and strip_generics(x[1]).endswith("JoinHandle::abort") for x in it) and ("loop-break",) not in it for it in lp[0][1]) and q.out == "val":
                    ok = True
        ctx.require(ok, "R08.2", "abort-all-aborts-each", "abort_all aborts every task handle", ab.loc(ab.line))
        # the set really holds what is put into it and join_all really waits for all of it
        LJ = "watchexec::late_join_set::LateJoinSet"
        ins = ctx.anchor_fn("R08.3", LJ + "::insert")
        pushes = [[pathx.desc(a) for a in nd["a"]] for c, nd in thir.calls_in(thir.root(ins)) if strip_generics(c).endswith("FuturesUnordered::push")]
        ctx.require(pushes == [["self.tasks", "task"]], "R08.3", "set:insert", "LateJoinSet::insert stores the task handle", ins.loc(ins.line), detail=str(pushes),
                    fail="LateJoinSet::insert does not keep the task handle: job tasks are neither joined on a graceful quit nor aborted on drop")
        sp = ctx.anchor_fn("R08.3", LJ + "::spawn")
        v = [(strip_generics(c).split("::")[-1], [pathx.desc(a) for a in nd["a"]]) for c, nd in thir.calls_in(thir.root(sp))]
        ctx.require(("insert", ["self", "spawn::spawn(task)"]) in v, "R08.3", "set:spawn", "LateJoinSet::spawn spawns the future and inserts its handle", sp.loc(sp.line), detail=str(v)[:200],
                    fail="LateJoinSet::spawn does not spawn-and-keep the task: the per-job shutdown tasks of a graceful quit never run or are not waited for")
        ja = ctx.anchor_one("R08.3", "LateJoinSet::join_all coroutine", [c for c in facts.children(ctx.anchor_fn("R08.3", LJ + "::join_all")) if c.kind == "coroutine"])
        okj = False
        JNX = "await LateJoinSet::join_next(self)"

        def opt_evidence(evs):
            """what a sequence of events says about join_next()'s result: 'some' / 'none' / None - whichever way the test is spelled
            (is_some / is_none, if let, match arms)"""
            got = set()
            for e in evs:
                if e[0] == "branch":
                    d = e[1].replace("Option::is_none(", "Not Option::is_some(")
                    core, neg = pathx.split_not(d)
                    if core == "Option::is_some(%s)" % JNX:
                        got.add("some" if (e[2] != neg) else "none")
                elif e[0] == "iflet" and e[1] == JNX and e[2]:
                    vs = set(e[2])
                    if vs == {"Some"}:
                        got.add("some" if e[3] else "none")
                    elif vs == {"None"}:
                        got.add("none" if e[3] else "some")
                elif e[0] == "arm" and e[1] == JNX:
                    ps = e[2][0]
                    got.add("some" if ps.startswith("Some") else ("none" if ps.startswith("None") else "?"))
            return got.pop() if len(got) == 1 else None
        for q in pathx.Enum().paths(thir.root(ja)):
            loops = [e for e in q.ev if e[0] == "loop"]
            stay = bool(loops) and all(opt_evidence(it) == "some" or ("loop-break",) in it and opt_evidence(it) == "none" for l in loops for it in l[1])
            stay = stay and any(opt_evidence(it) == "some" for l in loops for it in l[1])
            inner_exit = any(("loop-break",) in it and opt_evidence(it) == "none" for l in loops for it in l[1])
            after = [e for e in q.ev if e[0] != "loop"]
            leave = inner_exit or opt_evidence(after) == "none"
            okj = okj or (len(loops) == 1 and stay and leave and q.out == "val")
        ctx.require(okj, "R08.3", "set:join-all", "join_all keeps joining while join_next() yields a task and returns only when the set is empty", ja.loc(ja.line),
                    fail="LateJoinSet::join_all no longer waits until every task has been joined: a graceful quit returns while job tasks (and their processes) are still alive")
        jn = ctx.anchor_one("R08.3", "LateJoinSet::join_next coroutine", [c for c in facts.children(ctx.anchor_fn("R08.3", LJ + "::join_next")) if c.kind == "coroutine"])
        nx = [[pathx.desc(a).lstrip("^") for a in nd["a"]] for c, nd in thir.calls_in(thir.root(jn)) if strip_generics(c).endswith("StreamExt::next")]
        ctx.require(nx == [["self.tasks"]], "R08.3", "set:join-next", "join_next polls the stored task handles", jn.loc(jn.line), detail=str(nx))
    except Skip:
        pass
    try:
        jobrules.kill_on_drop(ctx, "R08.2")
    except Skip:
        pass

    # ---- R08.4 main task
    try:
        wc = ctx.anchor_fn("R08.4", "watchexec::watchexec::Watchexec::with_config")
        mt = ctx.anchor_one("R08.4", "main task coroutine", [c for c in facts.children(wc) if c.kind == "coroutine"])
        cfg = CFG(mt)
        sd = [(bi, t) for bi, t in mt.calls() if t.callee.is_("tokio::task::join_set::JoinSet::shutdown")]
        ctx.require(len(sd) == 1, "R08.4", "shutdown-called", "the main task shuts the remaining workers down", mt.loc(mt.line))
        if sd:
            # the Ok(()) return (a Result::Ok aggregate assigned to _0 outside the error returns) is dominated by shutdown and its await
            oks = [b.idx for b in mt.blocks for s in b.stmts if s.kind == "=" and s.place.local == 0 and s.rv.kind == "agg" and s.rv.agg_adt()
                   and s.rv.agg_adt()[1] == "Ok"]
            polls = [bi for bi, t in mt.calls() if t.callee.is_("core::future::future::Future::poll") and cfg.dominates(sd[0][0], bi)]
            ctx.require(bool(oks) and all(cfg.dominates(sd[0][0], o) for o in oks) and bool(polls) and all(any(cfg.dominates(pb, o) for pb in polls) for o in oks),
                        "R08.4", "shutdown-before-ok", "Ok(()) is returned only after the awaited shutdown of all workers", mt.loc(sd[0][1].line),
                        fail="the main task can finish without shutting the other workers down")
    except Skip:
        pass

    try:
        from .. import evrules
        evrules.accessor(ctx, "R08.5", "signals")   # the quit decision reads the batch's signals through Event::signals()
    except Skip:
        pass
    # ---- R08.5 handler table + CLI
    try:
        q = ctx.anchor_fn("R08.5", "watchexec::action::handler::Handler::quit")
        a = [n for n in thir.find(thir.root(q), "assign")]
        ok = len(a) == 1 and pathx.desc(a[0]["a"]) == "self.quit" and pathx.desc(a[0]["b"]) == "Some{0: Abort}" and not thir.find(thir.root(q), "if")
        ctx.require(ok, "R08.5", "quit-is-abort", "Handler::quit records QuitManner::Abort", q.loc(q.line))
        g = ctx.anchor_fn("R08.5", "watchexec::action::handler::Handler::quit_gracefully")
        a = [n for n in thir.find(thir.root(g), "assign")]
        conds = thir.find(thir.root(g), "if") + thir.find(thir.root(g), "match")
        ok = len(a) == 1 and pathx.desc(a[0]["a"]) == "self.quit" and pathx.desc(a[0]["b"]) == "Some{0: Graceful{signal: signal, grace: grace}}" and not conds
        ctx.require(ok, "R08.5", "quit-gracefully-is-graceful", "quit_gracefully(signal, grace) records Graceful{signal, grace} unconditionally", g.loc(g.line),
                    detail=str([pathx.desc(x["b"]) for x in a]),
                    fail="quit_gracefully no longer always records a graceful quit with the given signal and grace (some argument values are turned into an abort)")
    except Skip:
        pass
    try:
        cli = [f for f in facts.fns_matching(r"^watchexec_cli::config::make_config::") if f.kind == "coroutine"]
        # the action handler coroutine: contains the contains_key tests
        hs = [f for f in cli if any(t.callee.is_("Handler::get_or_create_job") for _, t in f.calls())]
        h = ctx.anchor_one("R08.5", "CLI action handler coroutine", hs)
        root = thir.root(h)
        found = None
        pathx.INLINE = pathx.accessors(facts, "watchexec_cli::config::", max_nodes=48)     # a predicate moved into a private helper reads as its body
        for n in thir.find(root, "if"):
            d = pathx.desc(n["c"])
            if "contains_key" in d and "Terminate" in d and "Interrupt" in d and not d.startswith("Not "):
                found = (n, d)
                break
        if found is None:
            ctx.violation("R08.5", "floor:cli-quit-test", "the CLI handler no longer tests for unmapped Terminate/Interrupt signals", h.loc(h.line))
        else:
            n, d = found
            import re as _re
            clauses = _re.findall(r"\(\w+::contains\(signals, (\w+)\) && Not HashMap::contains_key\(\^?signal_map, (\w+)\)\)", d)
            ok = sorted(clauses) == [("Interrupt", "Interrupt"), ("Terminate", "Terminate")] and " || " in d
            ctx.require(ok, "R08.5", "cli-unmapped-signal-test", "quit when Terminate or Interrupt was received and that same signal is not mapped", h.loc(n["l"]),
                        detail=d, fail="the CLI's quit test pairs a received signal with the wrong map entry (%s): an unmapped interrupt/terminate may not quit" % d)
            en = pathx.Enum(interesting=interesting)
            ps = en.paths(n["t"])
            import re as _re2
            ok = all(p.out == "ret" and _re2.search(r"\bquit\b", p.val or "") for p in ps) and bool(ps)
            ctx.require(ok, "R08.5", "cli-unmapped-signal-quits", "the unmapped-signal branch returns quit(action) on every path", h.loc(n["l"]),
                        detail=str([(p.out, p.val) for p in ps][:3]), fail="an unmapped interrupt/terminate does not always lead to quit()")
            # every way to a quit is one of the three documented reasons, and each reason always quits
            from ..throttle import implies as _imp8
            pathx.SUBST = pathx.let_substitutions(root)
            try:
                hps = pathx.Enum(interesting=lambda d_: False, max_paths=200000).paths(root)
            finally:
                pathx.SUBST = {}
            ONCE = "^once"
            EOFQ = "(^stdin_quit && Iterator::any(slice::iter(^action.events), closure))"
            bad8 = []
            n_q = 0
            for q in hps:
                quits = q.out == "ret" and _re2.search(r"\bquit\b", q.val or "") is not None
                why = []
                for e in q.ev:
                    if e[0] == "branch" and e[2] is True:
                        if e[1] == ONCE:
                            why.append("once")
                        elif e[1] == EOFQ:
                            why.append("stdin-eof")
                        elif e[1] == d or ("contains_key" in e[1] and "Terminate" in e[1] and "Interrupt" in e[1] and e[1].count(" || ") == 1 and e[1].count(" && ") == 2):
                            why.append("signal")
                        elif "stdin_quit" in e[1] or "contains_key" in e[1]:
                            why.append("?" + e[1][:60])
                if quits:
                    n_q += 1
                    if not why or any(w.startswith("?") for w in why):
                        bad8.append("quit without one of the documented reasons: " + pathx.show_events([e for e in q.ev if e[0] == "branch"])[-200:])
                elif why:
                    bad8.append("reason %s does not lead to a quit" % why)
            # what `quit(action)` does: first time graceful with the configured stop signal / timeout, second time forced, afterwards abort
            qcl = [c for c in facts.children(h) if c.kind == "closure" and any(t.callee.is_("Handler::quit_gracefully") for _, t in c.calls())]
            qrows = []
            if len(qcl) == 1:
                for q in pathx.Enum(interesting=lambda d_: strip_generics(d_).endswith(("Handler::quit", "Handler::quit_gracefully", "fetch_add"))).paths(thir.root(qcl[0])):
                    arm = [e[2][0] for e in q.ev if e[0] == "arm"]
                    cl_ = [(strip_generics(e[1]).split("::")[-1], [pathx.desc(a) for a in e[2]["a"]]) for e in q.ev if e[0] == "call" and not strip_generics(e[1]).endswith("fetch_add")]
                    cnt = [[pathx.desc(a) for a in e[2]["a"]] for e in q.ev if e[0] == "call" and strip_generics(e[1]).endswith("fetch_add")]
                    qrows.append((arm[0] if arm else None, cl_, cnt, q.val))
            wantq = [("0", [("quit_gracefully", ["action", "Option::unwrap_or(^stop_signal, Terminate)", "^stop_timeout"])], [["^quit_again", "1", "Relaxed"]], "action"),
                     ("1", [("quit_gracefully", ["action", "ForceStop", "ZERO"])], [["^quit_again", "1", "Relaxed"]], "action"),
                     ("_", [("quit", ["action"])], [["^quit_again", "1", "Relaxed"]], "action")]
            ctx.require(sorted(qrows, key=str) == sorted(wantq, key=str), "R08.5", "cli-quit-escalation",
                        "quit(action): 1st request graceful (stop signal or SIGTERM, stop timeout), 2nd forced (ForceStop, 0), later ones abort; the action is returned", h.loc(h.line),
                        detail=str(qrows)[:400], fail="the CLI's quit closure no longer escalates graceful -> forced -> abort with the configured signal and timeout: %s" % str(qrows)[:300])
            mk8 = ctx.anchor_fn("R08.5", "watchexec_cli::config::make_config")
            kb = [[pathx.desc(a) for a in nd["a"]] for c, nd in thir.calls_in(thir.root(mk8)) if strip_generics(c).endswith("Config::keyboard_events")]
            ctx.require(kb == [["config", "args.events.stdin_quit"]], "R08.5", "cli-stdin-quit-enables-keyboard", "--stdin-quit enables the keyboard source whose EOF the handler quits on",
                        mk8.loc(mk8.line), detail=str(kb))
            eofc = [c for c in facts.children(h) if c.kind == "closure" and pathx.desc(thir.peel(thir.root(c))) == "slice::contains(e.tags, Keyboard{0: Eof})"]
            ctx.require(not bad8 and n_q >= 3 and len(eofc) == 1, "R08.5", "cli-quit-reasons", "the CLI handler quits exactly for: --once (debug), --stdin-quit with a keyboard EOF, "
                        "an unmapped interrupt/terminate", h.loc(h.line), detail="; ".join(bad8)[:400] + " eof-closures=%d" % len(eofc),
                        fail="the CLI action handler's reasons to quit changed: " + "; ".join(bad8)[:300])
    except Skip:
        pass
    finally:
        pathx.INLINE = {}

    # ---- R08.7 what the graceful path's termination rests on in the supervisor (rules owned by C06 / C07, evaluated here too)
    try:
        from .. import jobtask as _jt8
        B8 = _jt8.Bodies(ctx, "R08.7")
        jobrules.recv_gating(ctx, B8, rule="R08.7")
        jobrules.signal_child_rule(ctx, "R08.7")
    except Skip:
        pass

    # the awaited delete() of the graceful path returns because its ticket resolves when the job ends: ticket shape + flag protocol (rules owned by C07)
    for fn8 in (jobrules.ticket_shape, jobrules.wake_protocol):
        try:
            fn8(ctx, "R08.7")
        except Skip:
            pass
    # an interrupt / terminate reaches the handler at all: the signal source queues it (blocking send, failure reported) at Urgent priority (rules owned by C01)
    from . import c01 as _c01q
    for fn8 in (_c01q.source_priorities, _c01q.source_send_paths):
        try:
            fn8(ctx, "R08.5")
        except Skip:
            pass

    # ---- R08.6 wrappers
    try:
        ic8 = ctx.anchor_fn("R08.6", "watchexec_cli::config::interpret_command_args")
        so8 = [n for n in thir.find(thir.root(ic8), "adt") if n.get("adt", "").endswith("SpawnOptions")]
        pathx.SUBST = pathx.let_substitutions(thir.root(ic8))
        try:
            sof8 = {k: pathx.desc(v) for k, v in so8[0]["f"]} if len(so8) == 1 else {}
        finally:
            pathx.SUBST = {}
        ctx.require(sof8 == {"grouped": "PartialEq::eq(args.command.wrap_process, Group)", "session": "PartialEq::eq(args.command.wrap_process, Session)"}, "R08.6", "cli-wrap-mode",
                    "the CLI puts the command in its own process group (default) or session exactly as --wrap-process says, in shell and no-shell mode alike", ic8.loc(ic8.line), detail=str(sof8),
                    fail="the CLI's group/session options depend on more than --wrap-process (%s): stop signals and the final kill reach only the program itself and its children survive the shutdown" % sof8)
    except Skip:
        pass
    try:
        jobrules.wrapper_table(ctx, "R08.6")
    except Skip:
        pass

    # ---- R08.8 nothing stale holds back the quit's controls: restart marker <=> restart timer (owned by C06)
    ctx.rule("R08.8", "no timer stays armed after the graceful restart it belongs to has been carried out, so the quit's normal-priority controls are read")
    ctx.borrow("C06", ["R06.5"], "R08.8", "coupling invariant at the exit of every handler path")

    # ---- R08.9 the interrupt overtakes whatever is queued: Urgent is the greatest Priority (owned by C02)
    ctx.rule("R08.9", "an Interrupt / Terminate event is received ahead of any backlog of ordinary events")
    ctx.borrow("C02", ["R02.6"], "R08.9", "the derived ordering of Priority puts Urgent last = greatest", keys=["priority-order"])


    # ---- R08.10 the handler's view of the batch is the whole batch
    ctx.rule("R08.10", "Handler::signals() / paths() / completions() range over every event of the batch: an interrupt collected behind a pending event is seen by the "
                       "action handler (an urgent event is pushed onto the set already being collected, it does not arrive alone)")
    try:
        HD = "watchexec::action::handler::Handler"
        PARTIAL = ("first", "last", "take", "skip", "nth", "get", "step_by", "take_while", "skip_while", "next", "next_back", "split_first", "split_last",
                   "find", "position", "max", "min", "peekable", "chunks", "windows")
        for acc in ("signals", "paths", "completions"):
            af = ctx.anchor_fn("R08.10", HD + "::" + acc)
            seen = []
            for g in [af] + list(facts.callable_bodies(af)):
                if g.crate.name != "watchexec":
                    continue
                for cd, nd in thir.calls_in(thir.root(g)):
                    seen.append((strip_generics(cd), [pathx.desc(a).replace("^", "") for a in nd["a"]]))
            whole = [c for c, a in seen if c.split("::")[-1] in ("iter", "into_iter") and a and a[0] in ("self.events", "Arc::as_ref(self.events)", "Deref::deref(self.events)")]
            partial = sorted({c.split("::")[-1] for c, a in seen if c.split("::")[-1] in PARTIAL})
            through = [c for c, a in seen if any(x == "Event::" + acc or x.endswith("::Event::" + acc) for x in a) or c.endswith("event::Event::" + acc)]
            ctx.require(bool(whole) and not partial and bool(through), "R08.10", "handler-accessor-whole-batch:" + acc,
                        "Handler::%s() iterates all of self.events through Event::%s" % (acc, acc), af.loc(af.line), detail=str(seen)[:300],
                        fail="Handler::%s() no longer ranges over the whole batch (%s): what an event collected behind another one carries - e.g. the interrupt that must "
                             "end watchexec - is invisible to the action handler" % (acc, "uses " + ", ".join(partial) if partial else "source is not self.events.iter()"))
    except Skip:
        pass



def jobrules_to_spawnable(ctx):
    c = ctx.facts.fns_matching(r"command::.*to_spawnable$", crate=SUP)
    return ctx.anchor_one("R08.6", "Command::to_spawnable", c)
