"""C03 - ignore files apply only inside their directory; the nearest match wins."""
import re

from .. import thir, pathx
from ..cfg import CFG, call_sites
from ..facts import strip_generics
from ..origin import origins, origin_calls, VALUE_CALLS, IDENTITY_CALLS
from ..report import Skip
from ..throttle import implies, eval_cond

IF = "ignore_files::filter::IgnoreFilter"


def interesting(d):
    p = strip_generics(d)
    return not any(p.startswith(x) for x in ("core::clone::Clone::clone", "core::convert::", "core::ops::deref", "core::fmt",
                                             "alloc::string::ToString", "std::path::Path::display", "core::pin::Pin::", "core::future::"))


def _balanced(d, start):
    depth = 0
    for j in range(start, len(d)):
        if d[j] == "(":
            depth += 1
        elif d[j] == ")":
            depth -= 1
            if depth == 0:
                return d[start:j + 1]
    return None


def containment_atoms(d):
    """sub-terms of a condition description that state 'the node key is a component-wise ancestor of search_path'"""
    out = []
    for head in ("Path::starts_with(search_path, ", "Result::is_ok(Path::strip_prefix(search_path, "):
        i = d.find(head)
        while i >= 0:
            name_start = i
            paren = d.index("(", i)
            term = _balanced(d, paren)
            if term is not None:
                full = d[name_start:paren] + term
                if "key(trie_node)" in full:
                    out.append(full)
            i = d.find(head, i + 1)
    return out


UNORDERED = ("FuturesUnordered", "buffer_unordered", "for_each_concurrent", "select_all", "SelectAll", "hash::map::HashMap", "hash::set::HashSet",
             "try_buffer_unordered", "par_iter", "sort_unstable", "select_nth_unstable", "BinaryHeap")


SCOPE_OK = ("Option::map_or(Glob::from(glob), True, closure)", "Option::is_none_or(Glob::from(glob), closure)")


def consumers(ctx, rule, only=None):
    """check_dir and IgnoreFilterer::check_event (shared with C14 R14.2): what each Match outcome does.
         None -> pass / verdict unchanged; Whitelist -> pass / verdict true;
         Ignore(glob): in scope (glob has no source dir, or the path is under it) -> reject; out of scope -> as None"""
    facts = ctx.facts
    want = {"None": "keep", "Whitelist": "pass", "Ignore+scope": "reject", "Ignore-scope": "keep"}
    for name, fnpath, lookup in (("check_dir", IF + "::check_dir", None), ("IgnoreFilterer::check_event", None, ("watchexec_filterer_ignore::IgnoreFilterer", "Filterer", "check_event"))):
        if only is not None and name != only:
            continue
        try:
            g = ctx.anchor_fn(rule, fnpath) if fnpath else ctx.anchor_one(rule, name, facts.trait_methods(*lookup))
            root = thir.root(g)
            en = pathx.Enum(interesting=lambda d: strip_generics(d).endswith("IgnoreFilter::match_path"))
            ps = en.paths(root)
            rows = []
            if name == "check_dir":
                rows = [(q.ev, q) for q in ps]
            else:
                for q in ps:
                    ctx.require(q.val == "Ok{0: pass}" and q.out == "val", rule, "table:%s:returns-pass" % name, "the accumulated verdict is returned", g.loc(g.line), detail=str(q.val))
                    for e in q.ev:
                        if e[0] == "loop":
                            rows += [(it, None) for it in e[1]]
                init = [thir.peel(st["i"]).get("b") for st in thir.walk(root) if isinstance(st, dict) and st.get("k") == "let" and st["p"].get("k") == "bind"
                        and st["p"].get("n") == "pass" and isinstance(st.get("i"), dict)]
                ctx.require(init == [True], rule, "table:%s:init" % name, "the verdict starts as pass", g.loc(g.line), detail=str(init),
                            fail="IgnoreFilterer::check_event no longer starts from `pass = true`")
            seen = {}
            for evs, q in rows:
                variant = scope = None
                for e in evs:
                    if e[0] == "arm" and "IgnoreFilter::match_path(" in e[1]:
                        variant = e[2][0].split("(")[0]
                    elif e[0] == "branch":
                        core, neg = pathx.split_not(e[1])
                        if core in SCOPE_OK:
                            scope = (e[2] != neg)
                if variant is None:
                    ctx.violation(rule, "table:%s:no-match-arm" % name, "%s has a path that does not dispatch on the Match outcome" % name, g.loc(g.line))
                    continue
                key = variant if variant != "Ignore" else ("Ignore+scope" if scope else ("Ignore-scope" if scope is False else "Ignore?"))
                if name == "check_dir":
                    eff = {"True": "keep", "False": "reject"}.get(q.val if q.out in ("val", "ret") else None, "?")
                    if key in ("Whitelist",) and eff == "keep":
                        eff = "pass"
                else:
                    eff = "keep"
                    for e in evs:
                        if e[0] == "assign" and e[1] == "pass":
                            op = e[3].get("op") if e[3].get("k") == "assignop" else "="
                            if op == "=":
                                eff = {"True": "pass", "False": "reject"}.get(e[2], "?")
                            elif op == "BitAndAssign":
                                eff = {"True": eff, "False": "reject"}.get(e[2], "?")
                            else:
                                eff = "?"
                    if ("loop-break",) in evs:
                        eff += "+break"
                seen[key] = eff
                ctx.require(want.get(key) == eff, rule, "table:%s:%s" % (name, key), "%s: %s -> %s" % (name, key, want.get(key)), g.loc(g.line),
                            detail=pathx.show_events(evs)[:300],
                            fail="%s: outcome %s leads to `%s`, documented is `%s`" % (name, key, eff, want.get(key, "(no such row)")))
            ctx.require(set(seen) == set(want), rule, "table:%s:rows" % name, "all four rows exist (None, Whitelist, Ignore in / out of scope)", g.loc(g.line), detail=str(sorted(seen)))
            # the scope test itself: the glob's source directory is a component-wise prefix of the path
            sc = [c for c in facts.children(g) if c.kind == "closure" and pathx.desc(thir.peel(thir.root(c))).replace("^", "") == "Result::is_ok(Path::strip_prefix(path, f))"]
            ctx.require(len(sc) == 1, rule, "scope-test:" + name, "in scope <=> path.strip_prefix(glob.from()) succeeds", g.loc(g.line),
                        fail="%s no longer decides the scope of a positive match by `path.strip_prefix(from).is_ok()`" % name)
            # what is asked: a directory probe for check_dir; (normalised path, is_dir) for events
            args = [[pathx.desc(a).replace("^", "") for a in nd["a"]] for c, nd in thir.calls_in(root) if strip_generics(c).endswith("IgnoreFilter::match_path")]
            if name == "check_dir":
                ctx.require(args == [["self", "path", "True"]], rule, "probe:" + name, "check_dir asks about the path as a directory", g.loc(g.line), detail=str(args))
            else:
                lets = {}
                for st in thir.walk(root):
                    if isinstance(st, dict) and st.get("k") == "let" and st["p"].get("k") == "bind" and isinstance(st.get("i"), dict):
                        lets.setdefault(st["p"]["n"], []).append(pathx.desc(st["i"]))
                isd = [c2 for c2 in facts.children(g) if c2.kind == "closure" and pathx.desc(thir.peel(thir.root(c2))) == "PartialEq::eq(t, Dir)"]
                ctx.require(args == [["self.0", "path", "is_dir"]] and lets.get("is_dir") in (["Option::map_or(file_type, False, closure)"], ["Option::is_some_and(file_type, closure)"]) and len(isd) == 1, rule,
                            "probe:" + name, "the event's path is probed with is_dir = (file type known and Dir)", g.loc(g.line), detail="%s %s" % (args, lets.get("is_dir")))
                ctx.require(any("NormalizePath::normalize(" in d for d in lets.get("path", [])), rule, "probe-normalised:" + name,
                            "the path is normalised before both the lookup and the scope test", g.loc(g.line), detail=str(lets.get("path")),
                            fail="IgnoreFilterer::check_event no longer normalises the event path: match_path normalises its own copy, the scope test then runs on the raw path")
        except Skip:
            pass



def builders_stay(ctx, rule):
    """outside finish() nothing takes a directory's GitignoreBuilder (or its node) out of the trie (shared with C14)"""
    facts = ctx.facts
    n_fn = 0
    for fn in facts.crate_fns("ignore_files"):
        if not fn.def_.startswith("ignore_files::filter::"):
            continue
        n_fn += 1
        owner = fn.def_.split("::{closure")[0].split("::")[-1]
        root = thir.root(fn)
        if root is None:
            continue
        for c, nd in thir.calls_in(root):
            sg = strip_generics(c)
            if pathx.is_tracing(nd):
                continue
            if sg.endswith(("Option::take", "mem::take", "mem::replace", "Option::replace", "Option::take_if")) and nd["a"] and pathx.desc(nd["a"][0]).endswith("builder"):
                ctx.violation(rule, "builder-taken:" + owner, "IgnoreFilter::%s takes the GitignoreBuilder out of its trie node (%s): an error return before it is put back "
                              "leaves the directory without a builder, and later ignore files of that directory are silently not compiled" % (owner, pathx.desc(nd["a"][0])),
                              fn.loc(nd["l"]))
            if sg.startswith("radix_trie::") and sg.split("::")[-1] in ("remove", "remove_ancestor", "remove_subtrie"):
                ctx.violation(rule, "node-removed:" + owner, "IgnoreFilter::%s removes a node from the trie: an error return before it is re-inserted loses the "
                              "directory's patterns" % owner, fn.loc(nd["l"]))
        for a in thir.find(root, "assign"):
            if pathx.desc(a["a"]).endswith(".builder") and owner != "finish":
                ctx.violation(rule, "builder-overwritten:" + owner, "IgnoreFilter::%s overwrites a node's builder in place" % owner, fn.loc(a["l"]))
    ctx.floor(rule, "functions of ignore_files::filter scanned", n_fn, 10)
    ctx.ok(rule, "builders-stay", "no function of ignore_files::filter other than finish() takes or clears a node's builder, none removes a node")



def lines_into_stored_builder(ctx, rule):
    """lines added after construction go into the builder stored in the directory's trie node, and the matcher is recompiled from that builder"""
    from ..origin import IDENTITY_CALLS as _IDC
    facts = ctx.facts
    PT = tuple(c for c in _IDC if c not in ("core::clone::Clone::clone", "core::mem::take"))
    n = 0
    for fn in facts.fns_matching(r"^ignore_files::filter::IgnoreFilter::(add_file|add_globs|recompile)(::\{closure#\d+\})?$"):
        owner = fn.def_.split("::{closure")[0].split("::")[-1]
        for bi, t in fn.calls():
            if fn.macro(t.mac):
                continue
            which = "add_line" if t.callee.is_("GitignoreBuilder::add_line", "ignore::gitignore::GitignoreBuilder::add_line") else \
                ("build" if t.callee.is_("GitignoreBuilder::build", "ignore::gitignore::GitignoreBuilder::build") else None)
            if which is None:
                continue
            n += 1
            os_ = origins(fn, t.args[0], PT)
            stored = bool(os_) and all(a.kind == "call" and (fn.blocks[a.data].term.callee.def_ or "").startswith("radix_trie::") and (fn.blocks[a.data].term.callee.def_ or "").endswith(("::get_mut", "::get"))
                                       and any(st[0] == "f" and st[2] == "builder" for st in a.proj) for a in os_)
            ctx.require(stored, rule, "stored-builder:%s:%s" % (owner, which), "IgnoreFilter::%s: %s works on the builder stored in the directory's trie node" % (owner, which),
                        fn.loc(t.line), detail=str([(a.kind, a.proj[:3]) for a in os_])[:200],
                        fail="IgnoreFilter::%s calls %s on something other than the builder stored in the trie node (a copy): the node's builder does not accumulate, so the next "
                             "file or glob list for the same directory restarts from a stale builder and drops the patterns added before" % (owner, which))
    ctx.floor(rule, "add_line / build sites after construction", n, 3)


def simplify_rule(ctx, rule):
    """simplify_path is unconditional and used on both the key and the probe side (shared with C14)"""
    facts = ctx.facts
    sp = ctx.anchor_fn(rule, "ignore_files::simplify_path")
    vals = {(q.out, q.val) for q in pathx.Enum().paths(thir.root(sp))}
    ctx.require(vals == {("val", "NormalizePath::normalize(dunce::simplified(path))")}, rule, "simplify-path", "simplify_path(p) = dunce::simplified(p).normalize() on every path",
                sp.loc(sp.line), detail=str(sorted(vals, key=str))[:300],
                fail="simplify_path no longer normalises unconditionally (%s): differently spelled paths of one directory get different trie keys, so the nearest ignore file is missed" % str(sorted(vals, key=str))[:200])
    users = {}
    for fname in ("get_applies_in_path", "IgnoreFilter::match_path"):
        fn_ = ctx.anchor_fn(rule, "ignore_files::filter::" + fname)
        users[fname] = sum(1 for g in [fn_] + facts.descendants(fn_) for c, _ in thir.calls_in(thir.root(g)) if strip_generics(c).endswith("ignore_files::simplify_path"))
    ctx.require(all(v >= 1 for v in users.values()), rule, "simplify-path-used", "both the key side (get_applies_in_path) and the probe side (match_path) simplify their path", detail=str(users),
                fail="a trie key or a probed path is no longer passed through simplify_path (%s)" % users)



def caller_keeps_order(ctx, rule):
    """GlobsetFilterer::new passes the ignore files on as given: not sorted, not de-duplicated (shared with C12: an explicit --ignore-file is deliberately listed twice)"""
    facts = ctx.facts
    GFN = "watchexec_filterer_globset::GlobsetFilterer"
    gn = ctx.anchor_one(rule, "GlobsetFilterer::new coroutine", [c for c in facts.children(ctx.anchor_fn(rule, GFN + "::new")) if c.kind == "coroutine"])
    reord = []
    for g in [gn] + facts.descendants(gn):
        for _, t in g.calls():
            full = (t.callee.full or "") + " " + (t.callee.def_ or "")
            for u in UNORDERED + ("::sort", "sort_by", "dedup", "::reverse", "BTreeSet", "BTreeMap"):
                if u in full and not g.macro(t.mac):
                    reord.append(strip_generics(t.callee.def_))
    igargs = [[pathx.desc(a) for a in x["a"]] for c, x in thir.calls_in(thir.root(gn)) if strip_generics(c).endswith("IgnoreFilter::new")]
    ctx.require(not reord and igargs == [["origin", "Iterator::collect(IntoIterator::into_iter(ignore_files))"]], rule, "caller-keeps-order",
                "GlobsetFilterer::new hands the ignore files to IgnoreFilter::new in the order it was given", gn.loc(gn.line), detail="%s %s" % (sorted(set(reord))[:4], igargs),
                fail="GlobsetFilterer::new reorders the ignore files before loading them (%s): same-directory precedence no longer follows the listed order" % sorted(set(reord))[:4])



def matcher_selection(ctx, rule):
    """match_path asks each consulted node about the probed path, with `path or any parent` matching exactly under the origin (shared with C11)"""
    mp = ctx.anchor_fn(rule, IF + "::match_path")
    UNDER = ("Result::is_ok(Path::strip_prefix(path, self.origin))", "Path::starts_with(path, self.origin)")
    en9 = pathx.Enum(interesting=lambda d_: strip_generics(d_).endswith(("Gitignore::matched_path_or_any_parents", "Gitignore::matched")))
    sel = set()
    for q in en9.paths(thir.root(mp)):
        for e in q.ev:
            if e[0] != "loop":
                continue
            for it in e[1]:
                under = None
                for x in it:
                    if x[0] == "branch":
                        core, neg = pathx.split_not(x[1].replace("^", ""))
                        if core in UNDER:
                            under = (x[2] != neg)
                    elif x[0] == "call":
                        sel.add((strip_generics(x[1]).split("::")[-1], tuple(pathx.desc(a).replace("^", "") for a in x[2]["a"]), under))
    want9 = {("matched_path_or_any_parents", ("ignores.gitignore", "path", "is_dir"), True), ("matched", ("ignores.gitignore", "path", "is_dir"), False)}
    ctx.require(sel == want9, rule, "matcher-selection", "under the origin: matched_path_or_any_parents(path, is_dir); outside it: matched(path, is_dir)", mp.loc(mp.line),
                detail=str(sorted(sel, key=str))[:400],
                fail="match_path chooses between `path or any parent` and `path only` matching on something other than whether the probed path is under the origin, or asks about a "
                     "different path (%s): directory patterns of global ignore files stop applying below a project ignore file" % str(sorted(sel - want9, key=str))[:200])



def run(ctx):
    ctx.level = "other"
    facts = ctx.facts
    ctx.undecided = ("what a glob matches and agreement with `git check-ignore` over the pattern grammar (value-level semantics of the `ignore` "
                     "crate's Gitignore); the structural clauses decided are scoping of the per-directory lookup, the upward walk, precedence order "
                     "of loading, and per-directory grouping.")
    ctx.rule("R03.1", "ancestor lookup is component-exact: a node obtained from Trie::get_ancestor (a string-prefix lookup) is consulted "
                      "(Gitignore::matched*) only on paths where a component-wise containment test between the searched path and the node's key "
                      "succeeded (Path::starts_with / strip_prefix(..).is_ok())")
    ctx.also("R03.1", 'no ancestry test on rendered strings anywhere in the ignore crates, discovery (must_skip) included (shared with R14.5)')
    ctx.rule("R03.2", "walk to the parent: when the node does not decide (no match, or not an ancestor) the search continues with the parent of the "
                      "node's key; Match::None is returned only when there is no node or no parent; a found match is returned as is")
    ctx.rule("R03.3", "listed order is precedence: the file contents consumed by the add_line loop of IgnoreFilter::new come from `files` through "
                      "order-preserving combinators only (no FuturesUnordered / buffer_unordered / hash-map iteration)")
    ctx.also("R03.3", 'the discovery arguments keep explicit files in the order given: constructors store them as given, canonicalise() resolves them in order (shared with R14.2)')
    ctx.rule("R03.4", "consumers re-check the scope of positive matches: check_dir and IgnoreFilterer::check_event treat Match::Ignore(glob) as a "
                      "rejection only when glob.from() is a prefix of the path (or absent); a whitelist match passes")
    ctx.also("R03.4", "after the whitelist the first decision on every path through GlobsetFilterer::check_event is the loaded ignore files' verdict, unconditionally")
    ctx.rule("R03.6", "every line of an ignore file / glob list reaches GitignoreBuilder::add_line unless it is empty or a comment, nothing ends the line "
                      "loop early except an add_line error; an empty per-directory node is inserted only when the directory has none yet")
    ctx.rule("R03.7", "builders stay where they are: outside finish() nothing takes a directory's GitignoreBuilder (or its whole node) out of the trie, so an "
                      "early `?` return between taking and putting back cannot lose the patterns loaded so far")
    ctx.rule("R03.8", "one spelling per directory: every path used as a trie key or probed against it goes through simplify_path, which is "
                      "unconditionally dunce::simplified(path).normalize() (no fast path that lets `/o/./sub` or `/o//sub` through)")
    ctx.rule("R03.9", "matcher selection in match_path: a consulted node is asked about the probed path itself (and is_dir); `path or any parent` "
                      "matching is used exactly when the probed path lies under the filter's origin - decided on the probed path, not on the moving search cursor")
    ctx.also("R03.9", 'the CLI roots the filterer at the project origin, the directory discovery started from (shared with R12.1)')
    ctx.rule("R03.5", "per-directory grouping: every GitignoreBuilder::add_line gets Some(applies_in) where applies_in is "
                      "get_applies_in_path(origin, file), and the compiled set is stored under that same directory's key")
    ctx.also("R03.5", 'the directory each discovered file is recorded as applying in (origin table, shared with R14.4)')

    # ---- R03.1 / R03.2
    try:
        f = ctx.anchor_fn("R03.1", IF + "::match_path")
        root = thir.root(f)
        loops = [n for n in thir.find(root, "loop") if not n.get("x")]
        if len(loops) != 1:
            ctx.violation("R03.1", "floor:search-loop", "match_path no longer has one search loop", f.loc(f.line))
            raise Skip()
        pathx.SUBST = pathx.let_substitutions(root)
        try:
            ps = pathx.Enum(interesting=interesting).paths(loops[0]["e"])
        finally:
            pathx.SUBST = {}
        loc = f.loc(f.line)
        n_consult = 0
        n_paths = 0
        for p in ps:
            ev = p.ev
            lookup = [e for e in ev if e[0] == "call" and strip_generics(e[1]).endswith("::get_ancestor")]
            if not lookup:
                ctx.incomplete("R03.1", "lookup-missing", "an iteration does not look up a node", loc, detail=repr(p))
                continue
            # feasibility: `let match_ = None` (skipped node) cannot take a non-None arm
            letv = [e for e in ev if e[0] == "let" and e[1] == "match_"]
            arms = [e for e in ev if e[0] == "arm" and e[1] == "match_"]
            if not arms:
                # the dispatch spelled as a test: `if !matches!(match_, Match::None) { return match_ }` / `if match_ == Match::None`
                for e in ev:
                    if e[0] == "branch":
                        core, neg = pathx.split_not(e[1])
                        if core == "PartialEq::eq(match_, None)":
                            arms = [("arm", "match_", ("None" if (bool(e[2]) != neg) else "_",), 0)]
                            break
                    elif e[0] == "iflet" and e[1] == "match_" and tuple(e[2]) == ("None",):
                        arms = [("arm", "match_", ("None" if e[3] else "_",), 0)]
                        break
            if letv and letv[0][2] == "None" and arms and arms[0][2][0] != "None":
                continue
            n_paths += 1
            found = [e for e in ev if e[0] == "iflet" and "get_ancestor(" in e[1]]
            consult_i = [i for i, e in enumerate(ev) if e[0] == "call" and re.search(r"Gitignore::matched(_path_or_any_parents|_path)?$", strip_generics(e[1]))]
            contained = False
            for i, e in enumerate(ev):
                if e[0] != "branch":
                    continue
                d = e[1]
                for atom in containment_atoms(d):
                    if implies(d, e[2], atom, True) and (not consult_i or i < consult_i[0]):
                        contained = True
            key = "consult" if consult_i else "skip"
            if consult_i:
                n_consult += 1
                ctx.require(contained, "R03.1", "consult-needs-containment:%s" % (arms[0][2][0] if arms else "?"),
                            "the node's patterns are consulted only after search_path.starts_with(node key) held", loc, detail=pathx.show_events(ev)[:500],
                            fail="match_path consults the ignore set of a trie node found by string-prefix lookup without checking that the node's "
                                 "directory is a component-wise ancestor of the path: test/.gitignore decides paths under tests/")
            # R03.2
            out = (p.out, p.val)
            arm = arms[0][2][0] if arms else None
            if found and not found[0][3]:
                ctx.require(out == ("ret", "None"), "R03.2", "no-node-none", "no node at all => Match::None", loc)
                continue
            if arm == "None":
                par = [e for e in ev if e[0] == "iflet" and e[1].startswith("Path::parent(") and "key(trie_node)" in e[1]]
                if par and par[0][3]:
                    asg = [e for e in ev if e[0] == "assign" and e[1] == "search_path" and e[2] == "trie_parent"]
                    ctx.require(bool(asg) and p.out in ("val", "cont"), "R03.2", "undecided-walks-up:%s" % key,
                                "an undecided node continues with the parent of its key", loc, detail=pathx.show_events(ev)[-300:],
                                fail="when a node does not decide, match_path does not continue with the parent of the node's key")
                elif par:
                    ctx.require(out == ("ret", "None"), "R03.2", "top-none:%s" % key, "no parent left => Match::None", loc)
                else:
                    ctx.violation("R03.2", "parent-step-missing:%s" % key, "the None arm does not compute the parent of the node's key", loc, detail=pathx.show_events(ev)[-300:])
            elif arm is not None:
                ctx.require(out == ("ret", "match_") and bool(consult_i), "R03.2", "decided-returned", "a decided match is returned unchanged", loc,
                            fail="a verdict is returned that does not come from consulting an ancestor's patterns")
            else:
                # a node was found but the iteration ends without the match_ dispatch: only continuing upwards is acceptable
                par = [e for e in ev if e[0] == "iflet" and e[1].startswith("Path::parent(") and "key(trie_node)" in e[1]]
                up = [e for e in ev if e[0] == "assign" and e[1] == "search_path"]
                okk = (p.out in ("val", "cont") and bool(up)) or (out == ("ret", "None") and bool(par) and not par[0][3])
                ctx.require(okk, "R03.2", "skipped-node-walks-up:%s" % key,
                            "a node that is not consulted (not an ancestor) does not end the search: it continues with the node key's parent", loc,
                            detail=pathx.show_events(ev)[-300:],
                            fail="match_path gives up (%s %s) at a trie node that is only a string-prefix sibling instead of continuing with its parent: "
                                 "the real ancestors' ignore files (and global/explicit ones at the root) are never consulted for that path" % (p.out, p.val))
        ctx.floor("R03.1", "iteration paths consulting a node", n_consult, 4)
        ctx.floor("R03.2", "feasible iteration paths", n_paths, 8)
    except Skip:
        pass

    # ---- R03.3 order of loading in IgnoreFilter::new
    try:
        n = ctx.anchor_one("R03.3", "IgnoreFilter::new coroutine", [c for c in facts.children(ctx.anchor_fn("R03.3", IF + "::new")) if c.kind == "coroutine"])
        bad = []
        for fn in [n] + facts.descendants(n):
            ctx.saw_fn(fn)
            for _, t in fn.calls():
                full = (t.callee.full or "") + " " + (t.callee.def_ or "")
                for u in UNORDERED:
                    if u in full and not fn.macro(t.mac):
                        bad.append((u, t.line, strip_generics(t.callee.def_)))
        ctx.require(not bad, "R03.3", "order-preserving-load", "files are read and folded in their listed order", n.loc(n.line),
                    detail=str(sorted(set(bad))[:4]),
                    fail="IgnoreFilter::new passes the files through an order-destroying combinator (%s): precedence between files applying in the "
                         "same directory depends on I/O completion order and differs between runs" % sorted({b[0] for b in bad}))
        # the loop that consumes them iterates the collected contents
        adds = [t for _, t in n.calls() if t.callee.is_("ignore::gitignore::GitignoreBuilder::add_line")]
        ctx.floor("R03.3", "add_line in IgnoreFilter::new", len(adds), 1)
        reads = []
        for fn in facts.descendants(n):
            reads += [t for _, t in fn.calls() if t.callee.is_("tokio::fs::read_to_string::read_to_string")]
        ctx.floor("R03.3", "file reads", len(reads), 1)
    except Skip:
        pass

    # ---- R03.4 consumers: complete verdict tables over the Match outcome and the scope re-check
    consumers(ctx, "R03.4")

    # ---- R03.6 line loops and node creation
    try:
        EMPTYL, COMMENT = "str::is_empty(line)", "str::starts_with(line, '#')"
        for fname in ("new", "add_file", "add_globs"):
            base = ctx.anchor_fn("R03.6", IF + "::" + fname)
            body = ([base] + [c for c in facts.children(base) if c.kind == "coroutine"])[-1]
            # small private helpers of IgnoreFilter (e.g. an extracted `ensure_node`) are read as part of their caller
            hl = {k: v for k, v in pathx.helpers(facts, IF + "::", exclude=(base.def_,)).items() if getattr(v, "vis", "") != "Public" and k.split("::")[-1] not in ("new", "add_file", "add_globs", "match_path", "check_dir", "finish", "empty")}
            en = pathx.Enum(interesting=lambda d: any(strip_generics(d).endswith(x) for x in ("GitignoreBuilder::add_line", "radix_trie::trie::insert")), inline=hl)
            ps = en.paths(thir.root(body))
            its = set()

            def collect(evs):
                for e in evs:
                    if e[0] == "loop":
                        if e[2] in ("for str::lines(content)", "for globs"):
                            its.update(e[1])
                        for it in e[1]:
                            collect(it)
            for q in ps:
                collect(q.ev)
            ctx.floor("R03.6", "line-loop iteration paths in " + fname, len(its), 2)
            n_add = n_skip = 0
            for it in its:
                adds = [e for e in it if e[0] == "call" and strip_generics(e[1]).endswith("GitignoreBuilder::add_line")]
                # a skip is justified when the conditions on the path cannot hold for a line that is neither empty nor a comment
                skipped_because = any(e[0] == "branch" and eval_cond(e[1], {EMPTYL: False, COMMENT: False}) is (not e[2]) for e in it)
                brk = ("loop-break",) in it
                ctx.require(not brk, "R03.6", "lines:%s:no-early-stop" % fname, "no line ends the loop early", body.loc(body.line), detail=pathx.show_events(it)[:200],
                            fail="IgnoreFilter::%s stops reading at a particular line (%s): the patterns after it are never loaded" % (fname, pathx.show_events(it)[:120]))
                if adds:
                    n_add += 1
                    ctx.require(len(adds) == 1 and pathx.desc(adds[0][2]["a"][2]) == "line", "R03.6", "lines:%s:added-once" % fname, "the line itself is added once",
                                body.loc(body.line))
                else:
                    n_skip += 1
                    ctx.require(skipped_because, "R03.6", "lines:%s:skip-only-blank-or-comment" % fname, "a line is skipped only when it is empty or a comment", body.loc(body.line),
                                detail=pathx.show_events(it)[:200],
                                fail="IgnoreFilter::%s skips lines that are neither empty nor comments (%s): their patterns are never loaded" % (fname, pathx.show_events(it)[:160]))
            ctx.require(n_add >= 1, "R03.6", "lines:%s:some-added" % fname, "lines are added", body.loc(body.line))
            if fname != "new":
                NONE = "Option::is_none(trie::get(self.ignores, applies_in_str))"
                n_ins = 0
                for q in ps:
                    for i, e in enumerate(q.ev):
                        if e[0] == "call" and strip_generics(e[1]).endswith("radix_trie::trie::insert") and pathx.desc(e[2]["a"][0]).lstrip("^") == "self.ignores":
                            n_ins += 1
                            guard = any(b[0] == "branch" and implies(b[1].replace("^", "").replace("Option::is_some(", "Not Option::is_none("), b[2], NONE, True) for b in q.ev[:i])
                            ctx.require(guard, "R03.6", "node-created-only-if-absent:" + fname, "the empty node is inserted only when the directory has no node yet",
                                        body.loc(body.line), detail=pathx.show_events(q.ev[:i + 1])[-200:],
                                        fail="IgnoreFilter::%s overwrites the existing node of a directory with an empty one: the patterns loaded earlier for that directory are lost" % fname)
                    absent_no_insert = [q for q in ps if any(b[0] == "branch" and implies(b[1].replace("^", "").replace("Option::is_some(", "Not Option::is_none("), b[2], NONE, True) for b in q.ev)
                                        and not any(e[0] == "call" and strip_generics(e[1]).endswith("radix_trie::trie::insert") for e in q.ev)]
                ctx.require(n_ins >= 1 and not absent_no_insert, "R03.6", "node-created-when-absent:" + fname, "a directory without a node gets one before lines are added",
                            body.loc(body.line), fail="IgnoreFilter::%s does not create the node of a directory that has none: its patterns are silently dropped" % fname)
    except Skip:
        pass

    # ---- R03.7 nothing takes a builder / node out of the trie
    try:
        builders_stay(ctx, "R03.7")
        lines_into_stored_builder(ctx, "R03.7")
    except Skip:
        pass

    # ---- R03.3b
    try:
        caller_keeps_order(ctx, "R03.3")
    except Skip:
        pass
    try:
        from . import c14 as _c14a
        _c14a.origin_args(ctx, "R03.3")      # explicit ignore files keep their listed order through the discovery arguments as well
    except Skip:
        pass
    try:
        from . import c12 as _c12a
        _c12a.globset_origin(ctx, "R03.9")
    except Skip:
        pass
    try:
        _c14a.no_string_prefix(ctx, "R03.1")      # ancestry is never decided on rendered strings, in discovery either (must_skip)
    except Skip:
        pass
    try:
        _c14a.origin_table(ctx, "R03.5")          # which directory each discovered file is recorded as applying in
    except Skip:
        pass
    try:
        from . import c11 as _c11a
        _c11a.ignore_files_consulted(ctx, "R03.4")
    except Skip:
        pass

    # ---- R03.9 matcher selection
    try:
        matcher_selection(ctx, "R03.9")
    except Skip:
        pass

    # ---- R03.8 simplify_path
    try:
        simplify_rule(ctx, "R03.8")
    except Skip:
        pass

    # ---- R03.5 per-directory grouping
    try:
        for fname in ("new", "add_file", "add_globs"):
            base = ctx.anchor_fn("R03.5", IF + "::" + fname)
            bodies = [base] + [c for c in facts.children(base) if c.kind == "coroutine"]
            body = bodies[-1]
            ctx.saw_fn(body)
            adds = [(bi, t) for bi, t in body.calls() if t.callee.is_("ignore::gitignore::GitignoreBuilder::add_line")]
            ctx.floor("R03.5", "add_line in " + fname, len(adds), 1)
            for bi, t in adds:
                src = origins(body, t.args[1], VALUE_CALLS)
                ok = False
                for a in src:
                    if a.kind == "agg":
                        st = body.blocks[a.data[0]].stmts[a.data[1]]
                        ad = st.rv.agg_adt()
                        if ad and ad[1] == "Some":
                            for b in origins(body, st.rv.ops[0], VALUE_CALLS):
                                if b.kind == "call" and body.blocks[b.data].term.callee.is_("filter::get_applies_in_path"):
                                    ok = True
                ctx.require(ok, "R03.5", "add-line-scope:" + fname, "add_line is given Some(get_applies_in_path(origin, file))", body.loc(t.line),
                            fail="%s adds a pattern line without (or with a different) directory scope: patterns of an ignore file would apply outside its directory" % fname)
            # every GitignoreBuilder is rooted at the directory it is stored under (anchored patterns are relative to the builder's root)
            for fn in [body] + [c for c in facts.descendants(body) if c.kind == "closure"]:
                for bi, t in fn.calls():
                    if not t.callee.is_("ignore::gitignore::GitignoreBuilder::new"):
                        continue
                    kinds = set()
                    for a in origins(fn, t.args[0], VALUE_CALLS + ("core::convert::AsRef::as_ref",)):
                        if a.kind == "call" and fn.blocks[a.data].term.callee.is_("filter::get_applies_in_path"):
                            kinds.add("applies_in")
                        elif a.kind == "upvar" and a.data == "applies_in":
                            kinds.add("applies_in")
                        elif (a.kind == "upvar" and a.data == "origin") or (a.kind == "arg") or \
                                (a.kind == "call" and fn.blocks[a.data].term.callee.is_("ignore_files::simplify_path", "simplify_path", "tokio::fs::canonicalize::canonicalize")):
                            kinds.add("origin")
                        else:
                            kinds.add("other:" + repr(a))
                    if fname in ("add_file", "add_globs"):
                        okk = kinds == {"applies_in"}
                    else:
                        okk = kinds <= {"applies_in", "origin"} and bool(kinds)
                    ctx.require(okk, "R03.5", "builder-root:%s:%s" % (fname, "+".join(sorted(kinds))),
                                "a new GitignoreBuilder in %s is rooted at %s" % (fname, sorted(kinds)), fn.loc(t.line),
                                fail="%s creates the pattern builder of a directory rooted at %s instead of that directory: anchored patterns (/x, a/b) of "
                                     "its ignore file are matched relative to the wrong directory" % (fname, sorted(kinds)))
            ins = [(bi, t) for bi, t in body.calls() if t.callee.krate == "radix_trie" and t.callee.path.endswith("::insert")]
            for bi, t in ins:
                ks = origins(body, t.args[1], VALUE_CALLS + ("alloc::string::ToString::to_string", "std::path::Path::display", "core::ops::deref::Deref::deref"))
                kinds = set()
                for a in ks:
                    if a.kind == "call":
                        c = body.blocks[a.data].term.callee
                        kinds.add("applies_in" if c.is_("filter::get_applies_in_path") else ("prefix" if c.is_("filter::prefix") else strip_generics(c.def_)))
                    else:
                        kinds.add(a.kind)
                ctx.require(kinds <= {"applies_in", "prefix"} and kinds, "R03.5", "insert-key:%s:%s" % (fname, "+".join(sorted(kinds))),
                            "compiled sets are stored under their directory's key (%s)" % sorted(kinds), body.loc(t.line),
                            fail="%s stores a compiled ignore set under a key that is not its applies-in directory (%s)" % (fname, sorted(kinds)))
    except Skip:
        pass

    # ---- R03.10 an ignored directory contributes no ignore files of its own (discovery pruning, owned by C14)
    ctx.rule("R03.10", "the ignore file of a directory that an ancestor's file ignores is never loaded, so it cannot re-include anything")
    ctx.borrow("C14", ["R14.2"], "R03.10", "visit_path yields a directory only after check_dir accepted it against the filter grown so far")

    ctx.rule("R03.11", "every ignore file found in a directory joins the walk's filter before the next one is looked for, so an earlier file's exclusions prune the directories below")
    ctx.borrow("C14", ["R14.3"], "R03.11", "each discover_file of the Find arm is followed by add_last_file_to_filter on the same path")
