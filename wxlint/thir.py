"""Helpers over the serialised THIR trees: walking, pattern semantics over enumerated finite values,
small-expression evaluation for table rules.  No function body is ever executed: a `match` is
"evaluated" by the compiler's own pattern trees (first-match semantics), nothing else."""


def walk(node):
    """pre-order over all dict nodes of a THIR tree"""
    stack = [node]
    while stack:
        n = stack.pop()
        if isinstance(n, dict):
            yield n
            for v in n.values():
                if isinstance(v, (dict, list)):
                    stack.append(v)
        elif isinstance(n, list):
            for v in reversed(n):
                if isinstance(v, (dict, list)):
                    stack.append(v)


def find(node, kind, pred=None):
    return [n for n in walk(node) if n.get("k") == kind and (pred is None or pred(n))]


def root(fn):
    from . import normal
    return normal.normalised_root(fn)


def peel(e):
    """strip transparent wrappers: blocks with only a tail expr, refs, derefs, coercions"""
    while isinstance(e, dict):
        k = e.get("k")
        if k == "block" and not e.get("s") and e.get("e") is not None:
            e = e["e"]
        elif k in ("ref", "deref", "coerce", "rawref", "cast"):
            e = e["e"]
        else:
            break
    return e


# ---- values -------------------------------------------------------------------------------

def V(adt, variant, **fields):
    return ("v", adt, variant, fields)


ANY = ("any",)


def enum_values(facts, adt_path, depth=3):
    """all values of an enum whose fields are (recursively) enums / unit; other field types -> ANY"""
    a = facts.find_adt(adt_path)
    if a is None or a["kind"] != "enum":
        return [ANY]
    out = []
    for v in a["variants"]:
        choices = [[]]
        for f in v["fields"]:
            sub = [ANY]
            if f.get("adt") and depth > 0:
                fa = facts.find_adt(f["adt"])
                if fa is not None and fa["kind"] == "enum" and fa["path"] not in ("core::option::Option",):
                    sub = enum_values(facts, f["adt"], depth - 1)
            choices = [c + [(f["name"], s)] for c in choices for s in sub]
        for c in choices:
            out.append(("v", adt_path, v["name"], dict(c)))
    return out


def show(val):
    if val[0] == "v":
        fs = val[3]
        if not fs:
            return val[2]
        return "%s(%s)" % (val[2], ", ".join(show(x) for x in fs.values()))
    if val[0] == "any":
        return "_"
    return repr(val[1])


def debug_render(val):
    """what #[derive(Debug)] prints for a unit/tuple-variant enum value (used by C16)"""
    if val[0] == "v":
        fs = list(val[3].values())
        if not fs:
            return val[2]
        return "%s(%s)" % (val[2], ", ".join(debug_render(x) for x in fs))
    raise ValueError("cannot render %r" % (val,))


# ---- pattern semantics --------------------------------------------------------------------

def pat_matches(p, val, env=None):
    """True / False / None (undetermined).  If env (dict) is given, bindings are recorded in it
    (only meaningful when the result is True)."""
    k = p["k"]
    if k in ("wild", "missing"):
        return True
    if k == "bind":
        if env is not None:
            env[p["n"]] = val
        if "sub" in p:
            return pat_matches(p["sub"], val, env)
        return True
    if k in ("deref", "derefpat"):
        return pat_matches(p["p"], val, env)
    if k == "or":
        res = False
        for q in p["ps"]:
            r = pat_matches(q, val, env)
            if r is True:
                return True
            if r is None:
                res = None
        return res
    if k == "guard":
        r = pat_matches(p["p"], val, env)
        return None if r else r
    if val[0] in ("any", "sym", "app", "undet"):
        return None
    if k == "variant":
        if val[0] != "v":
            return None
        if p["v"] != val[2]:
            return False
        res = True
        for name, sp in p["sub"]:
            fv = val[3].get(name, ANY) if isinstance(name, str) else ANY
            if not isinstance(name, str):
                # positional field: take by index
                vals = list(val[3].values())
                fv = vals[name] if name < len(vals) else ANY
            r = pat_matches(sp, fv, env)
            if r is False:
                return False
            if r is None:
                res = None
        return res
    if k == "leaf":
        if val[0] == "t":
            res = True
            for name, sp in p["sub"]:
                fv = val[1][name] if isinstance(name, int) and name < len(val[1]) else ANY
                r = pat_matches(sp, fv, env)
                if r is False:
                    return False
                if r is None:
                    res = None
            return res
        if val[0] == "v":
            res = True
            for name, sp in p["sub"]:
                r = pat_matches(sp, val[3].get(name, ANY), env)
                if r is False:
                    return False
                if r is None:
                    res = None
            return res
        return None
    if k == "const":
        if val[0] == "s":
            return p.get("s") == val[1] if "s" in p else None
        if val[0] == "i":
            return p.get("i") == val[1] if "i" in p else None
        if val[0] == "b":
            return p.get("b") == val[1] if "b" in p else None
        return None
    if k == "range":
        if val[0] == "i":
            lo, hi = p["lo"], p["hi"]
            x = val[1]
            if isinstance(lo, int) and x < lo:
                return False
            if isinstance(hi, int):
                if p["end"] == "Included" and x > hi:
                    return False
                if p["end"] == "Excluded" and x >= hi:
                    return False
            return True
        return None
    return None


def first_arm(match_node, val, env=None, guard=None):
    """index of the first arm that certainly matches; None if undetermined before a sure match.
    An arm with a guard counts as undetermined when its pattern matches, unless `guard(arm, env)`
    decides it (True/False/None).  Bindings of the chosen arm are recorded in env."""
    for i, arm in enumerate(match_node["arms"]):
        e2 = {} if env is not None else None
        r = pat_matches(arm["p"], val, e2)
        if r is None:
            return None
        if r:
            if arm.get("g") is not None:
                if guard is None:
                    return None
                scope = dict(env or {})
                scope.update(e2 or {})
                g = guard(arm, scope)
                if g is None:
                    return None
                if g is False:
                    continue
            if env is not None:
                env.update(e2)
            return i
    return None


def pattern_strings(p):
    """all string constants mentioned in a pattern (through or/deref)"""
    k = p["k"]
    if k == "const" and "s" in p:
        return [p["s"]]
    if k in ("deref", "derefpat", "guard"):
        return pattern_strings(p["p"])
    if k == "or":
        out = []
        for q in p["ps"]:
            out += pattern_strings(q)
        return out
    if k == "bind" and "sub" in p:
        return pattern_strings(p["sub"])
    return []


def pattern_variants(p):
    """variant names (top-level, through or/deref/bind) a pattern mentions; '_' for catch-alls"""
    k = p["k"]
    if k == "variant":
        return [p["v"]]
    if k in ("wild",):
        return ["_"]
    if k == "bind":
        return pattern_variants(p["sub"]) if "sub" in p else ["_"]
    if k in ("deref", "derefpat", "guard"):
        return pattern_variants(p["p"])
    if k == "or":
        out = []
        for q in p["ps"]:
            out += pattern_variants(q)
        return out
    return []


# ---- small expression evaluation ----------------------------------------------------------

def expr_value(e):
    """structural value of a constructor-like expression; ('expr', kind) otherwise"""
    e = peel(e)
    if not isinstance(e, dict):
        return ("none",)
    k = e.get("k")
    if k == "adt":
        return ("v", e["adt"], e["v"], {n if isinstance(n, str) else str(n): expr_value(x) for n, x in e["f"]})
    if k == "lit":
        if "s" in e:
            return ("s", e["s"])
        if "i" in e:
            return ("i", e["i"])
        if "b" in e:
            return ("b", e["b"])
        if "c" in e:
            return ("s", e["c"])
        return ("lit",)
    if k == "call":
        f = peel(e["fn"])
        if isinstance(f, dict) and f.get("k") == "fn":
            return ("call", f["def"], [expr_value(a) for a in e["a"]], f.get("full"))
        return ("call", "?", [expr_value(a) for a in e["a"]], None)
    if k == "fn":
        return ("fn", e["def"], e.get("full"))
    if k == "tuple":
        return ("t", [expr_value(x) for x in e["f"]])
    if k == "array":
        return ("arr", [expr_value(x) for x in e["f"]])
    if k in ("var", "upvar"):
        return ("var", e["n"])
    if k == "const":
        return ("const", e["def"])
    if k == "field":
        return ("field", expr_value(e["e"]), e["n"])
    if k == "block":
        # block with statements: value of tail if present
        if e.get("e") is not None:
            return expr_value(e["e"])
        return ("unit",)
    if k == "zst":
        return ("zst", e.get("ty"))
    return ("expr", k)


def ctor_value(e):
    """like expr_value but maps tuple-variant constructor calls `Enum::Variant(x)` to values.
    (THIR represents `Foo::Bar(x)` with a tuple-variant as a call to the constructor fn.)"""
    v = expr_value(e)
    return _ctor(v)


def _ctor(v):
    if v[0] == "call":
        args = [_ctor(a) for a in v[2]]
        return ("call", v[1], args, v[3])
    if v[0] == "v":
        return ("v", v[1], v[2], {k: _ctor(x) for k, x in v[3].items()})
    if v[0] in ("t", "arr"):
        return (v[0], [_ctor(x) for x in v[1]])
    return v


def calls_in(node):
    """all (callee def, call node) in a THIR subtree, including method calls"""
    out = []
    for n in walk(node):
        if n.get("k") == "call":
            f = peel(n["fn"])
            if isinstance(f, dict) and f.get("k") == "fn":
                out.append((f["def"], n))
    return out


def closures_in(node):
    return [n["def"] for n in walk(node) if n.get("k") == "closure"]


def pat_str(p):
    """compact rendering of a pattern: Ok(true), Err(_), Running{..}, "lit", A | B"""
    k = p["k"]
    if k in ("wild", "missing"):
        return "_"
    if k == "bind":
        return pat_str(p["sub"]) if "sub" in p else "_"
    if k in ("deref", "derefpat", "guard"):
        return pat_str(p["p"])
    if k == "or":
        return " | ".join(pat_str(q) for q in p["ps"])
    if k == "variant":
        subs = [pat_str(sp) for _, sp in p["sub"]]
        if not subs:
            return p["v"]
        if all(x == "_" for x in subs):
            return p["v"] + "(_)"
        return "%s(%s)" % (p["v"], ", ".join(subs))
    if k == "leaf":
        subs = [pat_str(sp) for _, sp in p["sub"]]
        return "(%s)" % ", ".join(subs)
    if k == "const":
        for key in ("s", "i", "b"):
            if key in p:
                v = p[key]
                return ("true" if v else "false") if isinstance(v, bool) else repr(v)
        return "const"
    if k == "range":
        return "%s..%s" % (p["lo"], p["hi"])
    return k


def decide(e, var, val, subst=None, depth=0):
    """What the expression `e` yields when the variable named `var` holds the enumerated value `val` - decided with pattern semantics only:
    `match var {..}` picks its first matching arm, `if` follows a condition that is itself decided (`matches!(var, P)`, `var == V`, `!c`,
    `a && b`), blocks yield their tail, single-assignment locals are read through `subst` (pathx.let_substitutions).  Returns
    ('b', bool) | ('v', adt, variant, fields) | ('d', description) for anything else, or None when a branch on something other than `var`
    (or an unreadable pattern) decides the result."""
    if depth > 40:
        return None
    subst = subst or {}
    while isinstance(e, dict):
        k = e.get("k")
        if k in ("ref", "deref", "coerce", "rawref", "cast"):
            e = e["e"]
        elif k == "block" and e.get("e") is not None and all(isinstance(s, dict) and s.get("k") == "let" and s.get("else") is None for s in e.get("s", [])):
            e = e["e"]
        elif k == "var" and ("#%d" % e["id"] if "id" in e else None) in subst:
            e = subst["#%d" % e["id"]]
        else:
            break
    if not isinstance(e, dict):
        return None
    k = e.get("k")

    def is_var(x):
        x = peel(x)
        while isinstance(x, dict) and x.get("k") == "var" and ("#%d" % x["id"] if "id" in x else None) in subst:
            x = peel(subst["#%d" % x["id"]])
        return isinstance(x, dict) and x.get("k") in ("var", "upvar") and x.get("n") == var
    if k == "lit" and "b" in e:
        return ("b", e["b"])
    if k == "match" and e.get("src") == "Normal":
        if not is_var(e["e"]):
            return None
        i = first_arm(e, val)
        if i is None:
            return None
        return decide(e["arms"][i]["b"], var, val, subst, depth + 1)
    if k == "if":
        c = e.get("c")
        cp = peel(c)
        if isinstance(cp, dict) and cp.get("k") == "letx":
            if not is_var(cp["e"]):
                return None
            r = pat_matches(cp["p"], val, None)
            cv = None if r is None else ("b", bool(r))
        else:
            cv = decide(c, var, val, subst, depth + 1)
        if cv == ("b", True):
            return decide(e["t"], var, val, subst, depth + 1)
        if cv == ("b", False):
            return decide(e["e"], var, val, subst, depth + 1) if e.get("e") is not None else ("d", "()")
        return None
    if k == "un" and e.get("op") == "Not":
        c = decide(e["e"], var, val, subst, depth + 1)
        return ("b", not c[1]) if c and c[0] == "b" else None
    if k == "logic":
        a = decide(e["a"], var, val, subst, depth + 1)
        if not a or a[0] != "b":
            return None
        if (e["op"] == "or") == a[1]:
            return a
        return decide(e["b"], var, val, subst, depth + 1)
    if k in ("bin", "call"):
        # var == Variant / var != Variant (operator or PartialEq call) against a fieldless variant literal
        op, args = None, None
        if k == "bin" and e.get("op") in ("Eq", "Ne"):
            op, args = e["op"], [e["a"], e["b"]]
        elif k == "call":
            f = peel(e["fn"])
            nm = (f.get("def") or "") if isinstance(f, dict) else ""
            if nm.endswith("PartialEq::eq") or nm.endswith("PartialEq::ne"):
                op, args = ("Eq" if nm.endswith("eq") else "Ne"), e["a"]
        if op and len(args) == 2:
            for x, y in ((args[0], args[1]), (args[1], args[0])):
                yp = peel(y)
                if is_var(x) and isinstance(yp, dict) and yp.get("k") == "adt" and not yp.get("f") and val[0] == "v":
                    same = yp.get("v") == val[2]
                    return ("b", same if op == "Eq" else not same)
            if is_var(args[0]) or is_var(args[1]):
                return None
    if k == "adt":
        return expr_value(e)
    from . import pathx as _px
    return ("d", _px.desc(e))
